// Loads one instance with the lazy loader and prints the contents of its
// INVERSE attributes, one line per attribute:   <name>: id id id ...
#include "cllazyfile/lazyInstMgr.h"
#include "clstepcore/sdai.h"
#include "clstepcore/STEPaggregate.h"
#include "clstepcore/ExpDict.h"
#include "clstepcore/Registry.h"
#include <iostream>
#include <cstdlib>
#include <set>
#include "schema.h"

static void dump( const char * name, const EntityAggregate * ea ) {
    std::multiset< int > ids;
    if( ea ) {
        for( EntityNode * en = ( EntityNode * ) ea->GetHead(); en; en = ( EntityNode * ) en->NextNode() ) {
            ids.insert( en->node->StepFileId() );
        }
    }
    std::cout << name << ":";
    for( std::multiset< int >::iterator it = ids.begin(); it != ids.end(); ++it ) {
        std::cout << " " << *it;
    }
    std::cout << std::endl;
}

int main( int argc, char ** argv ) {
    if( argc != 3 ) {
        std::cerr << "usage: check file.p21 instance-id" << std::endl;
        return 2;
    }
    lazyInstMgr lim;
    lim.initRegistry( SchemaInit );
    lim.openFile( argv[1] );
    SdaiItem * it = dynamic_cast< SdaiItem * >( lim.loadInstance( strtoull( argv[2], 0, 10 ) ) );
    if( !it ) {
        std::cerr << "could not load #" << argv[2] << " as an item" << std::endl;
        return 2;
    }
    const SdaiItem * cit = it;
    dump( "used_by", cit->used_by_() );
    dump( "owned_by", cit->owned_by_() );
    return 0;
}
