#!/bin/sh
# usage: run.sh <build-dir>
# Generates C++ for two_inverses.exp with <build-dir>/bin/exp2cxx, compiles it together with check.cc
# against the libraries in <build-dir>/lib, then lazily loads instances of two_inverses.p21 and compares
# the contents of their INVERSE attributes with the real referrers.
# exit 0 = inverse attributes are correct, non-zero = wrong.
if [ $# -ne 1 ] || [ ! -d "$1" ]; then echo "usage: $0 <build-dir>" >&2; exit 2; fi
B=$(cd "$1" && pwd)
HERE=$(cd "$(dirname "$0")" && pwd)
S=$(sed -n 's/^CMAKE_HOME_DIRECTORY:INTERNAL=//p' "$B/CMakeCache.txt")
if [ -z "$S" ] || [ ! -d "$S/include" ]; then echo "cannot find source dir from $B/CMakeCache.txt" >&2; exit 2; fi
W=$(mktemp -d /tmp/inv_demo.XXXXXX) || exit 2
trap 'rm -rf "$W"' EXIT
mkdir "$W/gen" && cd "$W/gen" || exit 2
LD_LIBRARY_PATH="$B/lib" "$B/bin/exp2cxx" "$HERE/two_inverses.exp" > "$W/exp2cxx.log" 2>&1 || { cat "$W/exp2cxx.log"; echo "exp2cxx failed" >&2; exit 2; }
cd "$W" || exit 2
INC="-I$S/include -I$B/include -I$S/src/cldai -I$S/src/cleditor -I$S/src/clutils -I$S/src/clstepcore -I$S/src/cllazyfile -I$S/src/cllazyfile/judy/src -I$W/gen"
${CXX:-c++} -std=c++11 -w $INC "$HERE/check.cc" gen/entity/*.cc gen/SdaiAll.cc gen/compstructs.cc gen/schema.cc \
    gen/SdaiINV_DEMO.cc gen/SdaiINV_DEMO.init.cc -o check \
    -Wl,-rpath,"$B/lib" -L"$B/lib" -lsteplazyfile -lstepeditor -lstepcore -lstepdai -lsteputils \
    > "$W/compile.log" 2>&1 || { cat "$W/compile.log"; echo "compiling the demo failed" >&2; exit 2; }

rc=0
expect() {  # expect <instance> <expected output>
    got=$(./check "$HERE/two_inverses.p21" "$1" 2>>/tmp/c11_stderr.log)
    if [ "$got" = "$2" ]; then
        echo "ok   #$1: $(echo "$got" | tr '\n' ';')"
    else
        echo "FAIL #$1: expected $(echo "$2" | tr '\n' ';') got $(echo "$got" | tr '\n' ';')"
        rc=1
    fi
}
expect 1 "used_by:
owned_by:"
expect 2 "used_by: 10
owned_by: 30"
expect_in() {  # expect_in <file> <instance> <expected output>
    got=$(./check "$HERE/$1" "$2" 2>>/tmp/c11_stderr.log)
    if [ "$got" = "$3" ]; then
        echo "ok   $1 #$2: $(echo "$got" | tr '\n' ';')"
    else
        echo "FAIL $1 #$2: expected $(echo "$3" | tr '\n' ';') got $(echo "$got" | tr '\n' ';')"
        rc=1
    fi
}
# several referrers of one aggregate inverse (before fix: only the last one was kept)
expect_in many_referrers.p21 2 "used_by: 10 11 12
owned_by: 30"
expect_in many_referrers.p21 1 "used_by: 12
owned_by:"
if [ $rc -eq 0 ]; then echo "PASS: inverse attributes hold exactly the real referrers"; else echo "BROKEN: an inverse attribute does not hold its real referrers"; fi
exit $rc

