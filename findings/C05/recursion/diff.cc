#include <sstream>
#include <iostream>
#include <cstdlib>
#include <cstdio>
#include "clstepcore/read_func.h"
#include "clutils/errordesc.h"
using namespace std;
#define STRING_DELIM '\''
void oldv( istream & in, std::string & s, ErrorDescriptor * err ) {
    char messageBuf[BUFSIZ+1]; messageBuf[0] = '\0';
    char c = 0; in >> ws; in.get( c );
    if( c == '(' ) {
        s += c; in.get( c );
        while( in.good() && ( c != ')' ) ) {
            if( c == '(' ) { in.putback( c ); oldv( in, s, err ); }
            else if( c == STRING_DELIM ) { in.putback( c ); PushPastString( in, s, err ); }
            else { s += c; }
            in.get( c );
        }
        if( c != ')' ) { err->GreaterSeverity( SEVERITY_INPUT_ERROR ); sprintf( messageBuf, "Invalid aggregate value.\n" ); err->AppendToDetailMsg( messageBuf ); s.append( ")" ); }
        else { s += c; }
    }
}
int main() {
    srand( 7 );
    const char alpha[] = "()()'a, #1.$";
    long n = 0, bad = 0;
    for( int it = 0; it < 300000; it++ ) {
        int len = rand() % 24;
        string t; if( rand() % 4 ) t = "(";
        for( int i = 0; i < len; i++ ) t += alpha[ rand() % ( sizeof alpha - 1 ) ];
        istringstream a( t ), b( t ); string sa, sb; ErrorDescriptor ea, eb;
        oldv( a, sa, &ea ); PushPastImbedAggr( b, sb, &eb );
        string ra, rb; getline( a, ra, '\0' ); getline( b, rb, '\0' );
        n++;
        if( sa != sb || ea.severity() != eb.severity() || ea.DetailMsg() != eb.DetailMsg() || ra != rb ) {
            if( bad++ < 5 ) cout << "DIFF on [" << t << "]: old [" << sa << "] new [" << sb << "] rest [" << ra << "]/[" << rb << "] msg [" << ea.DetailMsg() << "]/[" << eb.DetailMsg() << "]" << endl;
        }
    }
    cout << n << " inputs, " << bad << " differences" << endl;
    return bad != 0;
}
