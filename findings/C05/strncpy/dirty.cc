// Replay: dirty the stack, then read a file whose (user-defined) header keyword has 9000 characters.
// STEPfile::ReadHeader copies it with strncpy( buf, .., BUFSIZ ) into char buf[BUFSIZ+1] and prints buf:
// without a terminator the output continues with whatever the stack held.
#include <cstring>
#include <iostream>
#include <sstream>
#include "clstepcore/Registry.h"
#include "clstepcore/instmgr.h"
#include "cleditor/STEPfile.h"
#include "schema.h"
static void __attribute__((noinline)) dirty() { volatile char junk[200000]; memset( (void*)junk, 'Z', sizeof junk ); }
int main( int argc, char ** argv ) {
    Registry registry( SchemaInit );
    InstMgr im;
    STEPfile sf( registry, im, "", false );
    std::stringstream captured;
    std::streambuf * old = std::cerr.rdbuf( captured.rdbuf() );
    dirty();
    sf.ReadExchangeFile( argv[1] );
    std::cerr.rdbuf( old );
    std::string s = captured.str();
    size_t p = s.find( "data lost: !" );
    if( p == std::string::npos ) { std::cout << "no 'data lost' line" << std::endl; return 2; }
    size_t q = s.find( "('x')", p );
    size_t len = ( q == std::string::npos ? s.size() : q ) - ( p + 12 );
    std::cout << "characters printed for the 9000-character keyword: " << len << std::endl;
    if( len != 8192 ) { std::cout << "FAIL: the buffer was printed past its 8192 copied characters" << std::endl; return 1; }
    std::cout << "ok" << std::endl; return 0;
}
