#!/usr/bin/env python3
"""Replays of the C19 findings.  usage: python3 replay.py [<tree>]   (default /repo)"""
import sys
tree = sys.argv[1] if len(sys.argv) > 1 else "/repo"
sys.path.insert(0, tree + "/src/exp2python/python")
from stepcode.AggregationDataTypes import ARRAY, LIST, BAG, SET
from stepcode.SimpleDataTypes import REAL


def attempt(what, fn):
    try:
        fn()
        print("accepted :", what)
    except Exception as e:
        print("REFUSED  :", what, "->", type(e).__name__, str(e)[:60])


# fixed (7c0dbb3a): first element of an unbounded list
l = LIST(1, None, REAL)
attempt("LIST(1,None,REAL)[1] = 1.0      (EXPRESS: allowed)", lambda: l.__setitem__(1, REAL(1.0)))

# open: capacity is bound_2 - bound_1 + 1, EXPRESS says bound_2
b = BAG(2, 5, REAL)
for i in range(4):
    b.add(REAL(i))
attempt("5th element of BAG [2:5]        (EXPRESS: allowed)", lambda: b.add(REAL(9.0)))
s = SET(2, 5, REAL)
for i in range(4):
    s.add(REAL(i))
attempt("5th element of SET [2:5]        (EXPRESS: allowed)", lambda: s.add(REAL(9.0)))

# open: UNIQUE refuses to overwrite an element with the value it already holds
a = ARRAY(1, 4, REAL, UNIQUE=True)
a[3] = REAL(4.0)
attempt("a[3] = 4.0 again, UNIQUE ARRAY  (EXPRESS: allowed, still unique)", lambda: a.__setitem__(3, REAL(4.0)))

# open: a bounded LIST treats its bounds as an index range
l2 = LIST(0, 3, REAL)
attempt("LIST [0:3] element [0]          (EXPRESS: lists are indexed from 1)", lambda: l2.__setitem__(0, REAL(1.0)))
l3 = LIST(2, 3, REAL)
attempt("LIST [2:3] element [1]          (EXPRESS: first element of the list)", lambda: l3.__setitem__(1, REAL(1.0)))
