#!/usr/bin/env python3
"""usage: make_chain.py N > chain.stp   - a conforming ap203 population whose references form a chain of 3N instances
(REPRESENTATION -> MAPPED_ITEM -> REPRESENTATION_MAP -> next REPRESENTATION ...).  The eager reader reads it;
`lazy_sdai_ap203 chain.stp` dies with SIGSEGV for N = 3000 (recursion depth = length of the chain)."""
import sys
N = int(sys.argv[1]) if len(sys.argv) > 1 else 3000
out = ["ISO-10303-21;", "HEADER;", "FILE_DESCRIPTION(('chain'),'2;1');",
       "FILE_NAME('chain.stp','2024-01-01T00:00:00',('a'),('o'),'p','s','');", "FILE_SCHEMA(('CONFIG_CONTROL_DESIGN'));", "ENDSEC;", "DATA;",
       "#1=CARTESIAN_POINT('o',(0.,0.,0.));", "#2=REPRESENTATION_CONTEXT('c','t');"]
i = 10
for k in range(N):
    out.append("#%d=REPRESENTATION('r%d',(#%d),#2);" % (i, k, i + 1))
    out.append("#%d=MAPPED_ITEM('m',#%d,#1);" % (i + 1, i + 2))
    out.append("#%d=REPRESENTATION_MAP(#1,#%d);" % (i + 2, i + 3))
    i += 3
out.append("#%d=REPRESENTATION('last',(#1),#2);" % i)
out += ["ENDSEC;", "END-ISO-10303-21;"]
print("\n".join(out))
