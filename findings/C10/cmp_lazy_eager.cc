// Compares the lazy loader with the eager reader on one Part 21 file:
// every instance the eager reader (STEPfile) loads must be loadable through lazyInstMgr,
// in ascending and in descending id order, and must serialise identically.
#include "cllazyfile/lazyInstMgr.h"
#include "cleditor/STEPfile.h"
#include "clstepcore/sdai.h"
#include "clstepcore/instmgr.h"
#include "clstepcore/Registry.h"
#include "schema.h"

#include <iostream>
#include <map>
#include <sstream>
#include <string>
#include <vector>

typedef std::map< instanceID, std::string > textMap;

static std::string text( SDAI_Application_instance * inst ) {
    std::ostringstream os;
    inst->STEPwrite( os );
    // The comments that are written back are left out of the comparison: this demo is about the data.
    std::string s = os.str();
    size_t b;
    while( ( b = s.find( "/*" ) ) != std::string::npos ) {
        size_t e = s.find( "*/", b + 2 );
        if( e == std::string::npos ) {
            break;
        }
        e += 2;
        while( e < s.size() && ( s[e] == '\n' || s[e] == '\r' ) ) {
            e++;
        }
        s.erase( b, e - b );
    }
    return s;
}

static int compareOrder( const char * file, const textMap & eager, bool ascending ) {
    int bad = 0;
    lazyInstMgr mgr;
    mgr.initRegistry( SchemaInit );
    mgr.openFile( file );
    if( mgr.totalInstanceCount() != eager.size() ) {
        std::cout << "MISMATCH: lazy index has " << mgr.totalInstanceCount() << " instances, eager reader " << eager.size() << std::endl;
        return bad + 1; // nothing can be loaded from a section that was given up
    }
    std::vector< instanceID > order;
    for( textMap::const_iterator it = eager.begin(); it != eager.end(); ++it ) {
        order.push_back( it->first );
    }
    if( !ascending ) {
        order = std::vector< instanceID >( order.rbegin(), order.rend() );
    }
    for( size_t i = 0; i < order.size(); i++ ) {
        instanceID id = order[i];
        SDAI_Application_instance * inst = mgr.loadInstance( id );
        std::string lazyText = ( inst && !isNilSTEPentity( inst ) ) ? text( inst ) : std::string( "<not loaded>" );
        const std::string & eagerText = eager.find( id )->second;
        if( lazyText != eagerText ) {
            std::cout << "MISMATCH (" << ( ascending ? "ascending" : "descending" ) << " order) #" << id << std::endl
                      << "  eager: " << eagerText << std::endl << "  lazy:  " << lazyText << std::endl;
            bad++;
        }
    }
    return bad;
}

int main( int argc, char ** argv ) {
    if( argc != 2 ) {
        std::cerr << "usage: " << argv[0] << " file.stp" << std::endl;
        return 2;
    }
    textMap eager;
    {
        Registry registry( SchemaInit );
        InstMgr instances;
        STEPfile sfile( registry, instances, "", false );
        sfile.ReadExchangeFile( argv[1] );
        for( int i = 0; i < instances.InstanceCount(); i++ ) {
            SDAI_Application_instance * inst = instances.GetMgrNode( i )->GetApplication_instance();
            eager[ inst->StepFileId() ] = text( inst );
        }
    }
    std::cout << "eager reader loaded " << eager.size() << " instances" << std::endl;
    if( eager.empty() ) {
        return 2;
    }
    int bad = compareOrder( argv[1], eager, true ) + compareOrder( argv[1], eager, false );
    std::cout << ( bad ? "FAIL" : "PASS" ) << ": " << bad << " difference(s)" << std::endl;
    return bad ? 1 : 0;
}
