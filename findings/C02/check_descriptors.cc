#include "schema.h"
#include <iostream>
int main() {
    Registry reg( SchemaInit );
    const char * names[] = { "colour", "tint", "matrix", "pick", "picks", "reals", 0 };
    int bad = 0;
    for( int i = 0; names[i]; i++ ) {
        const TypeDescriptor * t = reg.FindType( names[i] );
        std::cout << names[i] << ": " << ( t ? "registered" : "NOT REGISTERED" );
        if( t ) {
            std::cout << " type=" << t->Type() << " referent=" << ( t->ReferentType() ? ( t->ReferentType()->Name() ? t->ReferentType()->Name() : "(unnamed)" ) : "(null)" );
        } else { bad++; }
        std::cout << std::endl;
    }
    const EntityDescriptor * b = reg.FindEntity( "b" );
    AttrDescItr it( b->ExplicitAttr() );
    const AttrDescriptor * ad;
    while( ( ad = it.NextAttrDesc() ) ) {
        std::cout << "b." << ad->Name() << " domain=" << ( ad->DomainType() ? ad->DomainType()->Name() : "(null)" ) << std::endl;
    }
    return bad;
}
