// Replay for C13: on an empty manager the first automatically assigned id was 0, the value Append() treats as
// "no id assigned".  Appending that same instance again then gave it a second id and a second node:
// count 2 for one live instance, and FindFileId(0) returned a node whose instance carries id 1.
#include <cstdio>
#include "clstepcore/instmgr.h"
#include "clstepcore/sdaiApplication_instance.h"

int main() {
    InstMgr im( 0 );
    SDAI_Application_instance * a = new SDAI_Application_instance();
    im.Append( a, completeSE );
    int id1 = a->StepFileId();
    im.Append( a, completeSE );          // same instance twice: must be a no-op
    int id2 = a->StepFileId();
    int bad = 0;
    printf( "first automatic id %d, id after second append %d, count %d\n", id1, id2, im.InstanceCount() );
    if( id1 == 0 ) { printf( "FAIL: automatic id equals the 'no id' value 0\n" ); bad = 1; }
    if( id2 != id1 ) { printf( "FAIL: appending the same instance twice changed its id\n" ); bad = 1; }
    if( im.InstanceCount() != 1 ) { printf( "FAIL: one live instance, count %d\n", im.InstanceCount() ); bad = 1; }
    MgrNode * n = im.FindFileId( id1 );
    if( !n || im.GetApplication_instance( n )->StepFileId() != id1 ) { printf( "FAIL: look-up of id %d does not return an instance carrying it\n", id1 ); bad = 1; }
    return bad;
}
