#!/bin/sh
# usage: run.sh <build-dir>      exit 0 = holds, 1 = broken
B=$(cd "$1" && pwd) || exit 2
HERE=$(cd "$(dirname "$0")" && pwd)
SRC=$(sed -n 's/^CMAKE_HOME_DIRECTORY:INTERNAL=//p' "$B/CMakeCache.txt")
OUT=$(mktemp -d) || exit 2
trap 'rm -rf "$OUT"' EXIT
c++ -std=c++11 -O0 -w -I"$B/include" -I"$SRC/include" -I"$SRC/include/stepcode" "$HERE/first_id_zero.cc" -o "$OUT/t" \
    -L"$B/lib" -lstepcore -lstepdai -lsteputils -Wl,-rpath,"$B/lib" || exit 2
"$OUT/t"
