"""Small abstract-interpretation kit over the scv CFG: forward solver + integer interval domain.

State = dict {var-id: (lo, hi)}; missing key = unknown (-inf, +inf).  Variables are local
integers (and pointer offsets managed by the client).  Branch conditions refine on CFG edges
(clang splits && / || into separate blocks, so terminator conditions are mostly atomic).
"""
import math
from collections import deque

from ir import walk, strip, kids

INF = math.inf
TOP = (-INF, INF)


def join_iv(a, b):
    return (min(a[0], b[0]), max(a[1], b[1]))


def meet_iv(a, b):
    lo, hi = max(a[0], b[0]), min(a[1], b[1])
    return (lo, hi)


def is_empty(iv):
    return iv[0] > iv[1]


def add_iv(a, b):
    return (a[0] + b[0], a[1] + b[1])


def neg_iv(a):
    return (-a[1], -a[0])


def mul_iv(a, b):
    c = []
    for x in a:
        for y in b:
            if (x in (INF, -INF) and y == 0) or (y in (INF, -INF) and x == 0):
                c.append(0)
            else:
                c.append(x * y)
    return (min(c), max(c))


class State(dict):
    def get_iv(self, v):
        return self.get(v, TOP)

    def copy(self):
        s = State(self)
        return s


def join_state(a, b):
    if a is None:
        return b.copy() if b is not None else None
    if b is None:
        return a.copy()
    out = State()
    for k in a:
        if k in b:
            iv = join_iv(a[k], b[k])
            if iv != TOP:
                out[k] = iv
    return out


def widen_state(old, new, thresholds=()):
    """widening with thresholds: an unstable bound jumps to the next constant of the function"""
    out = State()
    for k in new:
        if k in old:
            lo, hi = old[k]
            if new[k][0] < old[k][0]:
                lo = -INF
                for t in reversed(thresholds):
                    if t <= new[k][0]:
                        lo = t
                        break
            if new[k][1] > old[k][1]:
                hi = INF
                for t in thresholds:
                    if t >= new[k][1]:
                        hi = t
                        break
            if (lo, hi) != TOP:
                out[k] = (lo, hi)
    return out


class Intervals:
    """Interval analysis of the tracked integer locals of one function."""

    def __init__(self, fn, tracked=None, extra_eval=None, havoc_calls=True):
        self.fn = fn
        self.cfg = fn.cfg
        self.extra_eval = extra_eval
        self.tracked = tracked
        self.elem_ids = set(self.cfg.pos.keys())
        self.before = {}     # (block, idx) -> state before element
        self.block_in = {}
        self.block_out = {}
        self.edge_state = {}
        self.addr_taken = set()
        for n in fn.walk():
            if n["k"] == "Unary" and n["op"] == "&":
                t = strip(n["ch"][0])
                if t["k"] == "Ref":
                    self.addr_taken.add(t["d"])
        self.byref = self._byref_vars()
        th = set([0, 1, -1])
        for n in fn.walk():
            v = n.get("val")
            if isinstance(v, int) and -(2 ** 31) < v < 2 ** 31:
                th.update((v - 1, v, v + 1))
            t = n.get("t")
            if isinstance(t, int):
                from ir import array_len
                al = array_len(fn.tyname(t))
                if al:
                    th.update((al - 1, al, al + 1))
        self.thresholds = sorted(th)

    def _byref_vars(self):
        """locals passed to a non-const reference parameter (may be modified by the callee)"""
        out = {}
        for n in self.fn.walk():
            if n["k"] == "Call" and n.get("fk"):
                ptypes = param_types(n["fk"])
                args = n["ch"][1:] if (n.get("member") and not n.get("opcall")) else n["ch"]
                if n.get("opcall") and n.get("member"):
                    args = n["ch"][1:]
                for a, t in zip(args, ptypes):
                    if t.endswith("&") and not t.startswith("const "):
                        s = strip(a)
                        if s is not None and s["k"] == "Ref":
                            out.setdefault(s["d"], []).append(n["i"])
        return out

    def is_tracked(self, ref):
        if ref["k"] != "Ref" or ref.get("dk") not in ("local", "param"):
            return False
        if self.tracked is not None:
            return ref["d"] in self.tracked
        t = self.fn.ty(ref)
        return t in ("int", "unsigned int", "long", "unsigned long", "short", "unsigned short", "size_t", "char",
                     "unsigned char", "long long", "unsigned long long")

    # ---- expression evaluation ----------------------------------------------
    def eval(self, n, st):
        if n is not None and "val" in n and n["k"] in ("Cast", "Binary", "Unary", "SizeOf", "Cond"):
            return (n["val"], n["val"])      # folded by clang's constant evaluator
        n = strip(n)
        if n is None:
            return TOP
        if self.extra_eval:
            r = self.extra_eval(n, st, self)
            if r is not None:
                return r
        k = n["k"]
        if "val" in n and k in ("Int", "Char", "Bool", "SizeOf"):
            return (n["val"], n["val"])
        if k == "Ref":
            if n.get("dk") == "enum" and "val" in n:
                return (n["val"], n["val"])
            if self.is_tracked(n):
                return st.get_iv(n["d"])
            if "val" in n:
                return (n["val"], n["val"])
            return TOP
        if "val" in n and k not in ("Case",):
            return (n["val"], n["val"])
        ch = n.get("ch") or []
        if k == "Binary":
            op = n["op"]
            if op in ("+", "-", "*"):
                a, b = self.eval(ch[0], st), self.eval(ch[1], st)
                if op == "+":
                    return add_iv(a, b)
                if op == "-":
                    return add_iv(a, neg_iv(b))
                return mul_iv(a, b)
            if op == "%":
                b = self.eval(ch[1], st)
                a = self.eval(ch[0], st)
                if b[0] == b[1] and b[0] > 0 and a[0] >= 0:
                    return (0, b[0] - 1)
                return TOP
            if op == "/":
                a, b = self.eval(ch[0], st), self.eval(ch[1], st)
                if b[0] == b[1] and b[0] > 0 and a[0] >= 0:
                    return (a[0] // b[0] if a[0] != INF else INF, a[1] // b[0] if a[1] != INF else INF)
                return TOP
            if op == "&":
                b = self.eval(ch[1], st)
                if b[0] == b[1] and b[0] >= 0:
                    return (0, b[0])
                a = self.eval(ch[0], st)
                if a[0] == a[1] and a[0] >= 0:
                    return (0, a[0])
                return TOP
            if op in ("<", "<=", ">", ">=", "==", "!=", "&&", "||"):
                return (0, 1)
            if op == ",":
                return self.eval(ch[1], st)
            return TOP
        if k == "Unary":
            op = n["op"]
            if op == "-":
                return neg_iv(self.eval(ch[0], st))
            if op == "+":
                return self.eval(ch[0], st)
            if op == "!":
                return (0, 1)
            if op in ("post++", "post--"):
                return self.eval(ch[0], st)
            if op == "pre++":
                return add_iv(self.eval(ch[0], st), (1, 1))
            if op == "pre--":
                return add_iv(self.eval(ch[0], st), (-1, -1))
            return TOP
        if k == "Cond":
            return join_iv(self.eval(ch[1], st), self.eval(ch[2], st))
        if k == "Assign":
            return self.eval(ch[1], st)
        if k == "Call":
            fn = n.get("fn") or ""
            if fn == "strlen":
                return (0, INF)
            return TOP
        return TOP

    # ---- transfer ------------------------------------------------------------
    def assign(self, st, d, iv):
        if iv == TOP:
            st.pop(d, None)
        else:
            st[d] = iv

    def effects(self, node, st, top_elem=True):
        """apply the side effects of `node` (an element) to st, skipping nested elements already processed"""
        stack = [(node, True)]
        # post-order: children first (operands before operator)
        order = []
        st2 = [node]
        visited = []
        while st2:
            x = st2.pop()
            if x is None:
                continue
            visited.append(x)
            for c in kids(x):
                if c is not None and not (c["i"] in self.elem_ids and c is not node):
                    st2.append(c)
        for x in reversed(visited):
            k = x["k"]
            if k == "Var":
                if x.get("ch") and x["ch"][0] is not None:
                    self.assign(st, x["d"], self.eval(x["ch"][0], st) if self._var_tracked(x) else TOP)
                else:
                    st.pop(x["d"], None)
            elif k == "Assign":
                lhs = strip(x["ch"][0])
                if lhs is not None and lhs["k"] == "Ref" and self.is_tracked(lhs):
                    self.assign(st, lhs["d"], self.eval(x["ch"][1], st))
            elif k == "CompoundAssign":
                lhs = strip(x["ch"][0])
                if lhs is not None and lhs["k"] == "Ref" and self.is_tracked(lhs):
                    cur = st.get_iv(lhs["d"])
                    r = self.eval(x["ch"][1], st)
                    op = x["op"]
                    if op == "+=":
                        self.assign(st, lhs["d"], add_iv(cur, r))
                    elif op == "-=":
                        self.assign(st, lhs["d"], add_iv(cur, neg_iv(r)))
                    else:
                        st.pop(lhs["d"], None)
            elif k == "Unary" and x["op"] in ("post++", "pre++", "post--", "pre--"):
                t = strip(x["ch"][0])
                if t is not None and t["k"] == "Ref" and self.is_tracked(t):
                    d = 1 if "++" in x["op"] else -1
                    self.assign(st, t["d"], add_iv(st.get_iv(t["d"]), (d, d)))
            elif k == "Call":
                # by-reference / address-taken arguments are havocked
                for a in x.get("ch") or []:
                    s = strip(a)
                    if s is None:
                        continue
                    if s["k"] == "Unary" and s["op"] == "&":
                        t = strip(s["ch"][0])
                        if t is not None and t["k"] == "Ref":
                            st.pop(t["d"], None)
                    if s["k"] == "Ref" and s["d"] in self.byref and x["i"] in self.byref[s["d"]]:
                        st.pop(s["d"], None)
                if x.get("opcall") == ">>" and len(x["ch"]) == 2:
                    t = strip(x["ch"][1])
                    if t is not None and t["k"] == "Ref":
                        st.pop(t["d"], None)
        return st

    def _var_tracked(self, v):
        t = self.fn.tyname(v.get("t"))
        if self.tracked is not None:
            return v["d"] in self.tracked
        return t in ("int", "unsigned int", "long", "unsigned long", "short", "unsigned short", "size_t", "char",
                     "unsigned char", "long long", "unsigned long long")

    # ---- refinement -----------------------------------------------------------
    def refine(self, cond, truth, st):
        """-> refined state or None if the branch is infeasible"""
        c = strip(cond)
        if c is None:
            return st
        k = c["k"]
        if k == "Unary" and c["op"] == "!":
            return self.refine(c["ch"][0], not truth, st)
        if k == "Binary" and c["op"] in ("<", "<=", ">", ">=", "==", "!="):
            op = c["op"]
            l, r = strip(c["ch"][0]), strip(c["ch"][1])
            if not truth:
                op = {"<": ">=", "<=": ">", ">": "<=", ">=": "<", "==": "!=", "!=": "=="}[op]
            st = st.copy()
            for (a, b, o) in ((l, r, op), (r, l, {"<": ">", "<=": ">=", ">": "<", ">=": "<=", "==": "==", "!=": "!="}[op])):
                # a o b, refine a if it is a tracked var (looking through pre/post inc is not attempted)
                if a is not None and a["k"] == "Ref" and self.is_tracked(a):
                    biv = self.eval(b, st)
                    cur = st.get_iv(a["d"])
                    if o == "<":
                        cur = meet_iv(cur, (-INF, biv[1] - 1))
                    elif o == "<=":
                        cur = meet_iv(cur, (-INF, biv[1]))
                    elif o == ">":
                        cur = meet_iv(cur, (biv[0] + 1, INF))
                    elif o == ">=":
                        cur = meet_iv(cur, (biv[0], INF))
                    elif o == "==":
                        cur = meet_iv(cur, biv)
                    elif o == "!=":
                        if biv[0] == biv[1]:
                            if cur[0] == biv[0]:
                                cur = (cur[0] + 1, cur[1])
                            elif cur[1] == biv[0]:
                                cur = (cur[0], cur[1] - 1)
                    if is_empty(cur):
                        return None
                    self.assign(st, a["d"], cur)
            return st
        if k == "Binary" and c["op"] == "&&" and truth:
            s1 = self.refine(c["ch"][0], True, st)
            return None if s1 is None else self.refine(c["ch"][1], True, s1)
        if k == "Binary" and c["op"] == "||" and not truth:
            s1 = self.refine(c["ch"][0], False, st)
            return None if s1 is None else self.refine(c["ch"][1], False, s1)
        if k == "Ref" and self.is_tracked(c):
            st = st.copy()
            cur = st.get_iv(c["d"])
            if not truth:
                cur = meet_iv(cur, (0, 0))
                if is_empty(cur):
                    return None
                self.assign(st, c["d"], cur)
            return st
        return st

    # ---- solver -----------------------------------------------------------------
    def solve(self, init=None, max_iter=40):
        cfg = self.cfg
        entry = cfg.entry
        block_in = {entry: init.copy() if init is not None else State()}
        visits = {}
        wl = deque([entry])
        inq = {entry}
        steps = 0
        while wl:
            b = wl.popleft()
            inq.discard(b)
            steps += 1
            if steps > 20000:
                break
            st = block_in[b].copy()
            blk = cfg.blocks[b]
            for i, e in enumerate(blk["e"]):
                self.before[(b, i)] = st.copy()
                st = self.effects(self.fn.nodes[e], st)
            self.block_out[b] = st
            succs = blk["s"]
            if blk.get("noreturn"):
                succs = []
            tc = blk.get("tc")
            cond = self.fn.nodes.get(tc) if tc is not None and tc >= 0 else None
            two = len(succs) == 2 and cond is not None and blk.get("tkind") not in ("SwitchStmt",)
            for si, s in enumerate(succs):
                if s < 0:
                    continue
                out = st
                if two:
                    out = self.refine(cond, si == 0, st)
                    if out is None:
                        continue
                self.edge_state[(b, s)] = out
                old = block_in.get(s)
                if old is None:
                    new = out.copy()
                else:
                    new = join_state(old, out)
                    visits[s] = visits.get(s, 0) + 1
                    if visits[s] > 3:
                        new = widen_state(old, new, self.thresholds if visits[s] < 40 else ())
                if old is None or new != old:
                    block_in[s] = new
                    if s not in inq:
                        wl.append(s)
                        inq.add(s)
        # narrowing: two descending passes without widening
        for _ in range(2):
            for b in sorted(block_in, reverse=True):
                preds = [p for p in cfg.pred[b] if (p, b) in self.edge_state]
                if b != entry and preds:
                    new = None
                    for p in preds:
                        new = join_state(new, self.edge_state[(p, b)])
                    block_in[b] = new
                st = block_in[b].copy()
                blk = cfg.blocks[b]
                for i, e in enumerate(blk["e"]):
                    self.before[(b, i)] = st.copy()
                    st = self.effects(self.fn.nodes[e], st)
                self.block_out[b] = st
                succs = [] if blk.get("noreturn") else blk["s"]
                tc = blk.get("tc")
                cond = self.fn.nodes.get(tc) if tc is not None and tc >= 0 else None
                two = len(succs) == 2 and cond is not None and blk.get("tkind") not in ("SwitchStmt",)
                for si, s in enumerate(succs):
                    if s < 0:
                        continue
                    out = st
                    if two:
                        out = self.refine(cond, si == 0, st)
                        if out is None:
                            self.edge_state.pop((b, s), None)
                            continue
                    self.edge_state[(b, s)] = out
        self.block_in = block_in
        return self

    def state_at(self, node):
        """abstract state just before the CFG element containing `node` is evaluated;
        None if the element is unreachable"""
        pos = self.cfg.locate(node)
        if pos is None:
            return None
        return self.before.get(pos)


def param_types(fk):
    """parameter type strings from a function key  name(T1,T2,...)[const]"""
    i = fk.find("(")
    if i < 0:
        return []
    depth = 0
    cur = ""
    out = []
    for ch in fk[i + 1:]:
        if ch in "(<[":
            depth += 1
        if ch in ")>]":
            if depth == 0 and ch == ")":
                if cur.strip():
                    out.append(cur.strip())
                break
            depth -= 1
        if ch == "," and depth == 0:
            out.append(cur.strip())
            cur = ""
        else:
            cur += ch
    return out
