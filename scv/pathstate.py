"""Path-sensitive walk over the clang CFG with a small environment of flag variables.

The environment maps integral locals / parameters to a constant, to "NZ" (some non-zero value) or leaves them unknown.
Conditions are evaluated three-valued; a two-way branch on a *simple* test of an unknown flag (`x`, `!x`, `x == k`,
`x != k`) forks the walk and records the value the edge implies, so that correlated tests (`if( assignVal ) AddNode( item )`
... `if( free_item ) delete item`, with `free_item` only set where `!assignVal`) are followed consistently.
On top of the environment the client keeps its own hashable typestate, updated by a callback on every AST node of every
CFG element in evaluation order.

    walk(f, init_ts, on_node)        on_node(node, ts, env) -> new ts   (may call report through a closure)
                                     on_edge(cond, branch, ts, env) -> new ts, called for each edge of a two-way branch that is taken

The number of distinct (block, environment, typestate) triples is bounded by max_states; exceeding it raises Budget so
that the caller can report `analysis incomplete` instead of a verdict.
"""
from ir import strip
from engines import peval

NZ = "NZ"


class Budget(Exception):
    pass


def _flag_ref(n, tracked):
    n = strip(n)
    if n is not None and n["k"] == "Ref" and n.get("d") in tracked:
        return n["d"]
    # an integral member of *this (tracked under its qualified name)
    if n is not None and n["k"] == "Member" and n.get("q") in tracked and n.get("ch") and strip(n["ch"][0]) is not None and \
            strip(n["ch"][0])["k"] in ("This", "Cast"):
        b = strip(n["ch"][0])
        while b is not None and b["k"] == "Cast" and b.get("ch"):
            b = strip(b["ch"][0])
        if b is not None and b["k"] == "This":
            return n["q"]
    return None


def _k(n):
    n = strip(n)
    if n is None:
        return None
    if "val" in n and n["k"] in ("Int", "Bool", "Char", "Ref", "Cast", "Null0"):
        return n["val"]
    if n["k"] == "Null0":
        return 0
    return None


def truth(n, env, tracked):
    """three-valued truth of n under env"""
    if n is None:
        return None
    k = n["k"]
    if k in ("Cast", "DefaultArg", "DefaultInit") and n.get("ch"):
        return truth(n["ch"][0], env, tracked)
    d = _flag_ref(n, tracked)
    if d is not None:
        v = env.get(d)
        if v is None:
            return None
        return v == NZ or bool(v)
    c = _k(n)
    if c is not None:
        return bool(c)
    ch = n.get("ch") or []
    if k == "Unary" and n.get("op") == "!":
        v = truth(ch[0], env, tracked)
        return None if v is None else (not v)
    if k == "Binary":
        op = n.get("op")
        if op in ("==", "!="):
            for a, b in ((ch[0], ch[1]), (ch[1], ch[0])):
                d = _flag_ref(a, tracked)
                kb = _k(b)
                if d is not None and kb is not None:
                    v = env.get(d)
                    if v is None:
                        return None
                    if v == NZ:
                        if kb == 0:
                            return op == "!="
                        return None
                    return (v == kb) if op == "==" else (v != kb)
            return None
        if op == "&&":
            a, b = truth(ch[0], env, tracked), truth(ch[1], env, tracked)
            if a is False or b is False:
                return False
            return True if (a and b) else None
        if op == "||":
            a, b = truth(ch[0], env, tracked), truth(ch[1], env, tracked)
            if a is True or b is True:
                return True
            return False if (a is False and b is False) else None
    return None


def implied(n, branch, tracked):
    """(decl, value) implied for an unknown flag when the simple test n takes `branch`"""
    if n is None:
        return None
    if n["k"] in ("Cast", "DefaultArg", "DefaultInit") and n.get("ch"):
        return implied(n["ch"][0], branch, tracked)
    d = _flag_ref(n, tracked)
    if d is not None:
        return (d, NZ if branch else 0)
    ch = n.get("ch") or []
    if n["k"] == "Unary" and n.get("op") == "!":
        return implied(ch[0], not branch, tracked)
    if n["k"] == "Binary" and n.get("op") in ("==", "!="):
        eq = (n["op"] == "==") == branch
        for a, b in ((ch[0], ch[1]), (ch[1], ch[0])):
            d = _flag_ref(a, tracked)
            kb = _k(b)
            if d is not None and kb is not None:
                if eq:
                    return (d, kb)
                return (d, NZ) if kb == 0 else None
    return None


def flags_of(f):
    """integral locals / parameters that occur in a simple test and whose address is never taken"""
    cands = set()
    bad = set()
    for n in f.walk():
        if n["k"] == "Ref" and n.get("dk") in ("local", "param"):
            t = f.ty(n)
            if "*" in t or "[" in t or "&" in t or "class " in t or "struct " in t or "std::" in t:
                continue
            cands.add(n["d"])
        if n["k"] == "Unary" and n.get("op") == "&" and n.get("ch"):
            x = strip(n["ch"][0])
            if x is not None and x["k"] == "Ref":
                bad.add(x.get("d"))
    # integral members of *this that this function assigns a constant to and tests
    for n in f.walk():
        if n["k"] == "Assign" and n.get("op", "=") == "=":
            l = strip(n["ch"][0])
            if l is not None and l["k"] == "Member" and l.get("q") and l.get("ch") and strip(l["ch"][0]) is not None and strip(l["ch"][0])["k"] == "This" and \
                    _k(n["ch"][1]) is not None:
                t = f.ty(l)
                if "*" not in t and "class " not in t and "struct " not in t and "std::" not in t:
                    cands.add(l["q"])
    return cands - bad


def _post(n, out):
    if n is None:
        return
    for c in n.get("ch") or []:
        _post(c, out)
    out.append(n)


def apply_env(f, node, env, tracked):
    """effect of one AST node on the flag environment (in place)"""
    k = node["k"]
    if k == "Assign" and node.get("op", "=") == "=":
        d = _flag_ref(node["ch"][0], tracked)
        if d is not None:
            v = _k(node["ch"][1])
            if v is None:
                t = truth(node["ch"][1], env, tracked)
                v = None if t is None else (1 if t else 0)
            if v is None:
                env.pop(d, None)
            else:
                env[d] = v
    elif k in ("CompoundAssign",) or (k == "Unary" and ("++" in (node.get("op") or "") or "--" in (node.get("op") or ""))):
        d = _flag_ref(node["ch"][0], tracked)
        if d is not None:
            env.pop(d, None)
    elif k == "Call" and node.get("member") and node.get("ch") and not (node.get("fk") or "").endswith("const"):
        r = strip(node["ch"][0])
        while r is not None and r["k"] == "Cast" and r.get("ch"):
            r = strip(r["ch"][0])
        if r is not None and r["k"] == "This":
            for q in [q for q in env if isinstance(q, str) and "::" in q and not q.startswith("L")]:
                env.pop(q, None)
    elif k == "Var" and node.get("d") in tracked:
        if node.get("ch") and node["ch"][0] is not None:
            v = _k(node["ch"][0])
            if v is None:
                env.pop(node["d"], None)
            else:
                env[node["d"]] = v
        else:
            env.pop(node["d"], None)


def walk(f, init_ts, on_node, max_states=40000, tracked=None, on_edge=None):
    cfg = f.cfg
    tracked = flags_of(f) if tracked is None else tracked
    seen = set()
    work = [(cfg.entry, (), init_ts)]
    n_states = 0
    while work:
        b, envt, ts = work.pop()
        key = (b, envt, ts)
        if key in seen:
            continue
        seen.add(key)
        n_states += 1
        if n_states > max_states:
            raise Budget("more than %d path states in %s" % (max_states, f.name))
        env = dict(envt)
        blk = cfg.blocks[b]
        done = set()
        for e in blk["e"]:
            nodes = []
            _post(f.nodes.get(e), nodes)
            for nd in nodes:
                if nd["i"] in done:
                    continue
                done.add(nd["i"])
                apply_env(f, nd, env, tracked)
                ts = on_node(nd, ts, env)
        succ = list(cfg.succ[b])
        raw = blk["s"]
        tc = blk.get("tc")
        if tc is not None and len(raw) == 2 and blk.get("tkind") != "SwitchStmt" and raw[0] != raw[1]:
            cn = f.nodes.get(tc)
            v = truth(cn, env, tracked)
            for s in succ:
                br = (s == raw[0])
                if v is not None and v != br:
                    continue
                e2 = dict(env)
                if v is None:
                    im = implied(cn, br, tracked)
                    if im is not None and im[0] not in e2:
                        e2[im[0]] = im[1]
                ts2 = on_edge(cn, br, ts, e2) if on_edge is not None else ts
                work.append((s, tuple(sorted(e2.items(), key=lambda kv: kv[0])), ts2))
        else:
            for s in succ:
                work.append((s, tuple(sorted(env.items(), key=lambda kv: kv[0])), ts))
    return n_states
