#!/usr/bin/env python3
"""scv driver:  python3 scv/run.py <PROPERTY> [--tier quick|thorough] [--explain FILE]

exit 0  every obligation discharged (open known findings printed as KNOWN-FINDING)
exit 1  at least one undischarged obligation not in known_findings.json (VIOLATION line)
exit 2  analysis broken (anchor vanished, floor not met, unit failed to parse, self-test failed)
"""
import argparse
import importlib
import json
import os
import sys
import time
import traceback

HERE = os.path.dirname(os.path.abspath(__file__))
sys.path.insert(0, HERE)

import facts  # noqa: E402
import ir  # noqa: E402
import report  # noqa: E402

TRUSTED = ["clang 14 front end, constant evaluator and clang::CFG construction",
           "compile database from `ninja -t compdb` (or the frozen flag table) reflects the build",
           "instance tables / exception lists in scv/rules/*.py (each entry carries its reason)",
           "C and C++ standard library calls meet their specification"]


def main():
    ap = argparse.ArgumentParser()
    ap.add_argument("pid")
    ap.add_argument("--tier", default=os.environ.get("VERIF_TIER", "quick"))
    ap.add_argument("--explain")
    ap.add_argument("--no-cache", action="store_true")
    a = ap.parse_args()
    pid = a.pid.upper()
    tier = a.tier if a.tier in ("quick", "thorough") else "quick"
    try:
        seed = int(os.environ.get("VERIF_SEED", "0"))
    except ValueError:
        seed = 0
    t0 = time.time()
    res = report.Result(pid)
    units_info = {}
    mod = None
    try:
        mod = importlib.import_module("rules." + pid.lower())
    except ImportError as e:
        print("no rule module for %s: %s" % (pid, e))
        return 2
    try:
        if hasattr(mod, "selftest"):
            mod.selftest(res)
        units, route = facts.compile_db()
        sel = mod.UNITS
        chosen = facts.select(units, sel.get("components"), sel.get("files"))
        if tier == "thorough" and getattr(mod, "THOROUGH_ALL_UNITS", True):
            pass
        use_cache = (tier == "quick") and not a.no_cache
        variants = [("-UNDEBUG",)]
        if tier == "thorough" and getattr(mod, "NDEBUG_VARIANT", True):
            variants.append(("-DNDEBUG",))
        nfun = 0
        for vi, extra in enumerate(variants):
            fl = facts.extract(chosen, extra_flags=extra, use_cache=use_cache)
            prog = ir.Program(fl)
            nfun = max(nfun, len(prog.functions))
            if vi == 0:
                mod.run(prog, res, tier)
            else:
                # second preprocessor variant: same rules; obligations are merged by key
                r2 = report.Result(pid)
                mod.run(prog, r2, tier)
                res.obs.extend(r2.obs)
                res.broken.extend("[NDEBUG variant] " + b for b in r2.broken)
            units_info = {"route": route, "count": len(chosen), "variants": [" ".join(v) for v in variants],
                          "cached": sum(1 for f in fl if f.get("_cached")),
                          "functions": nfun,
                          "cfg_blocks": sum(len(f.raw.get("cfg", {}).get("blocks", [])) for f in prog.all_functions()),
                          "files": [u["file"].replace(facts.REPO + "/", "") for u in chosen][:400]}
        if hasattr(mod, "post"):
            mod.post(res, tier)
    except facts.AnalysisBroken as e:
        res.broke(str(e))
    except Exception:
        res.broke("internal error: " + traceback.format_exc()[-1500:])
    if a.explain:
        try:
            want = json.load(open(a.explain))
        except Exception as e:
            print("cannot read %s: %s" % (a.explain, e))
            return 2
        hit = [o for o in res.obs if o.key == want.get("key") and o.rule == want.get("rule")]
        if not hit:
            print("obligation %s no longer exists on the current tree" % want.get("key"))
            return 0
        for o in hit:
            print("%s\n  rule : %s\n  site : %s\n  state: %s\n  why  : %s\n  facts: %s" %
                  (o.where, o.rule, o.key, "discharged" if o.ok else "UNDISCHARGED", o.msg,
                   json.dumps(o.facts, indent=1)))
        return 0 if all(o.ok for o in hit) else 1
    cmd = "python3 scv/run.py %s --tier %s" % (pid, tier)
    return report.finish(res, tier, seed, t0, getattr(mod, "EXPLANATION", ""),
                         getattr(mod, "ASSUMPTIONS", TRUSTED), cmd, TRUSTED, units_info)


if __name__ == "__main__":
    sys.exit(main())
