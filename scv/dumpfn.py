#!/usr/bin/env python3
"""Debug helper: print the IR of one function.  usage: dumpfn.py <components,comma> <function name> [file suffix]"""
import sys, json
sys.path.insert(0, __file__.rsplit("/", 1)[0])
import facts, ir


def show(n, ind=0, out=None):
    if n is None:
        print(" " * ind + "-")
        return
    keys = {k: v for k, v in n.items() if k not in ("ch", "ty", "loc", "id")}
    k = keys.pop("k")
    print(" " * ind + k + " " + " ".join("%s=%r" % kv for kv in keys.items()))
    for c in n.get("ch") or []:
        show(c, ind + 2)


if __name__ == "__main__":
    comps = set(sys.argv[1].split(","))
    units, route = facts.compile_db()
    fl = facts.extract(facts.select(units, comps, None))
    prog = ir.Program(fl)
    for f in prog.fn(sys.argv[2], sys.argv[3] if len(sys.argv) > 3 else None) or []:
        print("##", f.name, f.where())
        show(f.raw["body"] if "body" in f.raw else f.raw)
