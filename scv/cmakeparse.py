"""Minimal CMake command parser (commands, arguments, quoting, comments, ${} references).

Used on the repository's own .cmake files and on the *template* of the CMakeLists.txt the schema scanner writes
(holes of the template are written «like this» and are opaque to the tokenizer)."""
import re


class Cmd:
    def __init__(self, name, args, line):
        self.name = name.lower()
        self.args = args
        self.line = line

    def __repr__(self):
        return "%s(%s)@%d" % (self.name, " ".join(self.args), self.line)


def parse(text):
    """-> list of Cmd.  Arguments keep their ${} references; quotes are removed (a quoted argument is one argument)."""
    cmds = []
    i, n, line = 0, len(text), 1
    ident = re.compile(r"[A-Za-z_][A-Za-z0-9_]*")
    while i < n:
        c = text[i]
        if c == "\n":
            line += 1
            i += 1
            continue
        if c.isspace():
            i += 1
            continue
        if c == "#":
            while i < n and text[i] != "\n":
                i += 1
            continue
        m = ident.match(text, i)
        if not m:
            # stray text (e.g. a hole at command position): skip to end of line
            while i < n and text[i] != "\n":
                i += 1
            continue
        name = m.group(0)
        j = m.end()
        while j < n and text[j] in " \t":
            j += 1
        if j >= n or text[j] != "(":
            i = m.end()
            continue
        start_line = line
        j += 1
        args = []
        cur = None
        depth = 1
        while j < n and depth > 0:
            ch = text[j]
            if ch == "\n":
                line += 1
            if ch == "«":
                k = text.find("»", j)
                k = n - 1 if k < 0 else k
                cur = (cur or "") + text[j:k + 1]
                j = k + 1
                continue
            if ch == "\\" and j + 1 < n:
                cur = (cur or "") + text[j:j + 2]
                j += 2
                continue
            if ch == '"':
                k = j + 1
                buf = ""
                while k < n and text[k] != '"':
                    if text[k] == "\\" and k + 1 < n:
                        buf += text[k:k + 2]
                        k += 2
                        continue
                    if text[k] == "\n":
                        line += 1
                    buf += text[k]
                    k += 1
                cur = (cur or "") + buf
                j = k + 1
                continue
            if ch == "#":
                while j < n and text[j] != "\n":
                    j += 1
                continue
            if ch == "(":
                depth += 1
                if cur is not None:
                    args.append(cur)
                    cur = None
                args.append("(")
                j += 1
                continue
            if ch == ")":
                depth -= 1
                if cur is not None:
                    args.append(cur)
                    cur = None
                if depth > 0:
                    args.append(")")
                j += 1
                continue
            if ch.isspace() or ch == ";":
                if cur is not None:
                    args.append(cur)
                    cur = None
                j += 1
                continue
            cur = (cur or "") + ch
            j += 1
        cmds.append(Cmd(name, args, start_line))
        i = j
    return cmds


def macros(cmds):
    """name -> (params, body commands) for macro()/function() definitions."""
    out = {}
    i = 0
    while i < len(cmds):
        c = cmds[i]
        if c.name in ("macro", "function") and c.args:
            end = "end" + c.name
            body = []
            j = i + 1
            while j < len(cmds) and cmds[j].name != end:
                body.append(cmds[j])
                j += 1
            out[c.args[0]] = (c.args[1:], body)
            i = j + 1
            continue
        i += 1
    return out


def keyword_args(cmd, keywords):
    """Split the arguments of a command at the given keywords: {keyword or '': [args]}"""
    out = {"": []}
    cur = ""
    for a in cmd.args:
        if a in keywords:
            cur = a
            out.setdefault(cur, [])
        else:
            out[cur].append(a)
    return out
