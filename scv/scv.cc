// scv — stepcode verification fact extractor (libTooling, clang 14).
//
// Parses ONE translation unit with the real build's flags and writes a JSON
// "resolved IR" of everything defined in first-party files:
//   functions : qualified name + signature, params, simplified AST body with
//               resolved callees / decl kinds / constant values / macro names,
//               and the clang::CFG (blocks, successors, terminators, labels)
//   records   : bases, fields, methods (virtual, overrides)
//   enums     : enumerators with values
//   globals   : file-scope variables with initialiser trees (semantic init lists)
//   diags     : compiler diagnostics produced while parsing
// The rules themselves live in Python (scv/rules/*.py) and run over this IR.
//
// usage: scv --out FILE [--root PREFIX]... SOURCE -- <compiler flags>

#include "clang/AST/ASTConsumer.h"
#include "clang/AST/ASTContext.h"
#include "clang/AST/DeclCXX.h"
#include "clang/AST/ExprCXX.h"
#include "clang/AST/ParentMapContext.h"
#include "clang/AST/RecursiveASTVisitor.h"
#include "clang/Analysis/CFG.h"
#include "clang/Basic/SourceManager.h"
#include "clang/Frontend/CompilerInstance.h"
#include "clang/Frontend/FrontendAction.h"
#include "clang/Frontend/TextDiagnosticBuffer.h"
#include "clang/Lex/Lexer.h"
#include "clang/Tooling/CompilationDatabase.h"
#include "clang/Tooling/Tooling.h"
#include "llvm/Support/JSON.h"
#include "llvm/Support/raw_ostream.h"
#include <map>
#include <set>
#include <string>
#include <vector>

using namespace clang;
using llvm::json::OStream;

static std::vector<std::string> Roots;
static std::string OutPath;

namespace {

struct DiagRec { std::string level, file, msg; unsigned line; };
static std::vector<DiagRec> Diags;

class CollectDiags : public DiagnosticConsumer {
public:
  void HandleDiagnostic(DiagnosticsEngine::Level L, const Diagnostic &Info) override {
    DiagnosticConsumer::HandleDiagnostic(L, Info);
    llvm::SmallString<256> Buf;
    Info.FormatDiagnostic(Buf);
    DiagRec R;
    R.level = L >= DiagnosticsEngine::Error ? "error" : (L == DiagnosticsEngine::Warning ? "warning" : "note");
    R.msg = std::string(Buf.str());
    R.line = 0;
    if (Info.hasSourceManager() && Info.getLocation().isValid()) {
      const SourceManager &SM = Info.getSourceManager();
      SourceLocation E = SM.getExpansionLoc(Info.getLocation());
      PresumedLoc P = SM.getPresumedLoc(E);
      if (P.isValid()) { R.file = P.getFilename(); R.line = P.getLine(); }
    }
    // attach the flag name so rules can select by diagnostic group
    StringRef Opt = DiagnosticIDs::getWarningOptionForDiag(Info.getID());
    if (!Opt.empty()) R.msg += " [-W" + Opt.str() + "]";
    Diags.push_back(R);
  }
};

class Dumper {
  ASTContext &Ctx;
  const SourceManager &SM;
  OStream &J;
  std::map<std::string, int> TypeIdx;
  std::vector<std::string> Types;
  PrintingPolicy PP;

  // per function state
  std::map<const Stmt *, int> NodeId;
  std::map<const Decl *, std::string> LocalId;
  int NextNode = 0, NextLocal = 0;

public:
  Dumper(ASTContext &C, OStream &J) : Ctx(C), SM(C.getSourceManager()), J(J), PP(C.getLangOpts()) {
    PP.SuppressTagKeyword = false;
    PP.Bool = true;
  }

  bool inRoots(SourceLocation L) {
    if (L.isInvalid()) return false;
    SourceLocation E = SM.getExpansionLoc(L);
    PresumedLoc P = SM.getPresumedLoc(E, /*UseLineDirectives=*/false);
    if (P.isInvalid()) return false;
    StringRef F = P.getFilename();
    llvm::SmallString<256> Abs(F);
    SM.getFileManager().makeAbsolutePath(Abs);
    llvm::sys::path::remove_dots(Abs, true);
    for (auto &R : Roots)
      if (StringRef(Abs).startswith(R)) return true;
    return false;
  }
  std::string fileOf(SourceLocation L) {
    SourceLocation E = SM.getExpansionLoc(L);
    PresumedLoc P = SM.getPresumedLoc(E, false);
    if (P.isInvalid()) return "";
    llvm::SmallString<256> Abs(P.getFilename());
    SM.getFileManager().makeAbsolutePath(Abs);
    llvm::sys::path::remove_dots(Abs, true);
    return std::string(Abs.str());
  }
  unsigned lineOf(SourceLocation L) {
    if (L.isInvalid()) return 0;
    return SM.getExpansionLineNumber(L);
  }
  unsigned colOf(SourceLocation L) {
    if (L.isInvalid()) return 0;
    return SM.getExpansionColumnNumber(L);
  }

  int typeId(QualType T) {
    if (T.isNull()) return -1;
    std::string S = T.getCanonicalType().getAsString(PP);
    auto It = TypeIdx.find(S);
    if (It != TypeIdx.end()) return It->second;
    int I = Types.size();
    Types.push_back(S);
    TypeIdx[S] = I;
    return I;
  }
  const std::vector<std::string> &types() const { return Types; }

  static std::string qname(const NamedDecl *D) {
    std::string S;
    llvm::raw_string_ostream OS(S);
    D->printQualifiedName(OS);
    OS.flush();
    return S;
  }
  std::string funcKey(const FunctionDecl *FD) {
    std::string S = qname(FD);
    // functions with C linkage keep the plain name so that C and C++ units agree on the key
    if (Ctx.getLangOpts().CPlusPlus && !FD->isExternC()) {
      S += "(";
      bool First = true;
      for (auto *P : FD->parameters()) {
        if (!First) S += ",";
        First = false;
        S += P->getType().getCanonicalType().getAsString(PP);
      }
      if (FD->isVariadic()) S += First ? "..." : ",...";
      S += ")";
      if (auto *MD = dyn_cast<CXXMethodDecl>(FD))
        if (MD->isConst()) S += "const";
    }
    return S;
  }

  // ---- transparent wrappers -------------------------------------------------
  static bool interestingImplicit(const ImplicitCastExpr *ICE) {
    switch (ICE->getCastKind()) {
    case CK_PointerToIntegral:
    case CK_IntegralToPointer:
    case CK_IntegralToBoolean:
    case CK_PointerToBoolean:
    case CK_IntegralToFloating:
    case CK_FloatingToIntegral:
    case CK_IntegralCast:
    case CK_FloatingCast:
    case CK_DerivedToBase:
    case CK_UncheckedDerivedToBase:
    case CK_NullToPointer:
      return true;
    default:
      return false;
    }
  }
  static const Stmt *skip(const Stmt *S) {
    while (S) {
      if (auto *P = dyn_cast<ParenExpr>(S)) { S = P->getSubExpr(); continue; }
      if (auto *I = dyn_cast<ImplicitCastExpr>(S)) {
        if (interestingImplicit(I)) break;
        S = I->getSubExpr(); continue;
      }
      if (auto *F = dyn_cast<FullExpr>(S)) { S = F->getSubExpr(); continue; }
      if (auto *M = dyn_cast<MaterializeTemporaryExpr>(S)) { S = M->getSubExpr(); continue; }
      if (auto *B = dyn_cast<CXXBindTemporaryExpr>(S)) { S = B->getSubExpr(); continue; }
      if (auto *N = dyn_cast<SubstNonTypeTemplateParmExpr>(S)) { S = N->getReplacement(); continue; }
      break;
    }
    return S;
  }

  std::string declId(const ValueDecl *D) {
    if (auto *VD = dyn_cast<VarDecl>(D)) {
      // a block-scope `extern int g;` names the global g, not a local
      if ((VD->isLocalVarDeclOrParm() && !VD->hasExternalStorage()) || VD->isStaticLocal()) {
        auto It = LocalId.find(VD->getCanonicalDecl());
        if (It != LocalId.end()) return It->second;
        std::string Id = "L" + std::to_string(NextLocal++) + ":" + VD->getNameAsString();
        LocalId[VD->getCanonicalDecl()] = Id;
        return Id;
      }
    }
    return qname(D);
  }
  static const char *declKind(const ValueDecl *D) {
    if (isa<ParmVarDecl>(D)) return "param";
    if (auto *VD = dyn_cast<VarDecl>(D)) {
      if (VD->isStaticLocal()) return "staticlocal";
      if (VD->isLocalVarDecl() && !VD->hasExternalStorage()) return "local";
      return "global";
    }
    if (isa<FieldDecl>(D)) return "field";
    if (isa<EnumConstantDecl>(D)) return "enum";
    if (isa<FunctionDecl>(D)) return "func";
    return "other";
  }

  void attrCommon(const Stmt *S, const char *Kind) {
    int Id = NextNode++;
    NodeId[S] = Id;
    J.attribute("i", Id);
    J.attribute("k", Kind);
    SourceLocation B = S->getBeginLoc();
    J.attribute("l", (int64_t)lineOf(B));
    J.attribute("c", (int64_t)colOf(B));
    if (B.isMacroID()) {
      StringRef M = Lexer::getImmediateMacroName(B, SM, Ctx.getLangOpts());
      // outermost macro name as well (the one written in the source file)
      SourceLocation O = B;
      while (O.isMacroID()) {
        SourceLocation N = SM.getImmediateMacroCallerLoc(O);
        if (!N.isMacroID()) break;
        O = N;
      }
      StringRef OM = Lexer::getImmediateMacroName(O, SM, Ctx.getLangOpts());
      J.attribute("m", M);
      if (OM != M) J.attribute("mo", OM);
    }
    if (auto *E = dyn_cast<Expr>(S)) {
      J.attribute("t", typeId(E->getType()));
      bool ConstRef = false;
      if (auto *DRE = dyn_cast<DeclRefExpr>(E))
        if (auto *VD = dyn_cast<VarDecl>(DRE->getDecl()))
          ConstRef = VD->getType().isConstQualified() && VD->hasInit() && !isa<ParmVarDecl>(VD);
      if (!E->isValueDependent() && !E->isTypeDependent() && (E->isPRValue() || ConstRef) &&
          (E->getType()->isIntegralOrEnumerationType()) && !isa<IntegerLiteral>(E) &&
          !isa<CharacterLiteral>(E) && !isa<CXXBoolLiteralExpr>(E)) {
        Expr::EvalResult R;
        if (E->EvaluateAsInt(R, Ctx, Expr::SE_NoSideEffects))
          J.attribute("val", R.Val.getInt().getExtValue());
      }
    }
  }

  void child(const Stmt *S) {
    S = skip(S);
    if (!S) { J.value(nullptr); return; }
    J.object([&] { node(S); });
  }
  void children(std::initializer_list<const Stmt *> L) {
    J.attributeArray("ch", [&] { for (auto *S : L) child(S); });
  }

  void varDecl(const VarDecl *VD) {
    J.object([&] {
      J.attribute("i", NextNode++);
      J.attribute("k", "Var");
      J.attribute("l", (int64_t)lineOf(VD->getLocation()));
      J.attribute("n", VD->getNameAsString());
      J.attribute("d", declId(VD));
      J.attribute("t", typeId(VD->getType()));
      if (VD->isStaticLocal()) J.attribute("static", true);
      J.attributeArray("ch", [&] {
        if (VD->hasInit()) child(VD->getInit());
      });
    });
  }

  void calleeAttrs(const FunctionDecl *FD) {
    if (!FD) return;
    J.attribute("fn", qname(FD));
    J.attribute("fk", funcKey(FD));
    if (FD->isVariadic()) J.attribute("variadic", true);
    J.attribute("np", (int64_t)FD->getNumParams());
    if (FD->isNoReturn()) J.attribute("noreturn", true);
  }

  void node(const Stmt *S) {
    // ----- statements
    if (auto *C = dyn_cast<CompoundStmt>(S)) {
      attrCommon(S, "Compound");
      J.attribute("el", (int64_t)lineOf(C->getRBracLoc()));
      J.attributeArray("ch", [&] { for (auto *X : C->body()) child(X); });
      return;
    }
    if (auto *I = dyn_cast<IfStmt>(S)) {
      attrCommon(S, "If");
      J.attributeArray("ch", [&] {
        child(I->getCond()); child(I->getThen()); child(I->getElse());
      });
      if (I->getInit() || I->getConditionVariableDeclStmt()) {
        J.attributeArray("pre", [&] {
          if (I->getInit()) child(I->getInit());
          if (I->getConditionVariableDeclStmt()) child(I->getConditionVariableDeclStmt());
        });
      }
      return;
    }
    if (auto *W = dyn_cast<WhileStmt>(S)) {
      attrCommon(S, "While");
      children({W->getCond(), W->getBody()});
      return;
    }
    if (auto *D = dyn_cast<DoStmt>(S)) {
      attrCommon(S, "Do");
      children({D->getBody(), D->getCond()});
      return;
    }
    if (auto *F = dyn_cast<ForStmt>(S)) {
      attrCommon(S, "For");
      children({F->getInit(), F->getCond(), F->getInc(), F->getBody()});
      return;
    }
    if (auto *F = dyn_cast<CXXForRangeStmt>(S)) {
      attrCommon(S, "RangeFor");
      children({F->getRangeInit(), F->getLoopVarStmt(), F->getBody()});
      return;
    }
    if (auto *Sw = dyn_cast<SwitchStmt>(S)) {
      attrCommon(S, "Switch");
      children({Sw->getCond(), Sw->getBody()});
      return;
    }
    if (auto *Cs = dyn_cast<CaseStmt>(S)) {
      attrCommon(S, "Case");
      Expr::EvalResult R;
      if (Cs->getLHS() && !Cs->getLHS()->isValueDependent() && Cs->getLHS()->EvaluateAsInt(R, Ctx))
        J.attribute("val", R.Val.getInt().getExtValue());
      children({Cs->getLHS(), Cs->getSubStmt()});
      return;
    }
    if (auto *Df = dyn_cast<DefaultStmt>(S)) {
      attrCommon(S, "Default");
      children({Df->getSubStmt()});
      return;
    }
    if (auto *R = dyn_cast<ReturnStmt>(S)) {
      attrCommon(S, "Return");
      children({R->getRetValue()});
      return;
    }
    if (auto *DS = dyn_cast<DeclStmt>(S)) {
      attrCommon(S, "DeclStmt");
      J.attributeArray("ch", [&] {
        for (auto *D : DS->decls())
          if (auto *VD = dyn_cast<VarDecl>(D)) varDecl(VD);
      });
      return;
    }
    if (isa<BreakStmt>(S)) { attrCommon(S, "Break"); return; }
    if (isa<ContinueStmt>(S)) { attrCommon(S, "Continue"); return; }
    if (isa<NullStmt>(S)) { attrCommon(S, "Null"); return; }
    if (auto *G = dyn_cast<GotoStmt>(S)) {
      attrCommon(S, "Goto");
      J.attribute("n", G->getLabel()->getNameAsString());
      return;
    }
    if (auto *L = dyn_cast<LabelStmt>(S)) {
      attrCommon(S, "Label");
      J.attribute("n", std::string(L->getName()));
      children({L->getSubStmt()});
      return;
    }
    if (auto *T = dyn_cast<CXXTryStmt>(S)) {
      attrCommon(S, "Try");
      J.attributeArray("ch", [&] {
        child(T->getTryBlock());
        for (unsigned i = 0; i < T->getNumHandlers(); i++) child(T->getHandler(i)->getHandlerBlock());
      });
      return;
    }
    if (auto *A = dyn_cast<AttributedStmt>(S)) { node(A->getSubStmt()); return; }

    // ----- expressions
    if (auto *D = dyn_cast<DeclRefExpr>(S)) {
      attrCommon(S, "Ref");
      const ValueDecl *VD = D->getDecl();
      J.attribute("n", VD->getNameAsString());
      J.attribute("dk", declKind(VD));
      J.attribute("d", declId(VD));
      if (auto *FD = dyn_cast<FunctionDecl>(VD)) J.attribute("fk", funcKey(FD));
      return;
    }
    if (auto *M = dyn_cast<MemberExpr>(S)) {
      attrCommon(S, "Member");
      J.attribute("n", M->getMemberDecl()->getNameAsString());
      J.attribute("q", qname(M->getMemberDecl()));
      if (M->isArrow()) J.attribute("arrow", true);
      if (auto *FD = dyn_cast<FunctionDecl>(M->getMemberDecl())) J.attribute("fk", funcKey(FD));
      children({M->getBase()});
      return;
    }
    if (isa<CXXThisExpr>(S)) { attrCommon(S, "This"); return; }
    if (auto *MC = dyn_cast<CXXMemberCallExpr>(S)) {
      attrCommon(S, "Call");
      const CXXMethodDecl *MD = MC->getMethodDecl();
      calleeAttrs(MD);
      J.attribute("member", true);
      if (MD && MD->isVirtual()) {
        // a qualified call (Base::f()) is not dispatched virtually
        bool Qualified = false;
        if (auto *ME = dyn_cast<MemberExpr>(MC->getCallee()->IgnoreParens()))
          Qualified = ME->hasQualifier();
        if (!Qualified) J.attribute("virt", true);
      }
      J.attributeArray("ch", [&] {
        child(MC->getImplicitObjectArgument());
        for (auto *A : MC->arguments()) child(A);
      });
      if (!MD) { J.attributeArray("callee", [&] { child(MC->getCallee()); }); }
      return;
    }
    if (auto *OC = dyn_cast<CXXOperatorCallExpr>(S)) {
      attrCommon(S, "Call");
      calleeAttrs(OC->getDirectCallee());
      J.attribute("opcall", std::string(getOperatorSpelling(OC->getOperator())));
      if (OC->getDirectCallee() && isa<CXXMethodDecl>(OC->getDirectCallee())) J.attribute("member", true);
      J.attributeArray("ch", [&] { for (auto *A : OC->arguments()) child(A); });
      return;
    }
    if (auto *C = dyn_cast<CallExpr>(S)) {
      attrCommon(S, "Call");
      const FunctionDecl *FD = C->getDirectCallee();
      calleeAttrs(FD);
      if (unsigned B = C->getBuiltinCallee()) J.attribute("builtin", (int64_t)B);
      J.attributeArray("ch", [&] { for (auto *A : C->arguments()) child(A); });
      if (!FD) { J.attributeArray("callee", [&] { child(C->getCallee()); }); }
      return;
    }
    if (auto *CE = dyn_cast<CXXConstructExpr>(S)) {
      attrCommon(S, "Construct");
      calleeAttrs(CE->getConstructor());
      J.attributeArray("ch", [&] { for (auto *A : CE->arguments()) child(A); });
      return;
    }
    if (auto *B = dyn_cast<BinaryOperator>(S)) {
      attrCommon(S, isa<CompoundAssignOperator>(B) ? "CompoundAssign" : (B->isAssignmentOp() ? "Assign" : "Binary"));
      J.attribute("op", std::string(B->getOpcodeStr()));
      children({B->getLHS(), B->getRHS()});
      return;
    }
    if (auto *U = dyn_cast<UnaryOperator>(S)) {
      attrCommon(S, "Unary");
      std::string Op = std::string(UnaryOperator::getOpcodeStr(U->getOpcode()));
      if (U->isPostfix()) Op = "post" + Op; else if (U->isIncrementDecrementOp()) Op = "pre" + Op;
      J.attribute("op", Op);
      children({U->getSubExpr()});
      return;
    }
    if (auto *C = dyn_cast<ConditionalOperator>(S)) {
      attrCommon(S, "Cond");
      children({C->getCond(), C->getTrueExpr(), C->getFalseExpr()});
      return;
    }
    if (auto *A = dyn_cast<ArraySubscriptExpr>(S)) {
      attrCommon(S, "Subscript");
      children({A->getBase(), A->getIdx()});
      return;
    }
    if (auto *I = dyn_cast<IntegerLiteral>(S)) {
      attrCommon(S, "Int");
      J.attribute("val", I->getValue().getLimitedValue() > (uint64_t)INT64_MAX ? (int64_t)INT64_MAX : (int64_t)I->getValue().getLimitedValue());
      return;
    }
    if (auto *C = dyn_cast<CharacterLiteral>(S)) {
      attrCommon(S, "Char");
      J.attribute("val", (int64_t)C->getValue());
      return;
    }
    if (auto *F = dyn_cast<FloatingLiteral>(S)) {
      attrCommon(S, "Float");
      llvm::SmallString<32> Str;
      F->getValue().toString(Str);
      J.attribute("fval", Str.str());
      return;
    }
    if (auto *B = dyn_cast<CXXBoolLiteralExpr>(S)) {
      attrCommon(S, "Bool");
      J.attribute("val", (int64_t)B->getValue());
      return;
    }
    if (isa<CXXNullPtrLiteralExpr>(S) || isa<GNUNullExpr>(S)) {
      attrCommon(S, "Null0");
      return;
    }
    if (auto *SL = dyn_cast<StringLiteral>(S)) {
      attrCommon(S, "Str");
      if (SL->getCharByteWidth() == 1) J.attribute("s", SL->getString());
      else J.attribute("s", "");
      return;
    }
    if (auto *PE = dyn_cast<PredefinedExpr>(S)) {
      attrCommon(S, "Str");
      J.attribute("s", PE->getFunctionName() ? PE->getFunctionName()->getString() : StringRef(""));
      J.attribute("predefined", true);
      return;
    }
    if (auto *CE = dyn_cast<CastExpr>(S)) {
      attrCommon(S, "Cast");
      J.attribute("ck", std::string(CE->getCastKindName()));
      if (isa<ExplicitCastExpr>(CE)) J.attribute("explicit", true);
      children({CE->getSubExpr()});
      return;
    }
    if (auto *IL = dyn_cast<InitListExpr>(S)) {
      const InitListExpr *Sem = IL->isSemanticForm() ? IL : (IL->getSemanticForm() ? IL->getSemanticForm() : IL);
      attrCommon(S, "InitList");
      J.attributeArray("ch", [&] { for (auto *E : Sem->inits()) child(E); });
      if (Sem->hasArrayFiller()) J.attribute("filler", true);
      return;
    }
    if (isa<ImplicitValueInitExpr>(S)) { attrCommon(S, "ImplicitInit"); return; }
    if (auto *UE = dyn_cast<UnaryExprOrTypeTraitExpr>(S)) {
      attrCommon(S, "SizeOf");
      J.attribute("trait", (int64_t)UE->getKind());
      J.attribute("argt", typeId(UE->getTypeOfArgument()));
      if (!UE->isArgumentType()) children({UE->getArgumentExpr()});
      return;
    }
    if (auto *N = dyn_cast<CXXNewExpr>(S)) {
      attrCommon(S, "New");
      J.attribute("alloct", typeId(N->getAllocatedType()));
      if (N->isArray()) J.attribute("array", true);
      J.attributeArray("ch", [&] {
        if (N->isArray() && N->getArraySize()) child(*N->getArraySize()); else J.value(nullptr);
        if (N->getInitializer()) child(N->getInitializer()); else J.value(nullptr);
      });
      return;
    }
    if (auto *D = dyn_cast<CXXDeleteExpr>(S)) {
      attrCommon(S, "Delete");
      if (D->isArrayForm()) J.attribute("array", true);
      children({D->getArgument()});
      return;
    }
    if (auto *V = dyn_cast<VAArgExpr>(S)) {
      attrCommon(S, "VAArg");
      children({V->getSubExpr()});
      return;
    }
    if (auto *SE = dyn_cast<StmtExpr>(S)) {
      attrCommon(S, "StmtExpr");
      children({SE->getSubStmt()});
      return;
    }
    if (auto *T = dyn_cast<CXXThrowExpr>(S)) {
      attrCommon(S, "Throw");
      children({T->getSubExpr()});
      return;
    }
    if (auto *DA = dyn_cast<CXXDefaultArgExpr>(S)) {
      attrCommon(S, "DefaultArg");
      children({DA->getExpr()});
      return;
    }
    if (auto *DI = dyn_cast<CXXDefaultInitExpr>(S)) {
      attrCommon(S, "DefaultInit");
      children({DI->getExpr()});
      return;
    }
    if (auto *CL = dyn_cast<CompoundLiteralExpr>(S)) {
      attrCommon(S, "CompoundLiteral");
      children({CL->getInitializer()});
      return;
    }
    if (auto *DIE = dyn_cast<DesignatedInitExpr>(S)) {
      attrCommon(S, "DesignatedInit");
      children({DIE->getInit()});
      return;
    }
    // generic fallback: kind name + all children
    attrCommon(S, S->getStmtClassName());
    J.attribute("generic", true);
    J.attributeArray("ch", [&] { for (auto *C : S->children()) child(C); });
  }

  int idOf(const Stmt *S) {
    S = skip(S);
    if (!S) return -1;
    auto It = NodeId.find(S);
    if (It != NodeId.end()) return It->second;
    // AttributedStmt etc: look through
    if (auto *A = dyn_cast<AttributedStmt>(S)) return idOf(A->getSubStmt());
    return -1;
  }

  void function(const FunctionDecl *FD) {
    NodeId.clear(); LocalId.clear(); NextNode = 0; NextLocal = 0;
    J.object([&] {
      J.attribute("name", qname(FD));
      J.attribute("key", funcKey(FD));
      J.attribute("file", fileOf(FD->getLocation()));
      J.attribute("line", (int64_t)lineOf(FD->getBeginLoc()));
      J.attribute("endline", (int64_t)lineOf(FD->getEndLoc()));
      J.attribute("ret", typeId(FD->getReturnType()));
      if (FD->isVariadic()) J.attribute("variadic", true);
      if (FD->isStatic() || FD->getStorageClass() == SC_Static) J.attribute("static", true);
      if (FD->isTemplateInstantiation()) J.attribute("inst", true);
      if (auto *MD = dyn_cast<CXXMethodDecl>(FD)) {
        J.attribute("class", qname(MD->getParent()));
        if (MD->isVirtual()) J.attribute("virtual", true);
        if (isa<CXXConstructorDecl>(MD)) J.attribute("ctor", true);
        if (isa<CXXDestructorDecl>(MD)) J.attribute("dtor", true);
        J.attributeArray("overrides", [&] {
          for (auto *O : MD->overridden_methods()) J.value(funcKey(O));
        });
      }
      J.attributeArray("params", [&] {
        for (auto *P : FD->parameters()) {
          J.object([&] {
            J.attribute("n", P->getNameAsString());
            J.attribute("d", declId(P));
            J.attribute("t", typeId(P->getType()));
            if (P->hasDefaultArg() && !P->hasUninstantiatedDefaultArg() && !P->hasUnparsedDefaultArg()) {
              J.attributeArray("default", [&] { child(P->getDefaultArg()); });
            }
          });
        }
      });
      if (auto *CD = dyn_cast<CXXConstructorDecl>(FD)) {
        J.attributeArray("inits", [&] {
          for (auto *I : CD->inits()) {
            J.object([&] {
              if (I->isAnyMemberInitializer() && I->getAnyMember())
                J.attribute("member", qname(I->getAnyMember()));
              else if (I->isBaseInitializer() && I->getBaseClass())
                J.attribute("base", QualType(I->getBaseClass(), 0).getCanonicalType().getAsString(PP));
              J.attribute("written", I->isWritten());
              J.attributeArray("ch", [&] { child(I->getInit()); });
            });
          }
        });
      }
      J.attributeObject("body", [&] { node(FD->getBody()); });
      // CFG
      CFG::BuildOptions BO;
      BO.AddImplicitDtors = false;
      BO.AddTemporaryDtors = false;
      BO.AddInitializers = false;
      BO.PruneTriviallyFalseEdges = true;
      std::unique_ptr<CFG> G = CFG::buildCFG(FD, FD->getBody(), &Ctx, BO);
      if (G) {
        J.attributeObject("cfg", [&] {
          J.attribute("entry", (int64_t)G->getEntry().getBlockID());
          J.attribute("exit", (int64_t)G->getExit().getBlockID());
          J.attributeArray("blocks", [&] {
            for (const CFGBlock *B : *G) {
              J.object([&] {
                J.attribute("b", (int64_t)B->getBlockID());
                J.attributeArray("e", [&] {
                  for (const CFGElement &E : *B) {
                    if (auto CS = E.getAs<CFGStmt>()) {
                      int Id = idOf(CS->getStmt());
                      if (Id >= 0) J.value(Id);
                    }
                  }
                });
                J.attributeArray("s", [&] {
                  for (auto SI = B->succ_begin(); SI != B->succ_end(); ++SI) {
                    if (const CFGBlock *T = SI->getReachableBlock()) J.value((int64_t)T->getBlockID());
                    else J.value(-1);
                  }
                });
                if (const Stmt *T = B->getTerminatorStmt()) {
                  J.attribute("tk", idOf(T));
                  J.attribute("tkind", T->getStmtClassName());
                }
                if (const Stmt *C = B->getTerminatorCondition()) J.attribute("tc", idOf(C));
                if (const Stmt *L = B->getLabel()) J.attribute("lb", idOf(L));
                if (B->hasNoReturnElement()) J.attribute("noreturn", true);
              });
            }
          });
        });
      }
    });
  }

  void record(const CXXRecordDecl *RD) {
    J.object([&] {
      J.attribute("name", qname(RD));
      J.attribute("file", fileOf(RD->getLocation()));
      J.attribute("line", (int64_t)lineOf(RD->getLocation()));
      J.attributeArray("bases", [&] {
        for (auto &B : RD->bases())
          if (auto *BD = B.getType()->getAsCXXRecordDecl()) J.value(qname(BD));
      });
      J.attributeArray("fields", [&] {
        for (auto *F : RD->fields())
          J.object([&] { J.attribute("n", F->getNameAsString()); J.attribute("t", typeId(F->getType())); });
      });
      J.attributeArray("methods", [&] {
        for (auto *M : RD->methods()) {
          if (M->isImplicit()) continue;
          J.object([&] {
            J.attribute("name", M->getNameAsString());
            J.attribute("key", funcKey(M));
            if (M->isVirtual()) J.attribute("virtual", true);
            if (M->isPure()) J.attribute("pure", true);
            J.attribute("line", (int64_t)lineOf(M->getLocation()));
            J.attributeArray("overrides", [&] { for (auto *O : M->overridden_methods()) J.value(funcKey(O)); });
            J.attributeArray("params", [&] {
              for (auto *P : M->parameters()) {
                J.object([&] {
                  J.attribute("n", P->getNameAsString());
                  J.attribute("t", typeId(P->getType()));
                  if (P->hasDefaultArg()) J.attribute("hasdefault", true);
                });
              }
            });
          });
        }
      });
    });
  }
  void cRecord(const RecordDecl *RD) {
    J.object([&] {
      std::string N = qname(RD);
      if (RD->getName().empty())
        if (auto *TD = RD->getTypedefNameForAnonDecl()) N = TD->getNameAsString();
      J.attribute("name", N);
      J.attribute("file", fileOf(RD->getLocation()));
      J.attribute("line", (int64_t)lineOf(RD->getLocation()));
      J.attributeArray("bases", [&] {});
      J.attributeArray("fields", [&] {
        for (auto *F : RD->fields())
          J.object([&] { J.attribute("n", F->getNameAsString()); J.attribute("t", typeId(F->getType())); });
      });
      J.attributeArray("methods", [&] {});
    });
  }
  void enumDecl(const EnumDecl *ED) {
    J.object([&] {
      std::string N = qname(ED);
      if (ED->getName().empty())
        if (auto *TD = ED->getTypedefNameForAnonDecl()) N = TD->getNameAsString();
      J.attribute("name", N);
      J.attribute("file", fileOf(ED->getLocation()));
      J.attribute("line", (int64_t)lineOf(ED->getLocation()));
      J.attributeArray("items", [&] {
        for (auto *E : ED->enumerators())
          J.object([&] { J.attribute("n", E->getNameAsString()); J.attribute("v", E->getInitVal().getExtValue()); });
      });
    });
  }
  void global(const VarDecl *VD) {
    NodeId.clear(); LocalId.clear(); NextNode = 0; NextLocal = 0;
    J.object([&] {
      J.attribute("name", qname(VD));
      J.attribute("file", fileOf(VD->getLocation()));
      J.attribute("line", (int64_t)lineOf(VD->getLocation()));
      J.attribute("t", typeId(VD->getType()));
      if (VD->getStorageClass() == SC_Static) J.attribute("static", true);
      if (VD->getType().isConstQualified()) J.attribute("const", true);
      if (VD->hasInit()) J.attributeArray("init", [&] { child(VD->getInit()); });
    });
  }
};

class Collector : public RecursiveASTVisitor<Collector> {
public:
  std::vector<const FunctionDecl *> Funcs;
  std::vector<const CXXRecordDecl *> Records;
  std::vector<const RecordDecl *> CRecords;
  std::vector<const EnumDecl *> Enums;
  std::vector<const VarDecl *> Globals;
  Dumper &D;
  explicit Collector(Dumper &D) : D(D) {}
  bool shouldVisitTemplateInstantiations() const { return true; }
  bool shouldVisitImplicitCode() const { return false; }

  bool VisitFunctionDecl(FunctionDecl *FD) {
    if (!FD->doesThisDeclarationHaveABody()) return true;
    if (FD->isDependentContext()) return true;
    if (!D.inRoots(FD->getLocation())) return true;
    Funcs.push_back(FD);
    return true;
  }
  bool VisitCXXRecordDecl(CXXRecordDecl *RD) {
    if (!RD->isThisDeclarationADefinition() || RD->isDependentContext()) return true;
    if (!D.inRoots(RD->getLocation())) return true;
    if (RD->isLambda()) return true;
    Records.push_back(RD);
    return true;
  }
  bool VisitRecordDecl(RecordDecl *RD) {
    if (isa<CXXRecordDecl>(RD)) return true;
    if (!RD->isThisDeclarationADefinition()) return true;
    if (!D.inRoots(RD->getLocation())) return true;
    CRecords.push_back(RD);
    return true;
  }
  bool VisitEnumDecl(EnumDecl *ED) {
    if (!ED->isThisDeclarationADefinition()) return true;
    if (!D.inRoots(ED->getLocation())) return true;
    Enums.push_back(ED);
    return true;
  }
  bool VisitVarDecl(VarDecl *VD) {
    if (!VD->hasGlobalStorage() || VD->isStaticLocal()) return true;
    if (isa<ParmVarDecl>(VD)) return true;
    if (VD->getDeclContext()->isDependentContext()) return true;
    if (!D.inRoots(VD->getLocation())) return true;
    if (!VD->isThisDeclarationADefinition() && !VD->hasInit()) return true;
    Globals.push_back(VD);
    return true;
  }
};

class Consumer : public ASTConsumer {
public:
  void HandleTranslationUnit(ASTContext &Ctx) override {
    std::error_code EC;
    llvm::raw_fd_ostream OS(OutPath, EC);
    if (EC) { llvm::errs() << "scv: cannot write " << OutPath << "\n"; exit(3); }
    OStream J(OS);
    Dumper D(Ctx, J);
    Collector C(D);
    C.TraverseDecl(Ctx.getTranslationUnitDecl());
    const SourceManager &SM = Ctx.getSourceManager();
    J.object([&] {
      J.attribute("version", 1);
      if (auto *FE = SM.getFileEntryForID(SM.getMainFileID()))
        J.attribute("unit", FE->tryGetRealPathName());
      J.attribute("cplusplus", (bool)Ctx.getLangOpts().CPlusPlus);
      J.attributeArray("functions", [&] { for (auto *F : C.Funcs) D.function(F); });
      J.attributeArray("records", [&] {
        for (auto *R : C.Records) D.record(R);
        for (auto *R : C.CRecords) D.cRecord(R);
      });
      J.attributeArray("enums", [&] { for (auto *E : C.Enums) D.enumDecl(E); });
      J.attributeArray("globals", [&] { for (auto *G : C.Globals) D.global(G); });
      J.attributeArray("types", [&] { for (auto &T : D.types()) J.value(T); });
      J.attributeArray("diags", [&] {
        for (auto &R : Diags)
          J.object([&] {
            J.attribute("level", R.level); J.attribute("file", R.file);
            J.attribute("line", (int64_t)R.line); J.attribute("msg", R.msg);
          });
      });
      J.attribute("errors", (int64_t)Ctx.getDiagnostics().getClient()->getNumErrors());
    });
    OS << "\n";
  }
};

class Action : public ASTFrontendAction {
public:
  std::unique_ptr<ASTConsumer> CreateASTConsumer(CompilerInstance &, StringRef) override {
    return std::make_unique<Consumer>();
  }
};

} // namespace

int main(int argc, const char **argv) {
  std::vector<std::string> Sources;
  int i = 1;
  for (; i < argc; i++) {
    std::string A = argv[i];
    if (A == "--") { i++; break; }
    if (A == "--out" && i + 1 < argc) { OutPath = argv[++i]; continue; }
    if (A == "--root" && i + 1 < argc) { Roots.push_back(argv[++i]); continue; }
    Sources.push_back(A);
  }
  std::vector<std::string> Flags;
  for (; i < argc; i++) Flags.push_back(argv[i]);
  if (OutPath.empty() || Sources.size() != 1) {
    llvm::errs() << "usage: scv --out FILE [--root PREFIX]... SOURCE -- flags\n";
    return 2;
  }
  if (Roots.empty()) Roots.push_back("/repo/");
  clang::tooling::FixedCompilationDatabase DB(".", Flags);
  clang::tooling::ClangTool Tool(DB, Sources);
  CollectDiags DC;
  Tool.setDiagnosticConsumer(&DC);
  int R = Tool.run(clang::tooling::newFrontendActionFactory<Action>().get());
  // R != 0 when there were compile errors; the JSON still carries "errors"
  return R == 0 ? 0 : 1;
}
