"""Handed-over-then-deleted: a pointer that a function has given to a container / owner must not be deleted by that
function afterwards (the owner keeps a dangling pointer: use after free on the next traversal, double free in its destructor).

 * `stores(prog)`: least fixed point of "parameter #i of F is stored": F assigns it (through casts) to a member, an array
   element or a global, or passes it to a parameter that is stored (virtual calls: any overrider); library containers
   (`push_back`, `insert`, ...) store.
 * per `delete p` of a local / parameter: path-sensitive walk (pathstate.walk) with typestate {fresh, handed}; `p = ..`
   makes it fresh again, a call that takes it back (`Remove*`, `erase`, ...) too.
"""
import re

from ir import strip
from engines import call_args
import pathstate

LIB_STORE = {"push_back", "emplace_back", "insert", "push_front", "emplace"}
TAKE_BACK = re.compile(r"(Remove|Delete|erase|Unlink|Detach)", re.I)


def core(n):
    n = strip(n)
    while n is not None and n["k"] == "Cast" and n.get("ch"):
        n = strip(n["ch"][0])
    return n


def targets(prog, call):
    if not call.get("fk"):
        return []
    t = [call["fk"]]
    if call.get("virt"):
        t += list(prog.overriders(call["fk"]) or [])
    return t


def _value_refs(n):
    """variable references whose value the expression may evaluate to: through casts, parentheses and both arms of `c ? a : b`"""
    n = core(n)
    while n is not None and n["k"] == "Paren" and n.get("ch"):
        n = core(n["ch"][0])
    if n is None:
        return []
    if n["k"] == "Ref":
        return [n]
    if n["k"] == "Cond" and len(n.get("ch") or []) == 3:
        return _value_refs(n["ch"][1]) + _value_refs(n["ch"][2])
    return []


def _in_local_object(lhs):
    """`e.key = p` / `a[i] = p` where e / a is an object (not a pointer) on this function's own stack: the store dies with the frame"""
    n = lhs
    while n is not None and ((n["k"] == "Member" and not n.get("arrow")) or n["k"] == "Subscript") and n.get("ch"):
        n = strip(n["ch"][0])
        while n is not None and n["k"] == "Cast" and n.get("ch"):
            n = strip(n["ch"][0])
    return n is not None and n["k"] == "Ref" and n.get("dk") == "local"


def stores(prog, skip_components=("test",)):
    out = {}
    fns = [f for f in prog.all_functions() if f.component not in skip_components]
    changed = True
    while changed:
        changed = False
        for f in fns:
            pd = {p["d"]: i for i, p in enumerate(f.params)}
            if not pd:
                continue
            for n in f.walk():
                if n["k"] == "Assign" and n.get("op", "=") == "=":
                    lhs = strip(n["ch"][0])
                    for rhs in _value_refs(n["ch"][1]):
                        if rhs.get("d") in pd and "*" in f.ty(rhs):
                            if (lhs["k"] in ("Member", "Subscript") and not _in_local_object(lhs)) or \
                                    (lhs["k"] == "Ref" and lhs.get("dk") in ("global", "field")):
                                k = (f.key, pd[rhs["d"]])
                                if k not in out:
                                    out[k] = "%s stores it (%s)" % (f.name, f.where(n))
                                    changed = True
                elif n["k"] == "Call":
                    for i, x in enumerate(call_args(n)):
                        c = core(x)
                        if c is None or c["k"] != "Ref" or c.get("d") not in pd:
                            continue
                        for t in targets(prog, n):
                            if (t, i) in out:
                                k = (f.key, pd[c["d"]])
                                if k not in out:
                                    out[k] = "%s passes it on to %s()" % (f.name, n.get("fn"))
                                    changed = True
    return out


def handover_of(prog, st, call, d):
    """reason when `call` hands the pointer variable d over, else None"""
    for i, x in enumerate(call_args(call)):
        c = core(x)
        if c is None or c["k"] != "Ref" or c.get("d") != d:
            continue
        if TAKE_BACK.search((call.get("fn") or "").split("::")[-1]):
            return None
        for t in targets(prog, call):
            if (t, i) in st:
                return st[(t, i)]
        if not call.get("fk") and (call.get("fn") or "").split("::")[-1] in LIB_STORE:
            return "a library container keeps it"
    return None


def check_function(prog, st, f):
    """-> (delete sites of local pointers, [(delete node, handover call, why)], incomplete reason or None)"""
    dels = []
    for n in f.walk():
        if n["k"] == "Delete" and n.get("ch"):
            p = core(n["ch"][0])
            if p is not None and p["k"] == "Ref" and p.get("dk") in ("local", "param"):
                dels.append((n, p))
    if not dels or f.cfg is None:
        return dels, [], None
    found = []
    why_incomplete = None
    for d in sorted({p["d"] for _, p in dels}):
        hands = {}
        for c in f.calls():
            w = handover_of(prog, st, c, d)
            if w:
                hands[c["i"]] = (c, w)
        if not hands:
            continue
        hits = {}

        def on_node(nd, ts, env, d=d, hands=hands, hits=hits):
            k = nd["k"]
            if k == "Call":
                if nd["i"] in hands:
                    return nd["i"]
                if ts and TAKE_BACK.search((nd.get("fn") or "").split("::")[-1]) and \
                        any(core(a) is not None and core(a)["k"] == "Ref" and core(a).get("d") == d for a in call_args(nd)):
                    return 0
                return ts
            if k == "Assign" and nd.get("op", "=") == "=":
                l = strip(nd["ch"][0])
                if l is not None and l["k"] == "Ref" and l.get("d") == d:
                    return 0
                return ts
            if k == "Var" and nd.get("d") == d:
                return 0
            if k == "Delete" and nd.get("ch"):
                p = core(nd["ch"][0])
                if p is not None and p["k"] == "Ref" and p.get("d") == d:
                    if ts:
                        hits.setdefault(nd["i"], (nd, hands[ts][0], hands[ts][1]))
                    return 0
            return ts
        try:
            pathstate.walk(f, 0, on_node)
        except pathstate.Budget as e:
            why_incomplete = str(e)
        found.extend(hits.values())
    return dels, found, why_incomplete
