#!/usr/bin/env python3
"""Regenerate /verif/MANIFEST.json from the rule modules' metadata (keeps it schema-valid)."""
import importlib
import json
import os
import sys

HERE = os.path.dirname(os.path.abspath(__file__))
VERIF = os.path.dirname(HERE)
sys.path.insert(0, HERE)

ALL = ["C%02d" % i for i in range(1, 21)]
NOT_APPLICABLE = {
    "C08": "legality of a complex instance is computed at run time by a backtracking matcher over generated constraint "
           "trees; no structural clause establishes either direction of the 'if and only if'; see DESIGN §4/C08",
}
NOT_BUILT = "static rules designed in DESIGN.md §4 but not built and validated yet; not claimed until they are"


def main():
    checks = []
    na = []
    serves = []
    for pid in ALL:
        if pid in NOT_APPLICABLE:
            na.append({"property_id": pid, "reason": NOT_APPLICABLE[pid]})
            continue
        try:
            m = importlib.import_module("rules." + pid.lower())
        except ImportError:
            na.append({"property_id": pid, "reason": NOT_BUILT})
            continue
        if not getattr(m, "CLAIMED", True):
            na.append({"property_id": pid, "reason": getattr(m, "NOT_CLAIMED_REASON", NOT_BUILT)})
            continue
        serves.append(pid)
        checks.append({
            "property_id": pid,
            "quick_cmd": "python3 scv/run.py %s --tier quick" % pid,
            "thorough_cmd": "python3 scv/run.py %s --tier thorough" % pid,
            "evidence_file": "evidence/%s.json" % pid,
            "replay_cmd_template": "python3 scv/run.py %s --explain {path}" % pid,
            "engine": "scv",
            "level_claimed": {
                "category": "other",
                "text": (m.LEVEL_TEXT if len(getattr(m, "LEVEL_TEXT", "")) > 40 else m.EXPLANATION),
                "design_ref": "DESIGN.md §4/%s" % pid,
            },
            "level_note": getattr(m, "LEVEL_NOTE",
                                  "Trusted: clang 14 front end/CFG/constant evaluator; compile database reflects the build; "
                                  "instance and exception tables in scv/rules (each with its reason); libc/libstdc++ meet "
                                  "their specification. Only the structural clauses named in the text are decided, not the "
                                  "behaviour over all inputs."),
            "technique": getattr(m, "TECHNIQUE", "static analysis: custom checkers over clang AST + CFG facts (scv)"),
        })
    man = {
        "version": 1,
        "setup_cmd": "python3 scv/build.py",
        "hooks": {
            "guard": "STEPCODE_VERIF",
            "enable": "no hooks: every rule reads the unmodified sources of /repo's working tree",
            "baseline_off_cmd": "ctest --test-dir /repo/_build -j8 --timeout 900",
            "source_commits": [],
            "add_only": True,
        },
        "engines": [
            {"name": "scv", "path": "scv/scv.cc", "serves_properties": serves,
             "kind_free_text": "libTooling fact extractor (resolved AST, CFG, records, enums, tables, compiler diagnostics) + "
                               "Python rule engines run by scv/run.py: engines.py (formats, switch tables, threading), absint.py "
                               "(intervals), bufbound.py (buffer bounds), stuckstream.py (stream progress), strtemp.py (string "
                               "templates), typeshape.py / singlepass.py (three-valued exploration), cmakeparse.py, rules/*.py; "
                               "C19 parses the Python runtime with the stdlib ast module"},
        ],
        "checks": checks,
        "not_applicable": na,
        "notes": "Static analysis only: exit 0 = all obligations discharged (open known findings are printed as "
                 "KNOWN-FINDING), 1 = VIOLATION, 2 = analysis broken (anchor vanished / floor not met / unit failed to "
                 "parse / rule self-test failed). known_findings.json lists open and fixed findings.",
    }
    with open(os.path.join(VERIF, "MANIFEST.json"), "w") as fh:
        json.dump(man, fh, indent=1)
    print("MANIFEST.json: %d checks, %d not applicable" % (len(checks), len(na)))


if __name__ == "__main__":
    main()
