"""C07 — pretty-printed EXPRESS is valid, equivalent to its source and stable (structural clauses).

 R1 coverage      every kind of node the parser/resolver can build has an explicit arm in the printer's switch
                  (operators, expression kinds, type bodies, statements); placeholder `default` arms do not count
 R2 spelling      three-way join  printer spelling -> lexer token -> grammar production -> opcode: the text printed for an
                  operator is read back as the same operator; literal productions build expressions of their own kind
 R3 placeholders  a string the grammar stores as a stand-in (not an identifier) never reaches printed output unguarded
 R4 shared nodes  grammar actions never write through an expression they did not create (shared literal singletons);
                  overwriting the type of an arbitrary count expression is reported
 R5 real text     the text of a real literal keeps its decimal point
 R6 quotes        every path through the string-literal printer emits the opening and the closing quote
"""
import re
from ir import walk, strip, expr_str, access_path
from engines import flatten_switch, known_facts

PID = "C07"
UNITS = dict(components={"express", "exppp"})
LEVEL_TEXT = "other"
# the join needs lemon's yyRuleName table, which only exists without NDEBUG; the reduce actions are the same in both builds
NDEBUG_VARIANT = False
TECHNIQUE = ("static analysis: exhaustiveness of printer switches against the constructors reachable in the grammar actions, "
             "three-way table join printer literal / lexer rule / lemon production (yyRuleName + yy_reduce actions), "
             "placeholder-leak and write-through-shared-node rules on the grammar actions, path enumeration of quote emission")
EXPLANATION = (
    "Structural necessary conditions, decided from libexpress (including the pre-generated lemon parser, joined with its "
    "yyRuleName table) and exppp. (R1) the set of Op_Code values, expression kinds, type-body kinds and statement kinds that "
    "the grammar actions and the resolver can construct (constant arguments of BIN/UN/TERN_EXPcreate, EXPcreate*, "
    "TYPEBODYcreate, the statement constructors, and assignments X->type = Type_k) is contained in the explicit case labels "
    "of EXPRop__out, EXPR__out/EXPRstring, TYPE_body_out, STMT_out. (R2) for every operator the spelling the printer emits "
    "(literal in its arm, else EXPop_table[].token from EXPop_init) is mapped through the lexer's rules (expscan.l literals, "
    "lexact.c keywords[]) to a token, and the production that consumes that token with the same arity builds the same opcode; "
    "bracket/colon forms are joined as sequences; each `literal ::= TOK_x_LITERAL` action only builds expressions whose kind is "
    "that of the token. (R3) a non-identifier string passed to SYMBOLcreate in an action is a placeholder; a printer argument "
    "reading that field must be guarded by a comparison with the same string. (R4) an action may assign fields only of nodes "
    "it created itself or of values that cannot be a shared literal. (R5) no store in real2exp overwrites a character a "
    "dominating test identified as '.'. (R6) all paths of breakLongStr (loops unrolled 0..2, callee maybeBreak inlined) emit an "
    "even, non-zero number of quote characters; the zero-iteration path must be excluded by an explicit empty-string test. "
    "(R7) operators routed to the parenthesis-eliding printer are associative. (R8) the scanner collapses '' to ' and the printer of string literals writes the pair back and prints only the escaped copy. (R9) every caller of ALGargs_out prints the parameter list under a test of the list. (R10) the group-break condition of ALGargs_out, evaluated for all combinations of previous/current values of the remembered properties (VAR-ness, type), is true exactly when one differs. Not decided: token-for-token equivalence, parenthesisation and precedence, wrapping at every line length, idempotence "
    "— behaviour of the printer on values."
    " (R12) for every kind of literal, each member of the expression that the printer arm for that kind reads (u.integer, u.real, u.binary, u.logical, symbol.name) is stored by the grammar action of the corresponding `literal ::= TOK_.._LITERAL` production."
    " (R13) the fixed word a printer emits for a built-in constant singleton (LITERAL_PI, LITERAL_E, LITERAL_INFINITY ..) is a spelling the lexer maps to the token of the `constant ::= TOK_x` production that yields that singleton."
    " (R14) the arm of STMT_out for one kind of statement reads, of the statement node itself, only fields that STMTcreate or the constructor of that kind stores (symbol.name is stored by none)."
    " (R15) no bare early exit of a printer function is decided by a value computed from exppp_linelength (reaching definitions; callees that return a layout value taint the variable they are assigned to): the line length decides layout, not content."
    " (R16) where TYPE_resolve replaces a reference node by the object a (possibly renaming) look-up found, the spelling of the reference must be kept somewhere, or a name imported with AS cannot be printed as written (two open findings)."
    " (R11f) a keyword printed for one bit of a `flags` struct does not depend on a sibling bit being clear (same criterion as R11; locals initialised once stand for their initialiser). (R17) the repeat mark of an aggregate initialiser (`X->type = Type_Repeat`) is stored only into an expression created as, or tested to be, an integer literal: the type of an expression is also its kind.")
from engines import call_args

PLACEHOLDER_DEFAULT = re.compile(r"unknown|Reached default|not handled", re.I)


def find_switch_on(f, pred):
    for x in f.walk():
        if x["k"] == "Switch" and pred(x["ch"][0]):
            return x
    return None


def explicit_labels(sw):
    labs = set()
    for l, stmt in flatten_switch(sw):
        labs.update(v for v in l if isinstance(v, int))
    return labs


def enum_by_value(prog, member):
    for name, items in prog.enums.items():
        if member in items:
            return items
    return {}


# --------------------------------------------------------------------------- facts from the grammar
class Grammar:
    def __init__(self, prog, res):
        self.ok = False
        g = prog.global_init("yyRuleName")
        f = prog.one("yy_reduce")
        if g is None or f is None:
            res.broke("anchor vanished: yyRuleName / yy_reduce (the parser must be analysed with -UNDEBUG)")
            return
        self.fn = f
        self.names = [strip(c).get("s") for c in strip(g["init"][0])["ch"]]
        sws = [x for x in f.walk() if x["k"] == "Switch"]
        if not sws:
            res.broke("yy_reduce: rule switch not found")
            return
        self.items = flatten_switch(sws[0])
        self.actions = {}     # rule number -> statement(s) executed for it (labels separated by yytestcase() fall through)
        for i, (labs, stmt) in enumerate(self.items):
            if not any(isinstance(l, int) for l in labs):
                continue
            body = []
            for _, st in self.items[i:]:
                if st is None:
                    continue
                if st["k"] == "Break":
                    break
                body.append(st)
                if any(x["k"] in ("Break", "Return", "Goto") for x in (st.get("ch") or []) if x is not None):
                    break
            real = [b for b in body if b["k"] not in ("Null", "NullStmt")]
            act = real[0] if len(real) == 1 else ({"k": "Compound", "i": -1, "l": body[0]["l"] if body else 0, "ch": real} if real else None)
            for l in labs:
                if isinstance(l, int):
                    self.actions[l] = act
        self.ok = True

    def rule(self, n):
        t = self.names[n] if 0 <= n < len(self.names) else "?"
        lhs, rhs = t.split("::=")
        return lhs.strip(), rhs.split()


def op_consts(node):
    return {x["n"] for x in walk(node) if x["k"] == "Ref" and x.get("dk") == "enum" and x["n"].startswith("OP_")}


# --------------------------------------------------------------------------- R1
def r1_coverage(prog, res, gr):
    opv = enum_by_value(prog, "OP_AND")
    te = prog.enums.get("type_enum") or {}
    # ---- operators built by the grammar
    built = {}
    for n, stmt in gr.actions.items():
        if stmt is None:
            continue
        for c in walk(stmt):
            if c["k"] == "Call" and (c.get("fn") or "") in ("BIN_EXPcreate", "UN_EXPcreate", "TERN_EXPcreate"):
                for o in op_consts(c["ch"][0]):
                    built.setdefault(o, n)
        # rel_op ::= TOK_x  { A = OP_x }
        lhs, rhs = gr.rule(n)
        if lhs == "rel_op":
            for o in op_consts(stmt):
                built.setdefault(o, n)
    f = prog.one("EXPRop__out")
    if f is None:
        res.broke("anchor vanished: EXPRop__out")
        return None
    sw = find_switch_on(f, lambda c: expr_str(strip(c)).endswith("op_code"))
    have = explicit_labels(sw) if sw else set()
    for o, n in sorted(built.items()):
        ok = opv.get(o) in have
        res.add("R1.operator_has_arm", "R1|src/exppp/pretty_expr.c|EXPRop__out|%s" % o, f.where(sw) if sw else f.where(), ok,
                "%s (built by '%s') has its own arm" % (o, gr.names[n]) if ok else
                "%s is built by the production '%s' but EXPRop__out has no arm for it: it is printed as the placeholder comment" % (o, gr.names[n]))
    res.floor("R1", "operators built by the grammar", len(built), 25)
    # ---- expression kinds
    singles = {}
    fac = [g for g in prog.all_functions() if g.relfile().endswith("express/factory.c")]
    for g in fac:
        for x in g.walk():
            if x["k"] == "Assign" and strip(x["ch"][0]) is not None and strip(x["ch"][0])["k"] == "Ref" and strip(x["ch"][0]).get("dk") == "global":
                r = strip(x["ch"][1])
                if r is not None and r["k"] == "Call" and (r.get("fn") or "") == "TYPEcreate":
                    k = strip(r["ch"][0])
                    if k is not None and "val" in k:
                        singles[strip(x["ch"][0])["n"]] = k["val"]
    res.info["type_singletons"] = len(singles)
    kinds = {}
    CREATORS = {"EXPcreate": 0, "EXPcreate_simple": 0}
    for g in prog.all_functions():
        if g.component != "express":
            continue
        for x in g.walk():
            if x["k"] == "Call" and (x.get("fn") or "") in CREATORS and x.get("ch"):
                a = strip(x["ch"][CREATORS[x["fn"]]])
                if a is not None and a["k"] == "Ref" and a["n"] in singles:
                    kinds.setdefault(singles[a["n"]], "%s(%s) in %s" % (x["fn"], a["n"], g.name))
            if x["k"] == "Call" and (x.get("fn") or "") in ("BIN_EXPcreate", "UN_EXPcreate", "TERN_EXPcreate"):
                kinds.setdefault(te.get("op_"), "%s in %s" % (x["fn"], g.name))
            if x["k"] == "Call" and (x.get("fn") or "") == "QUERYcreate":
                kinds.setdefault(te.get("query_"), "QUERYcreate in %s" % g.name)
            if x["k"] == "Assign" and strip(x["ch"][0]) is not None and strip(x["ch"][0])["k"] == "Member" and \
                    (strip(x["ch"][0]).get("q") or "") == "Expression_::type":
                r = strip(x["ch"][1])
                if r is not None and r["k"] == "Ref" and r["n"] in singles:
                    kinds.setdefault(singles[r["n"]], "->type = %s in %s" % (r["n"], g.name))
    tname = {v: k for k, v in te.items()}
    # kinds that never reach a printer: bookkeeping types of the resolver
    NOT_PRINTED = {"unknown_": "placeholder type of an expression before resolution", "special_": "Type_Bad/Type_Dont_Care markers",
                   "runtime_": "resolver marker for run-time typed results", "generic_": "formal parameter type, not an expression kind",
                   "set_": "LITERAL_EMPTY_SET, compared by identity, never printed as an expression of kind set_",
                   "number_": "type of NUMBER results, not of a literal", "bag_": "formal types"}
    for fname in ("EXPR__out", "EXPRstring"):
        f2 = prog.one(fname)
        if f2 is None:
            res.broke("anchor vanished: %s" % fname)
            continue
        sw2 = find_switch_on(f2, lambda c: "body" in expr_str(strip(c)) and expr_str(strip(c)).endswith("type"))
        have2 = explicit_labels(sw2) if sw2 else set()
        for v, why in sorted(kinds.items(), key=lambda kv: str(kv[0])):
            kn = tname.get(v, str(v))
            if kn in NOT_PRINTED:
                continue
            ok = v in have2
            res.add("R1.expression_kind_has_arm", "R1|src/exppp/pretty_expr.c|%s|%s" % (fname, kn), f2.where(sw2) if sw2 else f2.where(), ok,
                    "expressions of kind %s (%s) have an arm" % (kn, why) if ok else
                    "expressions of kind %s are built (%s) but %s has no arm for them" % (kn, why, fname))
    res.floor("R1", "expression kinds built by libexpress", len(kinds), 12)
    # ---- type bodies
    tb = {}
    for n, stmt in gr.actions.items():
        for c in walk(stmt) if stmt is not None else []:
            if c["k"] == "Call" and (c.get("fn") or "") == "TYPEBODYcreate":
                k = strip(c["ch"][0])
                if k is not None and "val" in k:
                    tb.setdefault(k["val"], n)
    f3 = prog.one("TYPE_body_out")
    if f3 is None:
        res.broke("anchor vanished: TYPE_body_out")
    else:
        sw3 = find_switch_on(f3, lambda c: expr_str(strip(c)).endswith("type"))
        have3 = explicit_labels(sw3) if sw3 else set()
        for v, n in sorted(tb.items()):
            ok = v in have3
            res.add("R1.type_body_has_arm", "R1|src/exppp/pretty_type.c|TYPE_body_out|%s" % tname.get(v, v), f3.where(sw3) if sw3 else f3.where(), ok,
                    "type bodies of kind %s (built by '%s') have an arm" % (tname.get(v, v), gr.names[n]) if ok else
                    "type bodies of kind %s are built by '%s' but TYPE_body_out has no arm for them" % (tname.get(v, v), gr.names[n]))
        res.floor("R1", "type-body kinds built by the grammar", len(tb), 13)
    # ---- statements
    st = {}
    for g in prog.all_functions():
        if g.component != "express":
            continue
        for c in g.calls("STMTcreate"):
            k = strip(c["ch"][0]) if c.get("ch") else None
            if k is not None and "val" in k:
                st.setdefault(k["val"], (k.get("m") or str(k["val"]), g.name))
    f4 = prog.one("STMT_out")
    if f4 is None:
        res.broke("anchor vanished: STMT_out")
    else:
        sw4 = find_switch_on(f4, lambda c: expr_str(strip(c)).endswith("type"))
        have4 = explicit_labels(sw4) if sw4 else set()
        for v, (m, where) in sorted(st.items()):
            ok = v in have4
            res.add("R1.statement_has_arm", "R1|src/exppp/pretty_stmt.c|STMT_out|%s" % m, f4.where(sw4) if sw4 else f4.where(), ok,
                    "statements of kind %s (built in %s) have an arm" % (m, where) if ok else
                    "statements of kind %s are built in %s but STMT_out has no arm: they are silently dropped from the output" % (m, where))
        res.floor("R1", "statement kinds built by libexpress", len(st), 9)
    return built


# --------------------------------------------------------------------------- R2
def lexer_map(prog, res):
    """spelling -> token name (upper-cased keywords and literal operators)"""
    out = {}
    try:
        src = open("/repo/src/express/expscan.l", encoding="utf-8", errors="replace").read()
    except OSError:
        res.broke("anchor vanished: src/express/expscan.l")
        return None
    for m in re.finditer(r'^"((?:[^"\\]|\\.)+)"\s*\{\s*return\s+(TOK_\w+)\s*;\s*\}', src, re.M):
        out[m.group(1).replace("\\\\", "\\")] = m.group(2)
    nlit = len(out)
    g = prog.global_init("keywords", "lexact.c")
    if g is None:
        res.broke("anchor vanished: keywords[] in lexact.c")
        return None
    for row in strip(g["init"][0])["ch"]:
        row = strip(row)
        if row is None or row["k"] != "InitList" or len(row["ch"]) < 2:
            continue
        a, b = strip(row["ch"][0]), strip(row["ch"][1])
        if a is not None and a["k"] == "Str" and b is not None and b.get("m"):
            out[a["s"].upper()] = b["m"]
    res.info["lexer_spellings"] = {"literal_rules": nlit, "keywords": len(out) - nlit}
    res.floor("R2", "literal operator rules in expscan.l", nlit, 25)
    res.floor("R2", "keywords", len(out) - nlit, 100)
    return out


def r2_spelling(prog, res, gr, built):
    lex = lexer_map(prog, res)
    if lex is None:
        return
    # printed spelling per opcode
    f = prog.one("EXPRop__out")
    sw = find_switch_on(f, lambda c: expr_str(strip(c)).endswith("op_code"))
    opv = enum_by_value(prog, "OP_AND")
    oname = {v: k for k, v in opv.items()}
    table = {}
    init = prog.one("EXPop_init")
    if init is None:
        res.broke("anchor vanished: EXPop_init")
        return
    for c in init.calls("EXPop_create"):
        o = strip(c["ch"][0])
        s = strip(c["ch"][1])
        if o is not None and s is not None and s["k"] == "Str":
            table[o["n"]] = s["s"]
    spelled = {}     # op -> (arity, [spelling tokens])
    items = flatten_switch(sw)
    for i, (labs, stmt) in enumerate(items):
        if not labs:
            continue
        body = []
        for _, st in items[i:]:
            if st is not None:
                body.append(st)
                if any(x["k"] == "Break" for x in walk(st)):
                    break
        seq = []
        ar = None
        lit = None
        for st in body:
            for x in walk(st):
                if x["k"] == "Call" and (x.get("fn") or "") in ("EXPRop2__out", "EXPRop2_out", "EXPRop1_out"):
                    ar = 1 if x["fn"] == "EXPRop1_out" else 2
                    a = strip(x["ch"][1])
                    lit = a["s"] if a is not None and a["k"] == "Str" else None
                elif x["k"] == "Call" and (x.get("fn") or "") in ("raw", "wrap") and x.get("ch"):
                    a = strip(x["ch"][0])
                    if a is not None and a["k"] == "Str":
                        seq.append(a["s"].strip())
        for l in labs:
            if isinstance(l, int) and l in oname:
                o = oname[l]
                if ar is not None:
                    spelled[o] = (ar, [(lit if lit is not None else table.get(o, "?")).strip()])
                elif seq:
                    spelled[o] = (0, seq)
    # token,arity -> opcode from the productions
    tok2op = {}
    seqop = {}
    for n, stmt in gr.actions.items():
        if stmt is None:
            continue
        lhs, rhs = gr.rule(n)
        ops = set()
        for c in walk(stmt):
            if c["k"] == "Call" and (c.get("fn") or "") in ("BIN_EXPcreate", "UN_EXPcreate", "TERN_EXPcreate"):
                ops |= op_consts(c["ch"][0])
        if lhs == "rel_op":
            ops |= op_consts(stmt)
        if len(ops) != 1:
            continue
        o = next(iter(ops))
        toks = [t for t in rhs if t.startswith("TOK_") and t not in ("TOK_IDENTIFIER", "TOK_SELF")]
        nts = [t for t in rhs if not t.startswith("TOK_")]
        if lhs == "rel_op":
            tok2op.setdefault((toks[0], 2), set()).add(o)
        elif len(toks) == 1:
            tok2op.setdefault((toks[0], len(nts) if len(nts) in (1, 2) else 2), set()).add(o)
        else:
            seqop.setdefault(tuple(toks), set()).add(o)
    res.info["token_arity_to_opcode"] = {"%s/%d" % k: sorted(v) for k, v in tok2op.items()}
    n = 0
    for o in sorted(built):
        if o not in spelled:
            continue
        ar, sp = spelled[o]
        n += 1
        if ar in (1, 2):
            text = sp[0]
            tok = lex.get(text.upper() if re.fullmatch(r"[A-Za-z_]+", text) else text)
            ops = tok2op.get((tok, ar), set()) | (tok2op.get((tok, 2), set()) if ar == 2 else set())
            # qualifiers (., \) are consumed by one-nonterminal productions
            if not ops and ar == 2:
                ops = tok2op.get((tok, 1), set())
            ok = tok is not None and o in ops
            res.add("R2.operator_round_trip", "R2|src/exppp/pretty_expr.c|EXPRop__out|%s" % o, f.where(sw), ok,
                    "%s is printed as '%s', which the lexer reads as %s and the grammar turns into %s again" % (o, text, tok, o) if ok else
                    "%s is printed as '%s'; the lexer reads that as %s, which the grammar turns into %s — not %s" %
                    (o, text, tok or "no operator token", "/".join(sorted(ops)) or "nothing", o))
        else:
            toks = []
            for piece in sp:
                for part in re.findall(r"\[|\]|:|[^\s\[\]:]+", piece):
                    toks.append(lex.get(part))
            ops = seqop.get(tuple(toks), set())
            ok = o in ops
            res.add("R2.operator_round_trip", "R2|src/exppp/pretty_expr.c|EXPRop__out|%s" % o, f.where(sw), ok,
                    "%s is printed with the delimiters %s = tokens %s of the production that builds it" % (o, sp, toks) if ok else
                    "%s is printed with the delimiters %s (tokens %s); no production with these tokens builds it (%s)" % (o, sp, toks, sorted(ops)))
    res.floor("R2", "operators joined printer/lexer/grammar", n, 25)
    # ---- literal productions build their own kind
    te = prog.enums.get("type_enum") or {}
    singles_kind = {}
    for g in prog.all_functions():
        if g.relfile().endswith("express/factory.c") or g.relfile().endswith("express/expr.c"):
            for x in g.walk():
                if x["k"] == "Assign" and strip(x["ch"][0]) is not None and strip(x["ch"][0])["k"] == "Ref" and strip(x["ch"][0]).get("dk") == "global":
                    r = strip(x["ch"][1])
                    if r is not None and r["k"] == "Call" and (r.get("fn") or "") in ("TYPEcreate",):
                        k = strip(r["ch"][0])
                        singles_kind[strip(x["ch"][0])["n"]] = k.get("n") if k is not None else None
                    if r is not None and r["k"] == "Call" and (r.get("fn") or "") in ("EXPcreate_simple", "EXPcreate"):
                        a = strip(r["ch"][0])
                        if a is not None and a["k"] == "Ref":
                            singles_kind[strip(x["ch"][0])["n"]] = "expr:" + a["n"]
    want = {"TOK_INTEGER_LITERAL": {"integer_"}, "TOK_REAL_LITERAL": {"real_"}, "TOK_STRING_LITERAL": {"string_"},
            "TOK_STRING_LITERAL_ENCODED": {"string_"}, "TOK_BINARY_LITERAL": {"binary_"}, "TOK_LOGICAL_LITERAL": {"logical_", "boolean_"}}
    nl = 0
    for n, stmt in gr.actions.items():
        lhs, rhs = gr.rule(n)
        if lhs != "literal" or len(rhs) != 1 or rhs[0] not in want or stmt is None:
            continue
        nl += 1
        vals = []
        for x in walk(stmt):
            l0 = strip(x["ch"][0]) if x["k"] == "Assign" else None
            if l0 is not None and l0["k"] == "Member" and strip(l0["ch"][0]) is not None and strip(l0["ch"][0])["k"] == "Ref" and \
                    strip(l0["ch"][0])["n"] == "yygotominor":
                r = strip(x["ch"][1])
                if r is not None and r["k"] == "Call" and (r.get("fn") or "") in ("EXPcreate_simple", "EXPcreate"):
                    a = strip(r["ch"][0])
                    vals.append((singles_kind.get(a["n"]) if a is not None and a["k"] == "Ref" else None, expr_str(r)))
                elif r is not None and r["k"] == "Ref" and r.get("dk") == "global":
                    k = singles_kind.get(r["n"], "")
                    kk = singles_kind.get(k[5:]) if k.startswith("expr:") else None
                    vals.append((kk, r["n"]))
                else:
                    vals.append((None, expr_str(r)))
        bad = [t for k, t in vals if k not in want[rhs[0]]]
        ok = bool(vals) and not bad
        res.add("R2.literal_kind", "R2|src/express/generated/expparse.c|literal ::= %s|kind" % rhs[0], gr.fn.where(stmt), ok,
                "a %s always becomes an expression of kind %s (%s)" % (rhs[0], "/".join(sorted(want[rhs[0]])), ", ".join(t for _, t in vals)) if ok else
                "a %s can become %s, an expression of another kind: it is printed back as a different kind of literal" % (rhs[0], ", ".join(bad)))
    res.floor("R2", "literal productions", nl, 4)


# --------------------------------------------------------------------------- R3
IDENT_RE = re.compile(r"^[A-Za-z][A-Za-z0-9_]*$"
    " (R11) an optional part of a construct is printed whenever it is present: for every pointer member path used by a printer function, the disjunction of the guards of its uses must not become unsatisfiable through the *presence* of a sibling pointer member of the same object when it is satisfiable with that sibling absent (`if( l->while_expr ) .. else if( l->until_expr ) ..` prints UNTIL only instead of WHILE, although the parser stores both).")


def r3_placeholders(prog, res, gr):
    stored = {}   # field q -> literal
    for n, stmt in gr.actions.items():
        if stmt is None:
            continue
        for x in walk(stmt):
            if x["k"] == "Assign":
                r = strip(x["ch"][1])
                l = strip(x["ch"][0])
                if r is not None and r["k"] == "Call" and (r.get("fn") or "") == "SYMBOLcreate" and l is not None and l["k"] == "Member":
                    a = strip(r["ch"][0])
                    if a is not None and a["k"] == "Str" and not IDENT_RE.match(a["s"]):
                        stored[l.get("q")] = (a["s"], gr.names[n])
    res.info["placeholders"] = {k: v[0] for k, v in stored.items()}
    res.floor("R3", "placeholder strings stored by grammar actions", len(stored), 1)
    nuse = 0
    fm = {"raw": 0, "wrap": 0, "fprintf": 1, "sprintf": 1, "snprintf": 2}
    for f in prog.all_functions():
        if f.component != "exppp":
            continue
        for c in f.calls():
            nm = c.get("fn") or ""
            if nm not in fm:
                continue
            args = c["ch"][fm[nm]:]
            for a in args:
                for x in walk(a):
                    if x["k"] == "Member" and x.get("q") in stored:
                        lit, rule = stored[x["q"]]
                        nuse += 1
                        guarded = False
                        for (cn, pol) in known_facts(f, c):
                            for y in walk(cn):
                                if y["k"] == "Call" and (y.get("fn") or "").split("::")[-1] in ("strcmp", "__builtin_strcmp") and \
                                        any(strip(z) is not None and strip(z)["k"] == "Str" and strip(z)["s"] == lit for z in y["ch"]):
                                    guarded = True
                                # a helper that performs the comparison
                                if y["k"] == "Call":
                                    for g in prog.callees_of_call(y):
                                        if any(z["k"] == "Str" and z.get("s") == lit for z in g.walk()) and \
                                                any((z.get("fn") or "").split("::")[-1] in ("strcmp", "__builtin_strcmp") for z in g.calls()):
                                            guarded = pol or guarded
                        key = "R3|%s|%s|placeholder:%s" % (f.relfile(), f.name, lit)
                        res.add("R3.placeholder_not_printed", key, f.where(c), guarded,
                                "the field that may hold the placeholder \"%s\" is printed only after a comparison with that string" % lit if guarded else
                                "%s prints %s, which holds the placeholder \"%s\" for '%s': text that is not EXPRESS ends up in the output" %
                                (f.name, expr_str(x), lit, rule))
    res.floor("R3", "printer reads of a field that can hold a placeholder", nuse, 1)


# --------------------------------------------------------------------------- R4
def may_be_shared(gr):
    """nonterminals whose semantic value can be one of the shared literal objects (fixed point over the productions)"""
    shared = set()
    changed = True
    while changed:
        changed = False
        for rn, stmt in gr.actions.items():
            if stmt is None:
                continue
            lhs, rhs = gr.rule(rn)
            if lhs in shared:
                continue
            for x in walk(stmt):
                if x["k"] != "Assign":
                    continue
                l = strip(x["ch"][0])
                if not (l is not None and l["k"] == "Member" and strip(l["ch"][0]) is not None and strip(l["ch"][0])["k"] == "Ref" and
                        strip(l["ch"][0])["n"] == "yygotominor"):
                    continue
                r = strip(x["ch"][1])
                if r is None:
                    continue
                if r["k"] == "Ref" and r.get("dk") == "global" and r["n"].startswith("LITERAL_"):
                    shared.add(lhs)
                    changed = True
                    break
                m = re.match(r"yymsp\[(-?\d+)\]\.minor\.yy\d+$", expr_str(r).replace(" ", ""))
                if m:
                    pos = len(rhs) - 1 + int(m.group(1))
                    if 0 <= pos < len(rhs) and rhs[pos] in shared:
                        shared.add(lhs)
                        changed = True
                        break
    return shared


R4_SITE_OK = {
    ("constant_body ::= identifier TOK_COLON attribute_type TOK_ASSIGNMENT expression semicolon", "type", "identifier"):
        "identifier can be the shared LITERAL_INFINITY only for a constant *named* '?'; such a file is not an accepted schema: the "
        "same action then defines a dictionary entry with a null name and the run stops in DICTdefine/HASHhash (assert) before "
        "anything is resolved or printed",
}


def r4_shared(prog, res, gr):
    n = 0
    shared = may_be_shared(gr)
    res.info["nonterminals_that_may_be_a_shared_literal"] = sorted(shared)
    for rn, stmt in sorted(gr.actions.items()):
        if stmt is None:
            continue
        lhs, rhs = gr.rule(rn)
        for x in walk(stmt):
            if x["k"] != "Assign":
                continue
            l = strip(x["ch"][0])
            if l is None or l["k"] != "Member":
                continue
            # the object written through
            base = strip(l["ch"][0])
            bt = expr_str(base)
            m = re.match(r"yymsp\[(-?\d+|0)\]\.minor\.(yy\d+)$", bt.replace(" ", ""))
            if not m:
                continue
            if "Expression_" not in (l.get("q") or ""):
                continue
            idx = int(m.group(1))
            pos = len(rhs) - 1 + idx
            sym = rhs[pos] if 0 <= pos < len(rhs) else "?"
            n += 1
            if sym not in shared:
                res.add("R4.no_write_through_shared", "R4|src/express/generated/expparse.c|%s|%s<-%s" % (gr.names[rn][:60], l["n"], sym), gr.fn.where(x), True,
                        "%s of the value of %s is assigned; no production of %s can yield a shared literal" % (l["n"], sym, sym))
                continue
            key = "R4|src/express/generated/expparse.c|%s|%s<-%s" % (gr.names[rn][:60], l["n"], sym)
            if (gr.names[rn], l["n"], sym) in R4_SITE_OK:
                res.add("R4.no_write_through_shared", key, gr.fn.where(x), True, "frozen: " + R4_SITE_OK[(gr.names[rn], l["n"], sym)])
                continue
            res.add("R4.no_write_through_shared", key, gr.fn.where(x), False,
                    "the action of '%s' assigns %s of the value of %s, a node it did not create: if that value is one of the shared "
                    "literals (0, 1, ?, PI, E) every other use of the literal changes with it" % (gr.names[rn], l["n"], sym))
    # the helper that marks repetition counts: must copy the singletons first
    h = prog.one("repeat_count")
    if h is not None:
        ws = [x for x in h.walk() if x["k"] == "Assign" and strip(x["ch"][0]) is not None and strip(x["ch"][0])["k"] == "Member" and
              "Expression_" in (strip(x["ch"][0]).get("q") or "")]
        p = h.params[0]["d"] if h.params else None
        for x in ws:
            base = strip(strip(x["ch"][0])["ch"][0])
            if base is None or base.get("d") != p:
                continue
            n += 1
            # every path to the write passes a test excluding the singletons or re-points the parameter to a fresh node
            tests = [y for y in h.walk() if y["k"] == "If"]
            okc = False
            for t in tests:
                txt = expr_str(t["ch"][0])
                if "LITERAL_ZERO" in txt and "LITERAL_ONE" in txt:
                    fresh = [y for y in walk(t["ch"][1]) if y["k"] == "Assign" and strip(y["ch"][0]) is not None and strip(y["ch"][0]).get("d") == p]
                    if fresh:
                        okc = True
            res.add("R4.no_write_through_shared", "R4|src/express/generated/expparse.c|repeat_count|%s<-count" % strip(x["ch"][0])["n"], h.where(x), okc,
                    "the shared literals 0 and 1 are replaced by a fresh node before the count is marked" if okc else
                    "repeat_count() marks its argument without first replacing the shared literals 0/1 by a copy")
            # the remaining, recorded defect: the type of an arbitrary count expression is overwritten
            if strip(x["ch"][0])["n"] == "type":
                res.add("R4.count_keeps_its_type", "R4|src/express/generated/expparse.c|repeat_count|type-overwritten", h.where(x), False,
                        "the count of [elem : count] loses its own type: an identifier or operator expression becomes an 'integer' whose "
                        "u.integer the printer prints ([7 : n] comes back as [7 : 0])")
    res.floor("R4", "writes through expression values in grammar actions (incl. helper)", n, 1)


# --------------------------------------------------------------------------- R5
def r5_real(prog, res):
    f = prog.one("real2exp")
    if f is None:
        res.broke("anchor vanished: real2exp")
        return
    fmt = [c for c in f.calls() if (c.get("fn") or "") in ("snprintf", "sprintf")]
    ok = bool(fmt) and all("#" in (strip(c["ch"][2 if c["fn"] == "snprintf" else 1]) or {}).get("s", "") for c in fmt)
    res.add("R5.point_produced", "R5|src/exppp/exppp.c|real2exp|alternate-form", f.where(fmt[0]) if fmt else f.where(), ok,
            "the number is formatted with the '#' flag, which always emits a decimal point" if ok else
            "real2exp no longer formats with '#': a real without fraction is printed without a decimal point")
    bad = []
    n = 0
    for x in f.walk():
        if x["k"] != "Assign":
            continue
        l = strip(x["ch"][0])
        r = strip(x["ch"][1])
        if l is None or l["k"] != "Unary" or l.get("op") != "*":
            continue
        n += 1
        lt = re.sub(r"[\s()]", "", expr_str(l["ch"][0]))
        for (c, pol) in known_facts(f, x):
            cs = strip(c)
            if cs is not None and cs["k"] == "Binary" and cs.get("op") == "==" and pol:
                a, b = strip(cs["ch"][0]), strip(cs["ch"][1])
                for u, v in ((a, b), (b, a)):
                    if v is not None and v.get("val") == ord(".") and u is not None and u["k"] == "Unary" and u.get("op") == "*" and \
                            re.sub(r"[\s()]", "", expr_str(u["ch"][0])) == lt:
                        bad.append(x)
    res.add("R5.point_kept", "R5|src/exppp/exppp.c|real2exp|point-removed", f.where(bad[0]) if bad else f.where(), not bad,
            "no store overwrites the character that was just tested to be the decimal point (%d character stores examined)" % n if not bad else
            "real2exp overwrites the decimal point when only zeros follow it: 5.0 is printed as the integer literal 5")


# --------------------------------------------------------------------------- R6
def quote_count(node):
    """possible numbers of quote characters emitted by one raw()/wrap() call: set of ints (literal parts only)"""
    fmt = strip(node["ch"][0])
    if fmt is None or fmt["k"] != "Str":
        return None
    base = fmt["s"].count("'")
    alts = {base}
    # %s arguments that are literals / conditional literals
    convs = re.findall(r"%[-+ #0]*(?:\*|\d+)?(?:\.(?:\*|\d+))?[a-zA-Z%]", fmt["s"])
    ai = 1
    for cv in convs:
        if cv == "%%":
            continue
        stars = cv.count("*")
        ai += stars
        a = strip(node["ch"][ai]) if ai < len(node["ch"]) else None
        ai += 1
        if cv.endswith("s") and a is not None:
            if a["k"] == "Str":
                alts = {x + a["s"].count("'") for x in alts}
            elif a["k"] == "Cond":
                l, r = strip(a["ch"][1]), strip(a["ch"][2])
                if l is not None and r is not None and l["k"] == "Str" and r["k"] == "Str":
                    alts = {x + l["s"].count("'") for x in alts} | {x + r["s"].count("'") for x in alts}
    return alts


def r6_quotes(prog, res):
    f = prog.one("breakLongStr")
    mb = prog.one("maybeBreak")
    if f is None or mb is None:
        res.broke("anchor vanished: breakLongStr / maybeBreak")
        return
    totals = set()
    notes = []

    def run(fn, stmts, states, bind):
        """states: list of (count, env) ; env: var d -> True/False ; returns (fallthrough states, returned states)"""
        ret = []
        cur = states
        for s in stmts:
            if s is None or not cur:
                continue
            cur, r = step(fn, s, cur, bind)
            ret += r
        return cur, ret

    def truth(fn, c, env):
        c = strip(c)
        if c is None:
            return None
        if c["k"] == "Ref" and c.get("d") in env:
            return env[c["d"]]
        if c["k"] == "Unary" and c.get("op") == "!":
            t = truth(fn, c["ch"][0], env)
            return None if t is None else not t
        return None

    def calls_in_order(e):
        out = []
        for x in walk(e):
            if x["k"] == "Call":
                out.append(x)
        return out

    def step(fn, s, states, bind):
        k = s["k"]
        if k == "Compound":
            return run(fn, s["ch"], states, bind)
        if k == "DeclStmt":
            out = []
            for (cnt, env) in states:
                env = dict(env)
                for v in s["ch"]:
                    if v is not None and v["k"] == "Var" and v.get("ch"):
                        i = v["ch"][0]
                        if i is not None and isinstance(i.get("val", strip(i).get("val") if strip(i) else None), int) and "bool" in fn.ty(v).lower():
                            env[v["d"]] = bool(i.get("val", strip(i).get("val")))
                out.append((cnt, env))
            return out, []
        if k == "If":
            out, ret = [], []
            for (cnt, env) in states:
                t = truth(fn, s["ch"][0], env)
                for val in ([t] if t is not None else [True, False]):
                    br = s["ch"][1] if val else (s["ch"][2] if len(s["ch"]) > 2 else None)
                    if br is None:
                        out.append((cnt, env))
                    else:
                        o, r = step(fn, br, [(cnt, dict(env))], bind)
                        out += o
                        ret += r
            return out, ret
        if k == "While":
            out, ret = [], []
            for st in states:
                cur = [st]
                iters = [cur]
                for i in range(2):
                    o, r = step(fn, s["ch"][1], cur, bind)
                    ret += r
                    cur = o
                    iters.append(cur)
                # exits after 0, 1 or 2 iterations
                for i, states_i in enumerate(iters):
                    for x in states_i:
                        out.append((x[0], dict(x[1], **{"#iter:%d" % s["i"]: i})))
            return out, ret
        if k == "Return":
            return [], list(states)
        # expression statement
        out = []
        for (cnt, env) in states:
            alts = [(cnt, dict(env))]
            for c in calls_in_order(s):
                nm = c.get("fn") or ""
                if nm in ("raw", "wrap"):
                    q = quote_count(c)
                    if q is None:
                        # data printed through %s-free format: not a quote source unless it is the text itself
                        q = {0}
                    alts = [(a + d, e) for (a, e) in alts for d in q]
                elif nm == "maybeBreak":
                    arg = strip(c["ch"][1])
                    nalts = []
                    for (a, e) in alts:
                        fv = truth(fn, arg, e)
                        o, r = run(mb, mb.body["ch"], [(a, {mb.params[1]["d"]: fv} if fv is not None else {})], None)
                        for (a2, _) in o + r:
                            nalts.append((a2, e))
                    alts = nalts
            if s["k"] == "Assign":
                l, r = strip(s["ch"][0]), strip(s["ch"][1])
                rv = s["ch"][1].get("val", r.get("val") if r is not None else None)
                if l is not None and l["k"] == "Ref" and isinstance(rv, int) and "bool" in fn.ty(l).lower():
                    alts = [(a, dict(e, **{l["d"]: bool(rv)})) for (a, e) in alts]
            out += alts
        return out, []

    o, r = run(f, f.body["ch"], [(0, {})], None)
    ends = o + r
    loops = [x for x in f.walk() if x["k"] == "While"]
    # is the zero-iteration path excluded by an explicit empty-string test that returns?
    empty_guard = False
    # variables holding the length of the parameter: initialised from strlen(<param>)
    pd = f.params[0]["d"] if f.params else None
    # the text the loop walks: the parameter itself, or a local copy the loop cursor starts from
    walked = {pd}
    if loops:
        cond_refs = {y.get("d") for y in walk(loops[0]["ch"][0]) if y["k"] == "Ref"}
        for x in f.walk():
            src_ = None
            if x["k"] == "Var" and x.get("d") in cond_refs and x.get("ch") and x["ch"][0] is not None:
                src_ = strip(x["ch"][0])
            elif x["k"] == "Assign" and strip(x["ch"][0]) is not None and strip(x["ch"][0]).get("d") in cond_refs:
                src_ = strip(x["ch"][1])
            if src_ is not None and src_["k"] == "Ref" and src_.get("dk") == "local":
                walked.add(src_["d"])
    lens = set()
    for x in f.walk():
        i = tgt = None
        if x["k"] == "Var" and x.get("ch"):
            i, tgt = strip(x["ch"][0]), x["d"]
        elif x["k"] == "Assign" and strip(x["ch"][0]) is not None and strip(x["ch"][0])["k"] == "Ref":
            i, tgt = strip(x["ch"][1]), strip(x["ch"][0]).get("d")
        if i is not None and i["k"] == "Call" and (i.get("fn") or "").split("::")[-1] in ("strlen", "__builtin_strlen") and \
                i.get("ch") and strip(i["ch"][0]) is not None and strip(i["ch"][0]).get("d") in walked:
            lens.add(tgt)

    def is_empty_test(c):
        """c is true exactly when the string is empty:  len == 0, !len, *in == 0, !*in"""
        c = strip(c)
        if c is None:
            return False
        if c["k"] == "Paren":
            return is_empty_test(c["ch"][0])
        if c["k"] == "Binary" and c.get("op") == "==":
            a, b = strip(c["ch"][0]), strip(c["ch"][1])
            for u, v in ((a, b), (b, a)):
                if v is not None and v.get("val") == 0 and u is not None:
                    while u["k"] in ("Paren", "Cast") and u.get("ch"):
                        u = strip(u["ch"][0])
                    if u["k"] == "Ref" and u.get("d") in lens:
                        return True
                    if u["k"] == "Unary" and u.get("op") == "*" and strip(u["ch"][0]) is not None and strip(u["ch"][0]).get("d") in walked:
                        return True
        if c["k"] == "Unary" and c.get("op") == "!":
            u = strip(c["ch"][0])
            if u is not None and u["k"] == "Ref" and u.get("d") in lens:
                return True
            if u is not None and u["k"] == "Unary" and u.get("op") == "*" and strip(u["ch"][0]) is not None and strip(u["ch"][0]).get("d") in walked:
                return True
        return False

    def disjuncts(c):
        c = strip(c)
        while c is not None and c["k"] == "Paren":
            c = strip(c["ch"][0])
        if c is not None and c["k"] == "Binary" and c.get("op") == "||":
            return disjuncts(c["ch"][0]) + disjuncts(c["ch"][1])
        return [c]
    for x in f.walk():
        if x["k"] == "If" and any(y["k"] == "Return" for y in walk(x["ch"][1])):
            if any(is_empty_test(d) for d in disjuncts(x["ch"][0])):
                if loops and f.cfg.dominates(f.first_pos(x["ch"][0]), f.first_pos(loops[0]["ch"][0])):
                    empty_guard = True
    bad = []
    for (cnt, env) in ends:
        zero = any(k.startswith("#iter:") and v == 0 for k, v in env.items())
        if zero and empty_guard:
            continue
        if cnt % 2 != 0 or cnt == 0:
            bad.append((cnt, "the loop body never runs (empty string)" if zero else "%s iterations" % [v for k, v in env.items() if k.startswith("#iter:")]))
    res.add("R6.quotes_paired", "R6|src/exppp/exppp.c|breakLongStr|quotes", f.where(), not bad,
            "every path prints the opening and the closing quote of the string literal (%d paths, empty string diverted before the loop: %s)" %
            (len(ends), empty_guard) if not bad else
            "a path through breakLongStr prints %d quote character(s) (%s): the literal is not closed/opened and the output does not parse" % bad[0])
    res.floor("R6", "paths through breakLongStr", len(ends), 4)
    # every other literal format in exppp has balanced quotes within the call
    n = 0
    for g in prog.all_functions():
        if g.component != "exppp" or g.name in ("breakLongStr", "maybeBreak"):
            continue
        for c in g.calls():
            if (c.get("fn") or "") in ("raw", "wrap") and c.get("ch"):
                a = strip(c["ch"][0])
                if a is not None and a["k"] == "Str" and "'" in a["s"]:
                    n += 1
                    ok = a["s"].count("'") % 2 == 0
                    res.add("R6.quotes_paired", "R6|%s|%s|%s" % (g.relfile(), g.name, a["s"][:20]), g.where(c), ok,
                            "quotes balanced within the format" if ok else "format %r prints an unpaired quote" % a["s"])


# --------------------------------------------------------------------------- R7
ASSOCIATIVE = {
    "OP_AND": "logical AND", "OP_OR": "logical OR", "OP_XOR": "logical XOR", "OP_ANDOR": "supertype ANDOR",
    "OP_PLUS": "addition / union / string concatenation", "OP_TIMES": "multiplication / intersection",
    "OP_CONCAT": "complex entity constructor ||",
}


def r7_chain_flattening(prog, res):
    """A printer that omits the parentheses of an operand whose operator equals the enclosing one prints
    `a op ( b op c )` as `a op b op c`, which the (left-associative) grammar reads back as `( a op b ) op c`.
    That is the same expression only for associative operators."""
    eliders = {}
    for f in prog.all_functions():
        if f.component != "exppp" or not f.params:
            continue
        pds = {p_["d"] for p_ in f.params}
        for x in f.walk():
            if x["k"] != "If":
                continue
            cmp_ = [y for y in walk(x["ch"][0]) if y["k"] == "Binary" and y.get("op") in ("!=", "==") and
                    any(z["k"] == "Member" and z.get("n") == "op_code" for z in walk(y)) and
                    any(z["k"] == "Ref" and z.get("d") in pds for z in walk(y))]
            if not cmp_:
                continue
            opens = [c for c in walk(x["ch"][1]) if c["k"] == "Call" and (c.get("fn") or "") in ("raw", "wrap") and c.get("ch")
                     and strip(c["ch"][0]) is not None and strip(c["ch"][0])["k"] == "Str" and "(" in strip(c["ch"][0])["s"]]
            if opens:
                pidx = [i for i, p_ in enumerate(f.params)
                        if any(strip(z) is not None and strip(z)["k"] == "Ref" and strip(z).get("d") == p_["d"] for y in cmp_ for z in y["ch"])]
                if pidx:
                    eliders[f.key] = (f, pidx[0])
    res.info["r7_paren_eliding_printers"] = sorted(f.name for f, _ in eliders.values())
    res.floor("R7.flattened_chain_is_associative", "printers that omit parentheses inside a chain of the same operator", len(eliders), 1)
    opv = enum_by_value(prog, "OP_AND")
    oname = {v: k for k, v in opv.items()}
    n = 0
    for f in prog.all_functions():
        if f.component != "exppp":
            continue
        for sw in [x for x in f.walk() if x["k"] == "Switch" and expr_str(strip(x["ch"][0])).endswith("op_code")]:
            items = flatten_switch(sw)
            for i, (labs, stmt) in enumerate(items):
                if not labs:
                    continue
                body = []
                for _, st in items[i:]:
                    if st is not None:
                        body.append(st)
                        if any(y["k"] in ("Break", "Return") for y in walk(st)):
                            break
                calls = [c for st in body for c in walk(st) if c["k"] == "Call" and c.get("fk") in eliders]
                if not calls:
                    continue
                for l in labs:
                    # a constant `enclosing operator` argument other than this operator never matches: no elision
                    live = []
                    for c in calls:
                        a = call_args(c)
                        pi = eliders[c["fk"]][1]
                        av = strip(a[pi]) if pi < len(a) else None
                        if av is not None and "val" in av and av["val"] != l:
                            continue
                        live.append(c)
                    if not live:
                        continue
                    calls_l = live
                    o = oname.get(l, str(l)) if isinstance(l, int) else str(l)
                    n += 1
                    ok = o in ASSOCIATIVE
                    res.add("R7.flattened_chain_is_associative", "R7|%s|%s|%s" % (f.relfile(), f.name, o), f.where(calls_l[0]), ok,
                            "%s (%s) is associative, so dropping the inner parentheses of a chain keeps the expression" % (o, ASSOCIATIVE.get(o)) if ok else
                            "%s is printed by %s(), which drops the parentheses of an operand with the same operator: `a op ( b op c )` "
                            "comes out as `a op b op c` and is read back as `( a op b ) op c`, a different expression for a "
                            "non-associative operator" % (o, calls_l[0].get("fn")))
    res.floor("R7.flattened_chain_is_associative", "operators routed to a paren-eliding printer", n, 5)


def r8_quote_escape(prog, res):
    """The scanner replaces each pair of apostrophes inside a string literal by one; the printer has to put the pair back, otherwise
    'it''s' is printed as 'it's', which does not parse.  (1) confirm the scanner's step, (2) the printer of un-encoded string
    literals copies the text through a loop that writes an extra apostrophe in front of each apostrophe, and prints only the copy."""
    lx = prog.one("SCANprocess_string")
    if lx is None:
        res.broke("anchor vanished: SCANprocess_string")
        return
    collapses = any(c["k"] == "Call" and (c.get("fn") or "").endswith("strncmp") and any(y["k"] == "Str" and y.get("s") == "''" for y in walk(c)) for c in lx.walk())
    pr = prog.one("breakLongStr")
    if pr is None:
        res.broke("anchor vanished: breakLongStr")
        return
    pd = pr.params[0]["d"] if pr.params else None
    doubles = False
    for x in pr.walk():
        if x["k"] != "If":
            continue
        c = strip(x["ch"][0])
        if c is None or c["k"] != "Binary" or c.get("op") != "==":
            continue
        vals = [strip(y) for y in c["ch"]]
        if not any(v is not None and v.get("val") == 39 for v in vals):
            continue
        stores = [y for y in walk(x["ch"][1]) if y["k"] == "Assign" and strip(y["ch"][0]) is not None and strip(y["ch"][0])["k"] == "Unary" and
                  strip(y["ch"][0]).get("op") == "*" and (strip(y["ch"][1]) or {}).get("val") == 39]
        in_loop = any(a["k"] in ("For", "While", "Do") for a in pr.ancestors(x))
        if stores and in_loop:
            doubles = True
    prints_param = [c for c in pr.calls() if (c.get("fn") or "") in ("raw", "wrap") and any(y["k"] == "Ref" and y.get("d") == pd for a in call_args(c)[1:] for y in walk(a))]
    ok = (not collapses) or (doubles and not prints_param)
    res.add("R8.apostrophes_doubled_again", "R8|src/exppp/exppp.c|breakLongStr|apostrophe", pr.where(prints_param[0]) if prints_param else pr.where(), ok,
            "the scanner collapses '' to ' and the printer writes the pair back before printing (only the escaped copy is printed)" if ok else
            "the scanner (SCANprocess_string) collapses each '' of a string literal to a single ', but breakLongStr %s: a literal containing an "
            "apostrophe is printed as text that does not parse" % ("prints the parameter text itself" if prints_param else "has no step that doubles apostrophes"))


def r9_parameter_list_guarded(prog, res):
    """ALGargs_out prints `name, name : type; ...` and closes with the type of the last group: for an empty list it has no type to print
    (NULL).  Every caller therefore prints the parenthesised list only under a test of the parameter list (a FUNCTION or PROCEDURE
    without formal parameters has no parentheses at all)."""
    g = prog.one("ALGargs_out")
    if g is None:
        res.broke("anchor vanished: ALGargs_out")
        return
    n = 0
    for f in prog.all_functions():
        if f.component != "exppp":
            continue
        for c in f.calls():
            if c.get("fk") != g.key:
                continue
            n += 1
            a0 = strip(call_args(c)[0])
            ap = expr_str(a0) if a0 is not None else "?"
            guarded = any(pol and any(expr_str(strip(y)) == ap for y in walk(cn)) for cn, pol in known_facts(f, c))
            res.add("R9.parameter_list_guarded", "R9|%s|%s|ALGargs_out" % (f.relfile(), f.name), f.where(c), guarded,
                    "the formal parameter list is printed only when `%s` is there" % ap if guarded else
                    "%s prints the parameter list of every %s, also of one without formal parameters: ALGargs_out then passes a NULL type to "
                    "TYPE_head_out (crash), and `name()` would not be EXPRESS anyway" % (f.name, "procedure" if "PROC" in f.name else "algorithm"))
    res.floor("R9.parameter_list_guarded", "callers of ALGargs_out", n, 2)


def r10_group_key(prog, res):
    """ALGargs_out merges adjacent formal parameters into `a, b : t`.  What is printed once per group - `VAR` in front, the type
    behind - holds for every member of the group, so a new group must start exactly when one of those properties differs from the
    previous parameter's.  The group-break condition is evaluated for every combination of (previous, current) values of each
    remembered property: it must be true iff some pair differs."""
    f = prog.one("ALGargs_out")
    if f is None:
        res.broke("anchor vanished: ALGargs_out")
        return
    # remembered properties: prevX = v-><path>
    pairs = {}
    for x in f.walk():
        if x["k"] == "Assign":
            l, r = strip(x["ch"][0]), strip(x["ch"][1])
            while r is not None and r["k"] == "Cast":
                r = strip(r["ch"][0])
            if l is not None and l["k"] == "Ref" and l.get("dk") == "local" and r is not None and r["k"] == "Member" and \
                    not (x.get("m") or x.get("mo") or l.get("m") or l.get("mo")):
                pairs[l["d"]] = (l["n"], expr_str(r))
    # the condition under which a new group is opened: the If whose then-branch prints the optional VAR
    cond = None
    for x in f.walk():
        if x["k"] == "If" and any(y["k"] == "Str" and y.get("s", "").startswith("VAR") for y in walk(x["ch"][1])) and \
                any(y["k"] == "Ref" and y.get("d") in pairs for y in walk(x["ch"][0])):
            cond = x
    if cond is None or len(pairs) < 2:
        res.broke("R10: the group-break condition of ALGargs_out (or the remembered properties) was not found")
        return
    names = sorted(pairs)

    def ev(n, env):
        n = strip(n)
        while n is not None and n["k"] == "Cast":
            n = strip(n["ch"][0])
        if n is None:
            return None
        if n["k"] == "Ref" and n.get("d") in pairs:
            return env[("prev", n["d"])]
        if n["k"] == "Member":
            t = expr_str(n)
            for d_, (_, path) in pairs.items():
                if path == t:
                    return env[("cur", d_)]
            return None
        if "val" in n and n["k"] in ("Int", "Bool"):
            return n["val"]
        if n["k"] == "Unary" and n.get("op") == "!":
            v = ev(n["ch"][0], env)
            return None if v is None else (0 if v else 1)
        if n["k"] == "Binary":
            a, b = ev(n["ch"][0], env), ev(n["ch"][1], env)
            op = n.get("op")
            if op == "&&":
                return 0 if (a == 0 or b == 0) else (None if (a is None or b is None) else 1)
            if op == "||":
                return 1 if (a not in (0, None) or b not in (0, None)) else (None if (a is None or b is None) else 0)
            if a is None or b is None:
                return None
            if op == "!=":
                return 1 if a != b else 0
            if op == "==":
                return 1 if a == b else 0
        return None
    bad = None
    import itertools
    for vals in itertools.product((1, 2), repeat=2 * len(names)):
        env = {}
        for i, d_ in enumerate(names):
            env[("prev", d_)] = vals[2 * i]
            env[("cur", d_)] = vals[2 * i + 1]
        # truthiness of flags: 1 = false-like?  use 0/1 for flag-like properties, 1/2 as two distinct non-null values for pointers
        for d_ in names:
            if "flags" in pairs[d_][1] or "var" in pairs[d_][1].lower().split(".")[-1]:
                env[("prev", d_)] -= 1
                env[("cur", d_)] -= 1
        want = 1 if any(env[("prev", d_)] != env[("cur", d_)] for d_ in names) else 0
        got = ev(cond["ch"][0], env)
        if got is None:
            bad = ("the condition cannot be evaluated", env)
            break
        if (1 if got else 0) != want:
            bad = ("it is %s" % ("true" if got else "false"), env)
            break
    ok = bad is None
    desc = ""
    if bad:
        desc = ", ".join("%s = %s / %s = %s" % (pairs[d_][0], bad[1][("prev", d_)], pairs[d_][1], bad[1][("cur", d_)]) for d_ in names)
    res.add("R10.group_breaks_when_a_printed_property_changes", "R10|src/exppp/pretty_alg.c|ALGargs_out|group-key", f.where(cond), ok,
            "a new parameter group starts exactly when %s differ from the previous parameter's" % " or ".join(p_[1] for p_ in pairs.values()) if ok else
            "for %s a new group should start %s, but %s: parameters with different VAR-ness / type are merged into one `a, b : t` group, "
            "so the printed declaration is not the one that was read" % (desc, "(something differs)" if any(bad[1][("prev", d_)] != bad[1][("cur", d_)] for d_ in names) else "only if something differs", bad[0]))


def r11_optional_parts_independent(prog, res):
    """The parser fills the optional parts of a construct independently of each other (a REPEAT may carry an increment, a WHILE and an
    UNTIL control all at once; an entity a supertype constraint and a subtype list).  A part that is present must be printed whatever
    its siblings are.  For every pointer member path F = o->...->f that a printer function passes to an emitting call: take the
    disjunction, over all such call sites in the function, of the conjunction of their enclosing conditions; with `F is non-null` set
    true, and every condition that is not a nullness test of a *sibling* pointer member of the same object left free (kind dispatch,
    first-time flags, list iteration), the disjunction must be satisfiable for every combination of the siblings being null / non-null - more exactly, no sibling's *presence* may make it unsatisfiable when its absence does not.
    `if( l->while_expr ) ... else if( l->until_expr ) ...` fails it: with while_expr present there is no way to reach the UNTIL emission."""
    from engines import call_args as _args, enclosing_conditions, is_null_const
    import itertools

    cur_fn = [None]

    def atomize(c, atoms):
        """-> nested tuple formula over atom names"""
        c = strip(c)
        while c is not None and c["k"] in ("Paren", "Cast") and c.get("ch") and "val" not in c:
            c = strip(c["ch"][0])
        if c is None:
            return ("atom", "?")
        if c["k"] == "Unary" and c.get("op") == "!":
            return ("not", atomize(c["ch"][0], atoms))
        if c["k"] == "Binary" and c.get("op") in ("&&", "||"):
            return ("and" if c["op"] == "&&" else "or", atomize(c["ch"][0], atoms), atomize(c["ch"][1], atoms))
        if c["k"] == "Binary" and c.get("op") in ("==", "!="):
            l, r = c["ch"]
            if is_null_const(r) or is_null_const(l):
                x = atomize(l if is_null_const(r) else r, atoms)
                return ("not", x) if c["op"] == "==" else x
        if "val" in c and isinstance(c["val"], int):
            return ("const", bool(c["val"]))
        if c["k"] == "Ref" and c.get("dk") == "local" and cur_fn[0] is not None:
            # a local that is initialised once and never assigned again stands for its initialiser
            fn_ = cur_fn[0]
            ini = [v_ for v_ in fn_.walk() if v_["k"] == "Var" and v_.get("d") == c.get("d") and v_.get("ch") and v_["ch"][0] is not None]
            asg = [a_ for a_ in fn_.walk() if a_["k"] in ("Assign", "Unary") and a_.get("ch") and strip(a_["ch"][0]) is not None and
                   strip(a_["ch"][0])["k"] == "Ref" and strip(a_["ch"][0]).get("d") == c.get("d") and
                   (a_["k"] == "Assign" or "++" in (a_.get("op") or "") or "--" in (a_.get("op") or ""))]
            addr = [u_ for u_ in fn_.walk() if u_["k"] == "Unary" and u_.get("op") == "&" and u_.get("ch") and strip(u_["ch"][0]) is not None and
                    strip(u_["ch"][0]).get("d") == c.get("d")]
            if len(ini) == 1 and not asg and not addr and c.get("d") not in atoms.get("#open", ()):
                atoms.setdefault("#open", set()).add(c.get("d"))
                r_ = atomize(ini[0]["ch"][0], atoms)
                atoms["#open"].discard(c.get("d"))
                return r_
        ap = access_path(c) if c["k"] == "Member" else None
        key = "P:" + ap if ap else "X:" + expr_str(c)
        atoms[key] = c
        return ("atom", key)

    def ev(fm, asg):
        """three-valued: True / False / None (depends on a free atom)"""
        t = fm[0]
        if t == "const":
            return fm[1]
        if t == "atom":
            return asg.get(fm[1])
        if t == "not":
            v = ev(fm[1], asg)
            return None if v is None else not v
        a, b = ev(fm[1], asg), ev(fm[2], asg)
        if t == "and":
            if a is False or b is False:
                return False
            return True if a is True and b is True else None
        if a is True or b is True:
            return True
        return False if a is False and b is False else None

    n = 0
    nsib = 0
    for f in prog.all_functions():
        if f.component != "exppp":
            continue
        cur_fn[0] = f
        sites = {}
        for m in f.walk():
            # every use of a pointer member path outside a controlling condition: call argument, initialiser of the list-iteration
            # macros, right-hand side
            if m["k"] != "Member" or "*" not in f.ty(m):
                continue
            par = f.parent.get(m["i"])
            if par is not None and par["k"] == "Member":
                continue
            ap = access_path(m)
            if not ap or "." not in ap:
                continue
            in_cond = False
            child = m
            for a in f.ancestors(m):
                ch = a.get("ch") or []
                if (a["k"] in ("If", "While", "Cond", "Do") and ch and ch[0] is child) or (a["k"] == "For" and len(ch) > 1 and ch[1] is child) or \
                        (a["k"] == "Binary" and a.get("op") in ("&&", "||")) or (a["k"] == "Unary" and a.get("op") == "!"):
                    in_cond = True
                    break
                if a["k"] == "Assign" and ch and ch[0] is child:
                    in_cond = True      # a store into the member, not a use of the part
                    break
                child = a
            if not in_cond:
                sites.setdefault(ap, []).append(m)
        for ap, calls in sorted(sites.items()):
            atoms = {}
            guards = []
            for c in calls:
                g = ("const", True)
                for cond, br in enclosing_conditions(f, c):
                    x = atomize(cond, atoms)
                    g = ("and", g, x if br == "T" else ("not", x))
                guards.append(g)
            base = ap.split(".")[0]
            sibs = sorted(k for k, nd in atoms.items() if k.startswith("P:") and k[2:] != ap and k[2:].split(".")[0] == base and "*" in f.ty(nd))
            n += 1
            if not sibs:
                continue
            nsib += 1
            bad = None
            for si, sib in enumerate(sibs):
                others = sibs[:si] + sibs[si + 1:]
                for vals in itertools.product((True, False), repeat=len(others)):
                    asg = dict(zip(others, vals))
                    asg["P:" + ap] = True
                    # with the sibling absent the part can be printed (some guard not definitely false; other conditions are free),
                    # with the sibling present it cannot: the part is printed only *instead of* its sibling.  (The converse - printed
                    # only together with a sibling - is how the printers select a kind, e.g. inverse attributes by inverse_symbol.)
                    if any(ev(g, dict(asg, **{sib: False})) is not False for g in guards) and \
                            all(ev(g, dict(asg, **{sib: True})) is False for g in guards):
                        bad = {sib: True}
                        break
                if bad:
                    break
            res.add("R11.optional_parts_independent", "R11|%s|%s|%s" % (f.relfile(), f.name, ap.split(":", 1)[-1]), f.where(calls[0]), bad is None,
                    "`%s` is printed whenever it is present, whatever its sibling parts are" % ap.split(":", 1)[-1] if bad is None else
                    "%s prints `%s` only when %s: a construct that carries both parts loses this one in the output, and the printed schema "
                    "means something else" % (f.name, ap.split(":", 1)[-1],
                                              " and ".join("`%s` is absent" % (k[2:].split(":", 1)[-1],) for k in bad)))
    res.info["r11_emitted_member_paths"] = n
    res.floor("R11.optional_parts_independent", "printed member paths guarded by a sibling's presence", nsib, 3)
    # the same for keywords that stand for a flag of the printed object (`tb->flags.unique` -> " UNIQUE"): the parser sets the flags of
    # one `flags` struct independently, so a keyword that is printed for its flag must not depend on a sibling flag being clear
    nf = 0
    for f in prog.all_functions():
        if f.component != "exppp":
            continue
        cur_fn[0] = f
        emits = []
        for c in f.calls():
            if (c.get("fn") or "").rsplit("::", 1)[-1] not in ("wrap", "raw", "exp_output"):
                continue
            a = _args(c)
            s0 = strip(a[0]) if a else None
            if s0 is None or s0["k"] != "Str" or not re.search(r"[A-Z]{3,}", s0.get("s") or ""):
                continue
            emits.append((c, (s0.get("s") or "").strip()))
        if not emits:
            continue
        atoms = {}
        guards = []
        for c, kw in emits:
            g = ("const", True)
            for cond, br in enclosing_conditions(f, c):
                x = atomize(cond, atoms)
                g = ("and", g, x if br == "T" else ("not", x))
            guards.append((c, kw, g))
        flags = sorted(k for k, nd in atoms.items() if k.startswith("P:") and ".flags." in k and "*" not in f.ty(nd))
        for F in flags:
            mine = [(c, kw, g) for c, kw, g in guards if ev(g, {F: False}) is False and ev(g, {F: True}) is not False]
            if not mine:
                continue
            sibs = [k for k in flags if k != F and k.rsplit(".", 1)[0] == F.rsplit(".", 1)[0]]
            nf += 1
            bad = None
            for si, sib in enumerate(sibs):
                others = sibs[:si] + sibs[si + 1:]
                for vals in itertools.product((True, False), repeat=len(others)):
                    asg = dict(zip(others, vals))
                    asg[F] = True
                    if any(ev(g, dict(asg, **{sib: False})) is not False for _c, _k, g in mine) and \
                            all(ev(g, dict(asg, **{sib: True})) is False for _c, _k, g in mine):
                        bad = sib
                        break
                if bad:
                    break
            res.add("R11.flag_keywords_independent", "R11f|%s|%s|%s" % (f.relfile(), f.name, F.split(":", 1)[-1]), f.where(mine[0][0]), bad is None,
                    "the keyword `%s` printed for `%s` does not depend on a sibling flag" % (mine[0][1], F[2:].split(":", 1)[-1]) if bad is None else
                    "%s prints `%s` for `%s` only when `%s` is clear: a declaration that carries both flags loses this keyword and the "
                    "printed schema means something else" % (f.name, mine[0][1], F[2:].split(":", 1)[-1], bad[2:].split(":", 1)[-1]))
    res.floor("R11.flag_keywords_independent", "keywords printed for a flag of the printed object", nf, 4)


LITERAL_KIND = {"Type_Integer": "integer_", "Type_Real": "real_", "Type_Binary": "binary_", "Type_Logical": "logical_", "Type_Boolean": "boolean_",
                "Type_String": "string_", "Type_String_Encoded": "string_"}


def r12_literal_stored_where_read(prog, res, gr):
    """The value of a literal is written by the grammar action that builds the expression (`A->u.integer = ..`, `A->symbol.name = ..`)
    and read by the printer's arm for that kind of expression.  Writer and reader must agree on the member: every member of the
    expression that the arm reads for a literal of kind K is one that the `literal ::= TOK_K_LITERAL` action stores.  The action for
    binary literals stored the text in symbol.name while both exppp printers (and exp2python) read u.binary: `%1011` was printed as
    `%(null)`."""
    te = prog.enums.get("type_enum") or {}

    def members(node, base_d):
        """members of the expression `base` that node touches: u.<m> and symbol.name"""
        out = set()
        for y in walk(node):
            if y["k"] != "Member":
                continue
            ap = access_path(y) or ""
            parts = ap.split(".")
            if parts[0] != base_d:
                continue
            if len(parts) == 3 and parts[1] == "u":
                out.add("u." + parts[2])
            if len(parts) == 3 and parts[1] == "symbol" and parts[2] == "name":
                out.add("symbol.name")
        return out
    # writers
    wr = {}
    for n, stmt in gr.actions.items():
        if stmt is None:
            continue
        lhs, rhs = gr.rule(n)
        if lhs != "literal" or len(rhs) != 1 or not rhs[0].startswith("TOK_"):
            continue
        created = None
        for a in walk(stmt):
            if a["k"] == "Assign" and strip(a["ch"][1]) is not None and strip(a["ch"][1])["k"] == "Call" and strip(a["ch"][1]).get("fn") == "EXPcreate_simple":
                t = [y.get("n") for y in walk(a["ch"][1]) if y["k"] == "Ref" and (y.get("n") or "").startswith("Type_")]
                created = (access_path(a["ch"][0]), t[0] if t else None)
        if created is None or created[1] not in LITERAL_KIND:
            continue
        base = created[0]
        w = set()
        for a in walk(stmt):
            if a["k"] == "Assign":
                ap = access_path(a["ch"][0]) or ""
                if ap.startswith(base + ".u.") and ap.count(".") == base.count(".") + 2:
                    w.add("u." + ap.rsplit(".", 1)[1])
                if ap == base + ".symbol.name":
                    w.add("symbol.name")
        wr.setdefault(LITERAL_KIND[created[1]], {"tokens": [], "w": set(), "where": gr.fn.where(stmt)})
        wr[LITERAL_KIND[created[1]]]["tokens"].append(rhs[0])
        wr[LITERAL_KIND[created[1]]]["w"] |= w
    n = 0
    for fname in ("EXPR__out", "EXPRstring"):
        f = next((x for x in prog.fn(fname) if x.component == "exppp"), None)
        if f is None or not f.params:
            res.broke("anchor vanished: exppp %s" % fname)
            continue
        sw = [x for x in f.walk() if x["k"] == "Switch"]
        if not sw:
            res.broke("R12: no switch over the expression kind in %s" % fname)
            continue
        items = flatten_switch(sw[0])
        ed = f.params[0]["d"]
        for kind, info in sorted(wr.items()):
            val = te.get(kind)
            idx = next((i for i, (labs, _) in enumerate(items) if val in labs), None)
            if idx is None:
                continue
            reads = set()
            for labs, st in items[idx:]:
                if st is None:
                    continue
                if st["k"] == "Break":
                    break
                reads |= members(st, ed)
                if any(y["k"] == "Break" for y in [st]):
                    break
            n += 1
            miss = sorted(reads - info["w"] - {"symbol.name"} if "symbol.name" not in reads else reads - info["w"])
            res.add("R12.literal_stored_where_read", "R12|%s|%s|%s" % (f.relfile(), fname, kind), f.where(items[idx][1]) if items[idx][1] else f.where(), not miss,
                    "%s literals: the printer reads %s, all stored by the grammar action(s) for %s" % (kind, sorted(reads), info["tokens"]) if not miss else
                    "%s literals: %s reads `e->%s`, but the grammar action for %s (%s) stores the value in %s: the printed literal is not the one "
                    "in the source (a NULL string is printed as `(null)`)" % (kind, fname, miss[0].replace(".", "."), info["tokens"], info["where"], sorted(info["w"]) or "nothing"))
    res.floor("R12.literal_stored_where_read", "(printer, literal kind) pairs", n, 8)


def r13_constant_spelling(prog, res, gr):
    """The built-in constants are singletons (LITERAL_PI, LITERAL_E, LITERAL_INFINITY ...) that the grammar yields for one keyword each
    (`constant ::= TOK_E { A = LITERAL_E; }`).  Where a printer recognises such a singleton (`e == LITERAL_E`) and prints a fixed word
    for it, that word must be the keyword the lexer maps to the token of that production: `CONST_E`, not `E` - `E` read back is a
    reference to something called e."""
    lex = lexer_map(prog, res)
    if lex is None:
        return
    tok_of = {}
    for n, stmt in gr.actions.items():
        if stmt is None:
            continue
        lhs, rhs = gr.rule(n)
        if len(rhs) != 1 or not rhs[0].startswith("TOK_"):
            continue
        for a in walk(stmt):
            if a["k"] == "Assign":
                r = strip(a["ch"][1])
                while r is not None and r["k"] == "Cast" and r.get("ch"):
                    r = strip(r["ch"][0])
                if r is not None and r["k"] == "Ref" and (r.get("n") or "").startswith("LITERAL_"):
                    tok_of[r["n"]] = rhs[0]
    words = {}
    for w, t in lex.items():
        words.setdefault(t, set()).add(w)
    n = 0
    for f in prog.all_functions():
        if f.component != "exppp":
            continue
        for x in f.walk():
            if x["k"] != "If":
                continue
            c = strip(x["ch"][0])
            if c is None or c["k"] != "Binary" or c.get("op") != "==":
                continue
            lit = next((strip(y) for y in c["ch"] if strip(y) is not None and strip(y)["k"] == "Ref" and (strip(y).get("n") or "").startswith("LITERAL_")), None)
            if lit is None or lit["n"] not in tok_of:
                continue
            printed = [strip(call_args(y)[-1 if (y.get("fn") or "") in ("strcpy",) else 0]) for y in walk(x["ch"][1])
                       if y["k"] == "Call" and (y.get("fn") or "") in ("wrap", "raw", "strcpy") and call_args(y)]
            printed = [p_.get("s") for p_ in printed if p_ is not None and p_["k"] == "Str"]
            if not printed:
                continue
            n += 1
            want = words.get(tok_of[lit["n"]], set())
            ok = printed[0].upper() in want
            res.add("R13.constant_spelling_round_trip", "R13|%s|%s|%s" % (f.relfile(), f.name, lit["n"]), f.where(x), ok,
                    "%s is printed as `%s`, the keyword the lexer reads as %s" % (lit["n"], printed[0], tok_of[lit["n"]]) if ok else
                    "%s is printed as `%s`, but the lexer yields %s (the token of `constant ::= %s`) for %s: the printed schema refers to an "
                    "identifier `%s` instead of the constant" % (lit["n"], printed[0], tok_of[lit["n"]], tok_of[lit["n"]], sorted(want), printed[0].lower()))
    res.floor("R13.constant_spelling_round_trip", "built-in constants with a fixed spelling in exppp", n, 4)


def r14_statement_fields_written(prog, res, gr):
    """A printer arm for one kind of statement may read, of the statement node itself, only what the constructor of that kind stores:
    each constructor (`ALIAScreate`, `LOOPcreate`, ...) calls STMTcreate( STMT_x ) and assigns `s->u.<x>->...`; STMTcreate sets the
    symbol's line and file but no name.  `STMT_out` read `s->symbol.name` for ALIAS - a field nothing writes - and printed `(null)`.
    Checked for the first two components below the node (`symbol.name`, `u.alias`, ...)."""
    # the statement kinds are macros (STMT_ALIAS 0x80 ...): name and value are taken from the constructor calls
    te = {}
    for g in prog.all_functions():
        if g.component == "express":
            for c in g.calls("STMTcreate"):
                a = strip(call_args(c)[0]) if call_args(c) else None
                if a is not None and (a.get("m") or "").startswith("STMT_") and isinstance(a.get("val"), int):
                    te[a["m"]] = a["val"]
    f = next((x for x in prog.fn("STMT_out") if x.component == "exppp"), None)
    if not te or f is None or not f.params:
        res.broke("anchor vanished: STMT_out / STMTcreate( STMT_x ) calls")
        return
    # writers per kind
    common = set()
    g0 = prog.one("STMTcreate")
    writers = {}
    for g in prog.all_functions():
        if g.component != "express":
            continue
        for c in g.calls("STMTcreate"):
            a = strip(call_args(c)[0]) if call_args(c) else None
            kind = a.get("m") if a is not None else None
            if kind is None or kind not in te:
                continue
            par = g.parent.get(c["i"])
            while par is not None and par["k"] in ("Cast", "Paren"):
                par = g.parent.get(par["i"])
            var = None
            if par is not None and par["k"] == "Assign":
                var = access_path(par["ch"][0])
            elif par is not None and par["k"] == "Var":
                var = par["d"]
            if var is None:
                continue
            w = writers.setdefault(kind, set())
            for x in g.walk():
                if x["k"] == "Assign":
                    ap = access_path(x["ch"][0]) or ""
                    if ap.startswith(var + "."):
                        parts = ap[len(var) + 1:].split(".")
                        w.add(".".join(parts[:2]))
    # ... and what the grammar action adds to the node it got from the constructor (`A = PCALLcreate(C); A->symbol = *(B);`)
    ctor_kind = {}
    for g in prog.all_functions():
        if g.component == "express":
            for c in g.calls("STMTcreate"):
                a = strip(call_args(c)[0]) if call_args(c) else None
                if a is not None and a.get("m") in te:
                    ctor_kind[g.name] = a["m"]
    for stmt in gr.actions.values():
        if stmt is None:
            continue
        made = {}
        for x in walk(stmt):
            if x["k"] == "Assign":
                r = strip(x["ch"][1])
                while r is not None and r["k"] == "Cast" and r.get("ch"):
                    r = strip(r["ch"][0])
                if r is not None and r["k"] == "Call" and r.get("fn") in ctor_kind:
                    made[access_path(x["ch"][0])] = ctor_kind[r["fn"]]
        for x in walk(stmt):
            if x["k"] == "Assign":
                ap = access_path(x["ch"][0]) or ""
                for var, kind in made.items():
                    if var and ap.startswith(var + "."):
                        parts = ap[len(var) + 1:].split(".")
                        writers.setdefault(kind, set()).add(".".join(parts[:2]))
                        if parts == ["symbol"]:
                            writers[kind] |= {"symbol.name", "symbol.line", "symbol.filename"}
    if g0 is not None:
        for x in g0.walk():
            if x["k"] == "Assign":
                ap = access_path(x["ch"][0]) or ""
                parts = ap.split(".")
                if len(parts) >= 2 and parts[1] in ("type", "symbol", "u"):
                    common.add(".".join(parts[1:3]))
            # SYMBOLset( s ) stores line and file name, not a name
        common |= {"symbol.line", "symbol.filename", "type"}
    sw = [x for x in f.walk() if x["k"] == "Switch"]
    if not sw:
        res.broke("R14: no switch over the statement kind in STMT_out")
        return
    items = flatten_switch(sw[0])
    sd = f.params[0]["d"]
    n = 0
    for kind, val in sorted(te.items()):
        if kind not in writers:
            continue
        idx = next((i for i, (labs, _) in enumerate(items) if val in labs), None)
        if idx is None:
            continue
        reads = {}
        for labs, st in items[idx:]:
            if st is None:
                continue
            if st["k"] == "Break":
                break
            for y in walk(st):
                if y["k"] == "Member":
                    ap = access_path(y) or ""
                    if ap.startswith(sd + ".") and ap.count(".") >= 2:
                        parts = ap[len(sd) + 1:].split(".")
                        reads.setdefault(".".join(parts[:2]), y)
        n += 1
        w = writers[kind] | common
        miss = sorted(r for r in reads if r not in w and r.split(".")[0] in ("symbol", "u"))
        res.add("R14.statement_fields_written", "R14|src/exppp/pretty_stmt.c|STMT_out|%s" % kind, f.where(reads[miss[0]]) if miss else f.where(items[idx][1]), not miss,
                "%s: the arm reads %s of the statement, all stored by its constructor" % (kind, sorted(reads)) if not miss else
                "%s: the arm reads `s->%s`, which neither STMTcreate nor the constructor of this kind stores (they store %s): the printer "
                "prints an unset field" % (kind, miss[0].replace(".", "."), sorted(writers[kind])))
    res.floor("R14.statement_fields_written", "statement kinds with a constructor and a printer arm", n, 6)


def r15_linelength_never_skips_content(prog, res):
    """The line length (-l) decides where lines break, never *what* is printed.  A value computed from exppp_linelength may therefore not
    decide an early `return` of a printer function (an exit that skips the rest of the clause).  Flow-sensitive: a definition of a
    local counts only if it reaches the test (reaching definitions on the CFG); a callee whose returned value is computed from
    exppp_linelength taints the variable it is assigned to.  ENTITYattrs_out tests the width of the name column to find out whether
    there is any attribute to print; clamping that width to a third of the line *before* the test makes it 0 for -l 18..20 and the
    entity loses all its attributes."""
    SRC = "exppp_linelength"

    def tainted_expr(fn, n, tv):
        return any((y["k"] == "Ref" and (y.get("n") == SRC or y.get("d") in tv)) or
                   (y["k"] == "Call" and y.get("fk") in ret_tainted) for y in walk(n))

    # functions whose return value is computed from the line length (flow-insensitive inside the callee, one level)
    ret_tainted = set()
    for _ in range(2):
        for g in prog.all_functions():
            if g.component != "exppp" or g.key in ret_tainted:
                continue
            tv = set()
            changed = True
            while changed:
                changed = False
                for a in g.walk():
                    d = None
                    if a["k"] == "Assign" and strip(a["ch"][0]) is not None and strip(a["ch"][0])["k"] == "Ref":
                        d, rhs = strip(a["ch"][0]).get("d"), a["ch"][1]
                    elif a["k"] == "Var" and a.get("ch") and a["ch"][0] is not None:
                        d, rhs = a["d"], a["ch"][0]
                    if d and d not in tv and tainted_expr(g, rhs, tv):
                        tv.add(d)
                        changed = True
            if any(r["k"] == "Return" and r.get("ch") and r["ch"][0] is not None and tainted_expr(g, r["ch"][0], tv) for r in g.walk()):
                ret_tainted.add(g.key)
    res.info["r15_functions_returning_a_layout_value"] = sorted(k.split("(")[0] for k in ret_tainted)
    n = 0
    for f in prog.all_functions():
        if f.component != "exppp" or f.cfg is None or f.relfile().endswith("exppp.c"):
            continue
        for x in f.walk():
            if x["k"] != "If" or x["ch"][1] is None:
                continue
            then = x["ch"][1]
            stmts = then["ch"] if then["k"] == "Compound" else [then]
            if not (stmts and stmts[-1] is not None and stmts[-1]["k"] == "Return") or any(y["k"] == "Call" for s_ in stmts for y in walk(s_)):
                continue     # only bare early exits
            cond = x["ch"][0]
            refs = [y for y in walk(cond) if y["k"] == "Ref" and y.get("dk") in ("local", "param")]
            if not refs:
                continue
            n += 1
            bad = None
            if any(y["k"] == "Ref" and y.get("n") == SRC for y in walk(cond)):
                bad = ("the line length itself", x["l"])
            tpos = f.cfg.locate(x["ch"][0]) or f.first_pos(x["ch"][0])
            for r in refs:
                defs = [a for a in f.walk() if (a["k"] == "Assign" and strip(a["ch"][0]) is not None and strip(a["ch"][0]).get("d") == r["d"]) or
                        (a["k"] == "Var" and a.get("d") == r["d"] and a.get("ch") and a["ch"][0] is not None)]
                ids = {a["i"] for a in defs}

                def is_def(nd, ids=ids):
                    return any(z["i"] in ids for z in walk(nd))
                for a in defs:
                    rhs = a["ch"][1] if a["k"] == "Assign" else a["ch"][0]
                    if not tainted_expr(f, rhs, set()):
                        continue
                    apos = f.cfg.locate(a)
                    if apos is not None and tpos is not None and f.cfg.reaches(apos, tpos, is_stop=is_def):
                        bad = bad or ("`%s = %s` (line %s)" % (r["n"], expr_str(rhs)[:50], a["l"]), a["l"])
            res.add("R15.linelength_never_skips_content", "R15|%s|%s|%d" % (f.relfile(), f.name, x["l"] - f.line), f.where(x), bad is None,
                    "the early exit `%s` does not depend on the line length" % expr_str(cond)[:50] if bad is None else
                    "the early exit `if( %s ) return;` is decided by a value computed from exppp_linelength - %s: for some line lengths the rest of "
                    "the clause is not printed at all, for others it is" % (expr_str(cond)[:50], bad[0]))
    res.floor("R15.linelength_never_skips_content", "bare early exits of printer functions", n, 8)


def r16_reference_spelling_kept(prog, res):
    """`USE FROM a (x AS y)` makes the entity x of schema a visible in the using schema under the name y, and only under that name.  A
    reference `p : y` is parsed into a reference node that carries the spelling `y`.  The printer can print `y` again only if that
    spelling survives resolution.  TYPE_resolve looks the name up (through the renames) and *replaces* the reference node by the object
    found (`*typeaddr = ref_type`): every site where the out-parameter is overwritten with the look-up result is an obligation `the
    spelling of the reference is kept` (it is, if the function also stores the reference's symbol - none does today).  The printer then
    has only the object's own name: `p : y` is printed as `p : x`, which does not resolve in the printed schema."""
    f = prog.one("TYPE_resolve")
    if f is None or not f.params:
        res.broke("anchor vanished: TYPE_resolve")
        return
    pd = f.params[0]["d"]
    looked = set()
    for a in f.walk():
        if a["k"] == "Assign":
            r = strip(a["ch"][1])
            while r is not None and r["k"] == "Cast" and r.get("ch"):
                r = strip(r["ch"][0])
            l = strip(a["ch"][0])
            if r is not None and r["k"] == "Call" and (r.get("fn") or "").startswith("SCOPEfind") and l is not None and l["k"] == "Ref":
                looked.add(l["d"])
    keeps = any(a["k"] == "Assign" and strip(a["ch"][0]) is not None and strip(a["ch"][0])["k"] == "Member" and
                any(y["k"] == "Member" and y.get("n") == "symbol" for y in walk(a["ch"][1])) and
                any(y["k"] == "Ref" and y.get("d") in looked for y in walk(a["ch"][0])) for a in f.walk())
    n = 0
    for a in f.walk():
        if a["k"] != "Assign":
            continue
        l = strip(a["ch"][0])
        if l is None or l["k"] != "Unary" or l.get("op") != "*" or strip(l["ch"][0]) is None or strip(l["ch"][0]).get("d") != pd:
            continue
        if not any(y["k"] == "Ref" and y.get("d") in looked for y in walk(a["ch"][1])):
            continue
        n += 1
        what = "entity" if any(y["k"] == "Member" and y.get("n") == "entity" for y in walk(a["ch"][1])) else "type"
        res.add("R16.reference_spelling_kept", "R16|src/express/resolve.c|TYPE_resolve|%s-reference-replaced" % what, f.where(a), keeps,
                "the reference's own symbol is stored with the object it resolves to" if keeps else
                "the reference node is replaced by the %s found through the (possibly renaming) look-up and its spelling is dropped: a reference "
                "through a USE/REFERENCE ... AS name is printed under the original name, which is not visible in the printed schema" % what)
    res.floor("R16.reference_spelling_kept", "sites where TYPE_resolve replaces a reference by the object found", n, 2)


def r17_repeat_mark_keeps_kind(prog, res):
    """The count of a repeated aggregate element (`[elem : count]`) is marked by overwriting the count expression's `type` with
    Type_Repeat (an INTEGER type with the repeat flag).  The `type` of an expression is also what says which kind of expression it is:
    both printers and the resolver dispatch on it.  The mark therefore keeps the expression printable only when the expression *is*
    an integer literal: on every path to a store `X->type = Type_Repeat`, X must have been created as an integer literal
    (EXPcreate_simple(Type_Integer)) or tested to have the type Type_Integer.  For any other count (`[0 : n]`, `[x : n + 1]`) the
    expression turns into the integer literal 0 in the printed schema and is never resolved."""
    import pathstate
    n = 0

    def base_decl(m):
        b = strip(m["ch"][0]) if m.get("ch") else None
        return b.get("d") if b is not None and b["k"] == "Ref" else None

    def is_int_create(v):
        v = strip(v)
        while v is not None and v["k"] in ("Cast", "Paren") and v.get("ch"):
            v = strip(v["ch"][0])
        return v is not None and v["k"] == "Call" and (v.get("fn") or "") == "EXPcreate_simple" and \
            any(y["k"] == "Ref" and y.get("n") == "Type_Integer" for y in walk(v))

    for f in prog.all_functions():
        if f.component not in ("express",) or f.cfg is None:
            continue
        marks = [a for a in f.walk() if a["k"] == "Assign" and a.get("op", "=") == "=" and strip(a["ch"][0]) is not None and
                 strip(a["ch"][0])["k"] == "Member" and strip(a["ch"][0]).get("n") == "type" and strip(a["ch"][1]) is not None and
                 strip(a["ch"][1])["k"] == "Ref" and strip(a["ch"][1]).get("n") == "Type_Repeat"]
        if not marks:
            continue
        ids = {a["i"]: a for a in marks}
        bad = {}

        def on_node(nd, ts, env, ids=ids, bad=bad):
            if nd["i"] in ids:
                d = base_decl(strip(nd["ch"][0]))
                if d is None or d not in ts:
                    bad.setdefault(nd["i"], nd)
                return ts
            d = v = None
            if nd["k"] == "Var" and nd.get("ch") and nd["ch"][0] is not None:
                d, v = nd.get("d"), nd["ch"][0]
            elif nd["k"] == "Assign" and nd.get("op", "=") == "=" and strip(nd["ch"][0]) is not None and strip(nd["ch"][0])["k"] == "Ref":
                d, v = strip(nd["ch"][0]).get("d"), nd["ch"][1]
            if d is not None:
                v0 = strip(v)
                lit = is_int_create(v) or (v0 is not None and v0["k"] == "Ref" and v0.get("d") in ts)
                s_ = set(ts) - {d}
                if lit:
                    s_.add(d)
                return tuple(sorted(s_))
            return ts

        def on_edge(cn, br, ts, env):
            c = strip(cn)
            flip = False
            while c is not None and ((c["k"] == "Unary" and c.get("op") == "!") or c["k"] == "Paren") and c.get("ch"):
                if c["k"] == "Unary":
                    flip = not flip
                c = strip(c["ch"][0])
            if c is None or c["k"] != "Binary" or c.get("op") not in ("==", "!=") or len(c.get("ch") or []) != 2:
                return ts
            a, b = strip(c["ch"][0]), strip(c["ch"][1])
            for x, y in ((a, b), (b, a)):
                if x is not None and y is not None and x["k"] == "Member" and x.get("n") == "type" and y["k"] == "Ref" and y.get("n") == "Type_Integer":
                    d = base_decl(x)
                    if d is not None and (br != flip) == (c["op"] == "=="):
                        return tuple(sorted(set(ts) | {d}))
                # TYPEis( X->type ) == integer_
                if x is not None and y is not None and x["k"] == "Member" and y["k"] == "Ref" and y.get("n") == "integer_":
                    ap = (access_path(x) or "").split(".")
                    if ap[1:] == ["type", "u", "type", "body", "type"] and (br != flip) == (c["op"] == "=="):
                        return tuple(sorted(set(ts) | {ap[0]}))
            return ts
        try:
            pathstate.walk(f, (), on_node, on_edge=on_edge)
        except pathstate.Budget as ex:
            res.broke("R17: %s" % ex)
            continue
        for a in marks:
            n += 1
            ok = a["i"] not in bad
            res.add("R17.repeat_mark_keeps_expression_kind", "R17|%s|%s" % (f.relfile(), f.name), f.where(a), ok,
                    "`%s` is reached only for an integer literal" % expr_str(a)[:50] if ok else
                    "`%s` is reached for a count that is not known to be an integer literal: the mark overwrites the field that says what "
                    "kind of expression the count is, so exppp prints `[0 : n]` as `[0 : 0]` and the count is never resolved" % expr_str(a)[:50])
    res.floor("R17.repeat_mark_keeps_expression_kind", "stores of the repeat mark into an expression's type", n, 1)


def run(prog, res, tier):
    gr = Grammar(prog, res)
    if not gr.ok:
        return
    res.info["grammar_rules"] = len(gr.names)
    res.floor("R1", "grammar productions with an action", len([a for a in gr.actions.values() if a is not None]), 300)
    built = r1_coverage(prog, res, gr)
    if built:
        r2_spelling(prog, res, gr, built)
    r3_placeholders(prog, res, gr)
    r4_shared(prog, res, gr)
    r5_real(prog, res)
    r6_quotes(prog, res)
    r7_chain_flattening(prog, res)
    r8_quote_escape(prog, res)
    r9_parameter_list_guarded(prog, res)
    r10_group_key(prog, res)
    r11_optional_parts_independent(prog, res)
    r12_literal_stored_where_read(prog, res, gr)
    r13_constant_spelling(prog, res, gr)
    r14_statement_fields_written(prog, res, gr)
    r15_linelength_never_skips_content(prog, res)
    r16_reference_spelling_kept(prog, res)
    r17_repeat_mark_keeps_kind(prog, res)
