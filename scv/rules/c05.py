"""C05 — reading and writing Part 21 is memory-safe and terminates on any input (necessary conditions).

 E2  every write into fixed-size storage on the reader/writer path is bounded (interval analysis of
     indices and pointer offsets, maximal expansion of library writers, provenance of string operands)
 E3  every loop that pulls characters from a stream leaves when the stream is stuck (EOF / fail)
 E3b with a good stream, every loop that looks at the next character consumes at least one character per
     iteration (case split over the characters the loop and its consumers distinguish; consumers summarised)
 R3  no process-terminating call is reachable from the reader/writer entry points beyond the frozen list
 R5  every call-graph cycle on the reader/writer path is classified by what bounds its depth (frozen table with reasons);
     a cycle bounded only by the input is a finding, an unlisted recursive function is unclassified
 R6  a pointer member that a freeing method leaves dangling (SingleLinkList::tail after Empty()) is dereferenced only under a
     test of the member that method does reset
 R4  a node that a function has handed to a container (the callee stores the parameter; fixed point over the call graph) is
     not deleted by that function on any consistent path afterwards (path-sensitive over flag variables)
"""
import json
import os

from rules import memsafe

PID = "C05"
UNITS = dict(components={"clstepcore", "cleditor", "cldai", "clutils", "cllazyfile", "p21read"})
EXPLANATION = (
    "Necessary conditions of memory safety and termination decided for every function reachable (resolved call "
    "graph, class-hierarchy expansion) from the Part 21 reader/writer entry points: (E2) every subscript store, "
    "pointer-bump store, by-reference element store and library writer (strcpy/strcat/sprintf/strncpy/memcpy/"
    "istream::get,getline,read/...) whose destination is an object of constant array type is bounded: interval "
    "analysis with threshold widening over the clang CFG for indices and offsets, maximal format expansion and "
    "provenance classes for string operands (literal < fixed array < schema identifier (assumption, reported as L*) "
    "< file-derived / unknown = unbounded); writes through char* parameters become summaries checked at each call "
    "site. (E3) each loop containing a consuming extraction is explored under two stuck-stream states (end of file; "
    "failbit without eofbit) with three-valued evaluation of its conditions: no cycle through the loop head may "
    "remain unless a compared counter advances. (R3) abort/exit/assert sites reachable from the entry points are "
    "a frozen list. (R4) for every `delete` of a local pointer in the runtime libraries: on no path that is consistent in "
    "its flag variables does the function first pass the pointer to a parameter that is stored (least fixed point of "
    "'assigned to a member/element/global or passed on to a stored parameter', virtual calls expanded) and then delete it "
    "without taking it back or re-assigning it. (E2t) every strncpy into a fixed char array with a constant size is followed, on every path to the next use of the array, by a store of 0 at an index not above that size - or cannot need one (literal source shorter than the size; zero-initialised storage whose tail is never written; a constructor-established terminator beyond the size; identifier sources under the identifier-length assumption). (R7) a call that passes a link field of a list / tree node (pointer fields whose pointee is the record's own hierarchy; NULL at the ends) to a function that dereferences the parameter, or calls a member function through it, before any test (summaries from the may-be-NULL walk) is guarded by a test of that field in the caller (two sites exempt with their invariant). (R6) pointer members that a non-destructor method leaves untouched while it frees the objects reached through a sibling member of the same type (discovered: SingleLinkList::tail vs head in Empty()) are dereferenced only where the sibling is known to be non-NULL or after an assignment in the same function. (R5) every call-graph cycle reachable from the entry points (Tarjan over the resolved call graph with class-hierarchy expansion) consists of functions classified in tables/c05_recursion.json by what bounds the depth (schema structure, constant, dead branch, or only the input); input-bounded cycles and unlisted recursive functions fail. Not decided: heap lifetime beyond R4, integer overflow, the exact depth at which an input-bounded recursion exhausts the stack, time proportional to input, "
    "judy.c / sc_hash.cc internals (vendored containers with structural invariants)."
    " (R8, shared with C06 R6N) a local pointer is not dereferenced where every definition that reaches the dereference is the null constant."
    " (R9) after `delete p` neither p nor a variable p was copied to is dereferenced (or deleted again) before it is assigned something else: typestate 'set of dangling variables' over the flag-consistent paths of every function that deletes a local pointer."
    " (R10, engine of C18 R1) no local of the reader/writer libraries is read before it is assigned (clang -Wuninitialized / -Wsometimes-uninitialized over every unit).")

ENTRIES = ["STEPfile::ReadExchangeFile", "STEPfile::AppendExchangeFile", "STEPfile::ReadWorkingFile",
           "STEPfile::AppendWorkingFile", "STEPfile::WriteExchangeFile", "STEPfile::WriteWorkingFile",
           "STEPfile::WriteValuePairsFile", "lazyInstMgr::openFile", "lazyInstMgr::loadInstance", "main"]

CFG = {
    "entries": ENTRIES,
    "entry_components": {"cleditor", "cllazyfile", "p21read"},
    # results of these accessors are schema identifiers (bounded by the schema, not by the file)
    "ident_fns": {"Name", "TypeName", "EntityName", "AttrName", "AttrTypeName", "BaseTypeName", "GenerateExpress",
                  "QualifiedName", "schemaName"},
    "path_fns": {"FileName"},
    "path_params": {("STEPfile::OpenInputFile", "filename"), ("STEPfile::OpenOutputFile", "filename")},
    "exclude_files": ("cllazyfile/judy.c", "clutils/sc_hash.cc"),
    "e2_exceptions": {
        "E2|src/clstepcore/STEPcomplex.cc|STEPcomplex::STEPcomplex|store->L4:nms":
            "names[] has at most as many entries as the caller's array: the only caller passes entNmArr[64] (side condition E2.side_condition)",
        "E2|src/clstepcore/STEPcomplex.cc|STEPcomplex::STEPcomplex|store->L4:nms#1":
            "terminator store after the same loop (see above)",
    },
    "e3_assume": {
        # every call site passes a non-empty literal (side condition R5 below)
        "sectionReader::findNormalString": {"l": ("ge", 1)},
    },
    "e3_exceptions": {
        "E3|src/cllazyfile/lazyFileReader.cc|lazyFileReader::initP21|loop(ignore)|A":
            "at end of file needKW() returns false for both non-empty ASCII keywords (get() yields EOF), so one of the "
            "two `break`s is taken; the inner whitespace loop tests good()",
    },
    "e3b_exceptions": {
        "E3b|src/cllazyfile/sectionReader.cc|sectionReader::CreateSubSuperInstance|lookahead-loop":
            {"reason": "getDelimitedKeyword() consumes nothing only when it returns an empty keyword, and the empty-keyword branch "
                       "skips one character with get(); the analysis does not correlate the returned string with empty()",
             "only_lookahead": ["/"]},
        "E3b|src/cllazyfile/lazyFileReader.cc|lazyFileReader::initP21|lookahead-loop":
            "needKW() is only called with the non-empty literals \"END-ISO-10303-21;\" and \"DATA\": its first iteration always "
            "consumes one character through get(), and both failing calls break out of the loop",
    },
    "terminators_allowed": json.load(open(os.path.join(os.path.dirname(__file__), "..", "tables", "c05_terminators.json"))),
}


def side_conditions(prog, res):
    """findNormalString is only called with non-empty literals (supports the E3 assumption l >= 1)."""
    n = 0
    for f in prog.all_functions():
        for c in f.calls():
            if (c.get("fn") or "").endswith("sectionReader::findNormalString"):
                n += 1
                from engines import call_args
                a = call_args(c)[0]
                lit = None
                for x in __import__("ir").walk(a):
                    if x["k"] == "Str":
                        lit = x.get("s")
                ok = bool(lit)
                res.add("E3.side_condition", "E3|%s|%s|findNormalString(nonempty)#%d" % (f.relfile(), f.name, n), f.where(c), ok,
                        "search string is the non-empty literal %r" % lit if ok else "findNormalString called with a non-literal / empty string")
    res.floor("E3.side_condition", "findNormalString call sites", n, 3)
    # callers of STEPcomplex(Registry*, const std::string**, ...) pass a fixed array no larger than nms[]
    m = 0
    from ir import array_len, strip as _strip
    for f in prog.all_functions():
        for c in f.walk():
            if c["k"] == "Construct" and (c.get("fk") or "").startswith("STEPcomplex::STEPcomplex(class Registry *,const class std::basic_string"):
                m += 1
                a = c["ch"][1]
                while a is not None and a["k"] == "Cast":
                    a = a["ch"][0]
                N = array_len(f.ty(a)) if a is not None else None
                if N is None and a is not None and a["k"] == "Ref":
                    # local block  new T[K]  with a constant K
                    for v in f.walk():
                        if v["k"] == "Var" and v.get("d") == a.get("d") and v.get("ch") and v["ch"][0] is not None:
                            nw = _strip(v["ch"][0])
                            if nw is not None and nw["k"] == "New" and nw.get("array") and nw["ch"][0] is not None:
                                sz = nw["ch"][0]
                                N = sz.get("val", _strip(sz).get("val"))
                                if N is None:
                                    from absint import Intervals, INF
                                    iv = Intervals(f).solve()
                                    st = iv.state_at(v)
                                    if st is not None:
                                        hi = iv.eval(sz, st)[1]
                                        N = None if hi == INF else int(hi)
                ok = N is not None and N <= 8193
                res.add("E2.side_condition", "E2|%s|%s|STEPcomplex(names[<=8193])#%d" % (f.relfile(), f.name, m), f.where(c), ok,
                        "names argument is the fixed array %s[%s]" % (__import__("ir").expr_str(a), N) if ok else
                        "names argument `%s` is not a fixed array of at most 8193 entries" % __import__("ir").expr_str(a))
    res.floor("E2.side_condition", "STEPcomplex(std::string**) call sites", m, 1)


def r4_handed_then_deleted(prog, res):
    import handover
    st = handover.stores(prog)
    res.info["r4_storing_parameters"] = len(st)
    nd = nf = 0
    for f in prog.all_functions():
        if f.component == "test" or f.component not in UNITS["components"]:
            continue
        dels, found, incomplete = handover.check_function(prog, st, f)
        if not dels:
            continue
        nd += len(dels)
        if incomplete:
            res.broke("R4: %s" % incomplete)
        handed_vars = set()
        for c in f.calls():
            for _, p_ in dels:
                if handover.handover_of(prog, st, c, p_["d"]):
                    handed_vars.add(p_["d"])
        bad = {dl["i"]: (dl, hc, why) for dl, hc, why in found}
        counters = {}
        for dl, p_ in dels:
            if p_["d"] not in handed_vars:
                continue
            nf += 1
            base = "R4|%s|%s|delete %s" % (f.relfile(), f.name, p_["n"])
            c0 = counters.get(base, 0)
            counters[base] = c0 + 1
            key = base if c0 == 0 else "%s#%d" % (base, c0)
            b = bad.get(dl["i"])
            res.add("R4.handed_over_not_deleted", key, f.where(dl), b is None,
                    "`%s` is deleted only on paths on which it was not handed over (or was taken back / re-assigned)" % p_["n"] if b is None else
                    "`%s` is passed to %s() at line %s (%s) and deleted afterwards on the same path: the owner keeps a dangling pointer"
                    % (p_["n"], b[1].get("fn"), b[1]["l"], b[2]))
    res.info["r4_delete_sites_of_locals"] = nd
    res.floor("R4.handed_over_not_deleted", "delete sites of local pointers examined", nd, 35)
    res.floor("R4.handed_over_not_deleted", "delete sites whose pointer is also handed over in the same function", nf, 2)


def r6_stale_member(prog, res):
    """A method (not a destructor) that frees the objects reached through pointer member M1 and re-assigns M1, but leaves another
    pointer member M2 of the same type untouched, leaves M2 dangling whenever M1 ends up NULL (SingleLinkList::Empty: nodes
    freed, head = 0, tail still points at a freed node).  Every dereference of M2 must then stand under a test that M1 is not
    NULL, or follow an assignment to M2 in the same function."""
    from ir import walk as _walk, strip as _strip
    from engines import known_facts

    def core(n):
        n = _strip(n)
        while n is not None and n["k"] == "Cast" and n.get("ch"):
            n = _strip(n["ch"][0])
        return n
    facts_ = {}
    for f in prog.all_functions():
        if f.component == "test" or "::" not in f.name:
            continue
        cls, meth = f.name.rsplit("::", 1)
        if meth.startswith("~"):
            continue
        rec = prog.records.get(cls)
        if not rec:
            continue
        dm = [core(x["ch"][0]) for x in f.walk() if x["k"] == "Delete" and x.get("ch")]
        dm = [d for d in dm if d is not None and d["k"] == "Member" and (d.get("q") or "").startswith(cls + "::")]
        assigned = {core(x["ch"][0]).get("q") for x in f.walk() if x["k"] == "Assign" and core(x["ch"][0]) is not None and core(x["ch"][0])["k"] == "Member"}
        for d in dm:
            if d["q"] not in assigned:
                continue
            for fld in rec["fields"]:
                fty = rec["_types"][fld["t"]] if isinstance(fld.get("t"), int) else ""
                q = "%s::%s" % (cls, fld["n"])
                if q != d["q"] and fty == f.ty(d) and q not in assigned:
                    facts_[q] = (d["q"], f.name, f.where())
    res.info["r6_stale_member_facts"] = {k: "%s frees through %s and leaves it untouched (%s)" % (v[1], v[0], v[2]) for k, v in facts_.items()}
    res.floor("R6.stale_member_guarded", "members left dangling by a freeing method", len(facts_), 1)
    n = 0
    counters = {}
    for f in prog.all_functions():
        if f.component == "test" or f.cfg is None:
            continue
        for x in f.walk():
            if x["k"] != "Member" or not x.get("arrow") or not x.get("ch"):
                continue
            b = core(x["ch"][0])
            if b is None or b["k"] != "Member" or b.get("q") not in facts_:
                continue
            m1, by, where = facts_[b["q"]]
            n += 1
            guarded = False
            for cn, pol in known_facts(f, x):
                c0 = core(cn)
                if c0 is not None and c0["k"] == "Member" and c0.get("q") == m1 and pol:
                    guarded = True
                if c0 is not None and c0["k"] == "Binary" and c0.get("op") == "!=" and any(core(y) is not None and core(y).get("q") == m1 for y in c0["ch"]) and pol:
                    guarded = True
            if not guarded:
                defs = [y for y in f.walk() if y["k"] == "Assign" and core(y["ch"][0]) is not None and core(y["ch"][0]).get("q") == b["q"]]
                guarded = any(f.cfg.dominates(f.cfg.locate(y), f.cfg.locate(x)) and f.cfg.locate(y) != f.cfg.locate(x) for y in defs)
            base = "R6|%s|%s|%s->" % (f.relfile(), f.name, b["q"].split("::")[-1])
            k0 = counters.get(base, 0)
            counters[base] = k0 + 1
            res.add("R6.stale_member_guarded", base if k0 == 0 else "%s#%d" % (base, k0), f.where(x), guarded,
                    "`%s` is dereferenced only where `%s` is known to be non-NULL (or after it was assigned here)" % (b["n"], m1.split("::")[-1]) if guarded else
                    "`%s` is dereferenced without a test of `%s`: %s frees the nodes and resets only `%s`, so `%s` can point at freed memory"
                    % (b["n"], m1.split("::")[-1], by, m1.split("::")[-1], b["n"]))
    res.floor("R6.stale_member_guarded", "dereferences of such members", n, 1)


R7_EXEMPT = {
    "R7|src/clstepcore/collect.cc|ComplexCollect::supports|MultList::appendList(childList)":
        "current is a ComplexList taken from the collection; every ComplexList is built with a head that has children (ComplexList::addChildren / the generated compstructs.cc), so head->childList is not NULL",
    "R7|src/clstepcore/entnode.cc|EntNode::sort|EntNode::lastSmaller(next)#1":
        "eptr1 was returned by ( *first )->lastSmaller( next ) and therefore precedes `next` in the list: eptr1->next is a node, not the end of the list",
}


def r7_link_argument(prog, res):
    """The link fields of the list and tree nodes (next, prev, childList, ... : pointer fields whose pointee is the record itself or a
    class of its hierarchy) are NULL at the ends.  A call that passes such a field to a function that dereferences the parameter (or
    calls a member function through it) before any test is a NULL dereference waiting for the end of the list - unless the caller has
    tested that same field."""
    from nullness import Nullness
    from engines import known_facts, call_args as _args
    from ir import expr_str as _es, strip as _strip, walk as _walk
    nn = Nullness(prog)
    links = set()
    for name, rec in prog.records.items():
        for fld in rec["fields"]:
            ty = rec["_types"][fld["t"]] if isinstance(fld.get("t"), int) else ""
            m = ty.replace("class ", "").replace("struct ", "").replace("const ", "").strip()
            if m.endswith("*"):
                pt = m[:-1].strip()
                if pt == name or pt in (prog.subclasses(name) or []) or name in (prog.subclasses(pt) or []):
                    links.add("%s::%s" % (name, fld["n"]))
    res.info["r7_link_fields"] = sorted(links)
    n = 0
    counters = {}
    for f in prog.all_functions():
        if f.component == "test" or f.component not in UNITS["components"]:
            continue
        for c in f.calls():
            if not c.get("fk"):
                continue
            for i, a in enumerate(_args(c)):
                a0 = _strip(a)
                while a0 is not None and a0["k"] == "Cast":
                    a0 = _strip(a0["ch"][0])
                if a0 is None or a0["k"] != "Member" or a0.get("q") not in links:
                    continue
                n += 1
                d = nn.param_deref(c["fk"], i)
                base = "R7|%s|%s|%s(%s)" % (f.relfile(), f.name, c.get("fn"), a0["n"])
                k0 = counters.get(base, 0)
                counters[base] = k0 + 1
                key = base if k0 == 0 else "%s#%d" % (base, k0)
                if d is None:
                    res.add("R7.link_argument_tested", key, f.where(c), True, "%s() tests the parameter before it uses it" % c.get("fn"))
                    continue
                ap = _es(a0)
                guarded = any(pol and any(_es(_strip(y)) == ap for y in _walk(cn)) for cn, pol in known_facts(f, c))
                if not guarded and key in R7_EXEMPT:
                    res.add("R7.link_argument_tested", key, f.where(c), True, "exempt: " + R7_EXEMPT[key], assume=R7_EXEMPT[key])
                    continue
                res.add("R7.link_argument_tested", key, f.where(c), guarded,
                        "`%s` is tested by the caller before it is handed to %s()" % (ap, c.get("fn")) if guarded else
                        "`%s` (NULL at the end of the list) is passed to %s(), which uses the parameter without a test at %s (%s)" % (ap, c.get("fn"), d[1], d[2]))
    res.floor("R7.link_argument_tested", "calls that pass a link field of a node", n, 3)


def r9_no_use_after_delete(prog, res, components=None, rule="R9.no_use_after_delete", floor=25):
    """After `delete p` (p a local or parameter) the value of p is dangling; so is every variable it is copied to (`prev = p`) until
    that variable is assigned something else.  Typestate over the flag-consistent paths of the function (pathstate): the set of
    dangling variables; `delete x` adds x; `y = x` with x dangling adds y, any other assignment to y removes it; a dereference of a
    dangling variable (`y->f`, `*y`, `y[i]`, a member call through y, a second delete) is reported.  The splice loop of
    STEPcomplex::Initialize advances `prev` only onto nodes it kept; moving that assignment into the loop header makes `prev` follow a
    node that was just deleted, and the next removal writes `prev->next` through freed memory."""
    import pathstate
    from ir import expr_str as _es, strip

    def core(n):
        n = strip(n)
        while n is not None and n["k"] in ("Cast", "Paren") and n.get("ch"):
            n = strip(n["ch"][0])
        return n
    from engines import call_args

    def is_release(n):
        return (n["k"] == "Delete" and n.get("ch")) or (n["k"] == "Call" and n.get("fn") in ("free", "sc_free") and call_args(n))
    nfun = ndel = 0
    for f in prog.all_functions():
        if f.component == "test" or f.component not in (components or UNITS["components"]) or f.cfg is None:
            continue
        dels = []
        for n in f.walk():
            if is_release(n):
                p = core(n["ch"][0]) if n["k"] == "Delete" else core(call_args(n)[0])
                if p is not None and p["k"] == "Ref" and p.get("dk") in ("local", "param"):
                    dels.append((n, p))
        if not dels:
            continue
        # variables whose address is taken can change behind the walk's back: not decided
        addr = {core(y["ch"][0]).get("d") for y in f.walk() if y["k"] == "Unary" and y.get("op") == "&" and y.get("ch") and
                core(y["ch"][0]) is not None and core(y["ch"][0])["k"] == "Ref"}
        dels = [(n, p) for n, p in dels if p["d"] not in addr]
        if not dels:
            continue
        nfun += 1
        ndel += len(dels)
        hits = {}

        def deref_of(nd):
            """variables that nd dereferences directly"""
            out = []
            k = nd["k"]
            if k == "Member" and nd.get("arrow") and nd.get("ch"):
                b = core(nd["ch"][0])
                if b is not None and b["k"] == "Ref":
                    out.append(b)
            elif k == "Unary" and nd.get("op") == "*" and nd.get("ch"):
                b = core(nd["ch"][0])
                if b is not None and b["k"] == "Ref":
                    out.append(b)
            elif k == "Subscript" and nd.get("ch"):
                b = core(nd["ch"][0])
                if b is not None and b["k"] == "Ref" and "*" in f.ty(b):
                    out.append(b)
            elif k == "Call" and nd.get("member") and nd.get("ch"):
                b = core(nd["ch"][0])
                if b is not None and b["k"] == "Ref" and "*" in f.ty(b):
                    out.append(b)
            elif is_release(nd):
                b = core(nd["ch"][0]) if k == "Delete" else core(call_args(nd)[0])
                if b is not None and b["k"] == "Ref":
                    out.append(b)
            return out

        def on_node(nd, ts, env, hits=hits):
            k = nd["k"]
            for b in deref_of(nd):
                if b.get("d") in ts:
                    hits.setdefault((nd["i"], b["d"]), (nd, b))
            if is_release(nd):
                p = core(nd["ch"][0]) if k == "Delete" else core(call_args(nd)[0])
                if p is not None and p["k"] == "Ref" and p.get("dk") in ("local", "param") and p["d"] not in addr:
                    return ts | {p["d"]}
                return ts
            if k == "Assign" and nd.get("op", "=") == "=":
                l = core(nd["ch"][0])
                if l is not None and l["k"] == "Ref":
                    r = core(nd["ch"][1])
                    if r is not None and r["k"] == "Ref" and r.get("d") in ts and l["d"] not in addr:
                        return ts | {l["d"]}
                    return ts - {l["d"]}
                return ts
            if k == "Var" and nd.get("d") is not None:
                r = core(nd["ch"][0]) if nd.get("ch") and nd["ch"][0] is not None else None
                if r is not None and r["k"] == "Ref" and r.get("d") in ts:
                    return ts | {nd["d"]}
                return ts - {nd["d"]}
            return ts
        try:
            pathstate.walk(f, frozenset(), on_node)
        except pathstate.Budget as ex:
            res.broke("R9: %s" % ex)
            continue
        bad = sorted(hits.values(), key=lambda h: (h[0]["l"], h[0].get("c", 0)))
        res.add(rule, "R9|%s|%s" % (f.relfile(), f.name), f.where(bad[0][0]) if bad else f.where(), not bad,
                "no variable is dereferenced while it holds the value of a pointer that was deleted (%d delete site(s))" % len(dels) if not bad else
                "`%s` is used at line %s (`%s`) while it can still hold a pointer that was deleted: write or read through freed memory"
                % (bad[0][1]["n"], bad[0][0]["l"], _es(bad[0][0])[:60]))
    res.info["r9_delete_sites"] = ndel
    res.floor(rule, "functions that delete / free a local pointer", nfun, floor)


def r5_recursion(prog, res, reachable):
    """Every call-graph cycle reachable from the entry points is classified by what bounds its depth (table
    tables/c05_recursion.json, one reason per function).  A cycle that contains a function of class `input` - only the file
    bounds the depth - can exhaust the stack; a recursive function that is not in the table is unclassified."""
    tab = json.load(open(os.path.join(os.path.dirname(__file__), "..", "tables", "c05_recursion.json")))["functions"]
    cg = prog.callgraph()
    cg = cg[0] if isinstance(cg, tuple) else cg
    index, low, on, st, sccs, counter = {}, {}, set(), [], [], [0]
    for root in sorted(reachable):
        if root in index:
            continue
        work = [(root, iter(sorted(w for w in cg.get(root, ()) if w in reachable)))]
        index[root] = low[root] = counter[0]
        counter[0] += 1
        st.append(root)
        on.add(root)
        while work:
            v, it = work[-1]
            adv = False
            for w in it:
                if w not in index:
                    index[w] = low[w] = counter[0]
                    counter[0] += 1
                    st.append(w)
                    on.add(w)
                    work.append((w, iter(sorted(x for x in cg.get(w, ()) if x in reachable))))
                    adv = True
                    break
                elif w in on:
                    low[v] = min(low[v], index[w])
            if adv:
                continue
            work.pop()
            if work:
                low[work[-1][0]] = min(low[work[-1][0]], low[v])
            if low[v] == index[v]:
                comp = []
                while True:
                    w = st.pop()
                    on.discard(w)
                    comp.append(w)
                    if w == v:
                        break
                sccs.append(comp)
    byk = {}
    for f in prog.all_functions():
        byk.setdefault(f.key, f)
    n = 0
    seen_keys = set()
    for comp in sccs:
        if len(comp) == 1 and comp[0] not in cg.get(comp[0], ()):
            continue
        fs = [byk[k] for k in comp if k in byk and byk[k].component != "test"]
        if not fs:
            continue
        names = sorted({f.name for f in fs})
        n += 1
        unknown = [x for x in names if x not in tab]
        inputs = [x for x in names if tab.get(x, {}).get("class") == "input"]
        rep = inputs[0] if inputs else names[0]
        key = "R5|recursion|%s" % rep
        if key in seen_keys:
            continue
        seen_keys.add(key)
        f0 = [f for f in fs if f.name == rep][0]
        if unknown:
            res.add("R5.recursion_depth_bounded", "R5|recursion|unclassified|%s" % unknown[0], [f for f in fs if f.name == unknown[0]][0].where(), False,
                    "%s is recursive (cycle: %s) and not classified in tables/c05_recursion.json: what bounds its depth?" % (unknown[0], ", ".join(names)[:200]))
            continue
        ok = not inputs
        res.add("R5.recursion_depth_bounded", key, f0.where(), ok,
                "cycle {%s}: %s" % (", ".join(names)[:160], "; ".join(sorted({tab[x]["why"] for x in names}))[:400]) if ok else
                "the depth of the cycle {%s} is bounded only by the input: %s" % (", ".join(names)[:300], tab[inputs[0]]["why"]))
    res.floor("R5.recursion_depth_bounded", "call-graph cycles on the reader/writer path", n, 20)


def run(prog, res, tier):
    from rules import c18 as _c18
    _c18.r1_decls(res, tier, rule="R10.no_uninitialised_local", components=set(tuple(UNITS["components"])), min_units=80,
                  wflags=("-Wno-everything", "-Wuninitialized", "-Wsometimes-uninitialized"), groups=("uninitialized", "sometimes-uninitialized"),
                  tail=" — reading an indeterminate value is undefined behaviour")
    reachable, keys = memsafe.reach(prog, CFG)
    if len(keys) < 8:
        res.broke("entry points vanished: only %d of the reader/writer entry functions found" % len(keys))
    res.info["reachable_functions"] = len(reachable)
    lstar, ns = memsafe.run_e2(prog, res, CFG, reachable)
    res.floor("E2.bounded_write", "index/by-reference stores into fixed arrays", ns.get("index", 0), 25)
    res.floor("E2.bounded_write", "library writers into fixed arrays", ns.get("lib", 0), 40)
    n3 = memsafe.run_e3(prog, res, CFG, reachable)
    res.floor("E3.stuck_stream_exit", "stream-driven loops", n3, 35)
    n3b = memsafe.run_e3b(prog, res, CFG, reachable)
    res.floor("E3b.progress", "look-ahead driven loops", n3b, 12)
    side_conditions(prog, res)
    memsafe.run_terminators(prog, res, CFG, reachable)
    r4_handed_then_deleted(prog, res)
    r5_recursion(prog, res, reachable)
    r6_stale_member(prog, res)
    r7_link_argument(prog, res)
    r9_no_use_after_delete(prog, res)
    # a local pointer that only ever holds the null constant when it is dereferenced (rule shared with C06)
    from nullness import Nullness
    from rules import c06
    c06.r6_null_initialised(prog, res, reachable, Nullness(prog), rule="R8.null_initialised_local",
                            components=tuple(UNITS["components"]), floor=20)
    nt = memsafe.run_strncpy_terminated(prog, res, CFG, reachable)
    res.floor("E2t.strncpy_terminated", "strncpy calls into fixed arrays with a constant size", nt, 1)
