"""C20 — diagnostics name the construct that is actually wrong.

Decided clauses (DESIGN §4/C20):
 R1 fmtargs   every ERRORreport* call: arguments agree with LibErrors[code].message
 R2 valist    no va_list forwarded through `...`; va_start paired with va_end on every path
 R3 attrib    ERRORreport_with_line attributes to current_filename / its line argument;
              current_filename is written only by the scanner buffer functions
 R4 quoted    at report sites guarded by a failed lookup the quoted name is the looked-up name
 R5 switches  warning switches only touch entries with severity <= WARNING, never NULL names,
              ERRORoccurred never depends on `override`
"""
from engines import (check_format_args, init_rows, str_of, is_null_const, known_facts, conjuncts,
                     enclosing_conditions, calls_in)
from ir import walk, strip, expr_str, access_path

PID = "C20"
UNITS = dict(components={"express", "exppp", "exp2cxx", "exp2python", "scanner"})
REPORTERS = {"ERRORreport": 1, "ERRORreport_with_symbol": 2, "ERRORreport_with_line": 2}

EXPLANATION = (
    "Static decision of the structural clauses of C20 over every first-party unit of the EXPRESS "
    "front end and back ends: (R1) each call of ERRORreport/ERRORreport_with_symbol/ERRORreport_with_line "
    "is joined with the message format of LibErrors[code] (designated-initialiser table read from the AST) "
    "and the promoted types of its variadic arguments must match the conversions in number and kind; "
    "(R2) no va_list object is passed through an ellipsis and every va_start reaches a va_end on every "
    "returning path; (R3) ERRORreport_with_line stamps current_filename/its line argument and "
    "current_filename has no writer outside the scanner buffer functions; (R4) at report sites guarded by a "
    "failed lookup the first quoted argument is the looked-up access path; (R5) the -w/-i switches write "
    "`override` only under a severity<=WARNING guard, compare only non-NULL class names (partial evaluation "
    "of the guard over the constant table) and ERRORoccurred is never written under an `override` test. "
    "(R3b) the name diagnostics are attributed to changes only together with the file the scanner reads (each reachable writer of current_filename is called with the FILE* its caller installs with perplexFileScanner). (R6) a loop counter quoted by a diagnostic comes from a loop without early exits. (R7) the file name handed to the parser is a private copy on every path on which it is not NULL. Not decided: helpfulness of texts, ordering of buffered messages, that the quoted value is right for "
    "sites where provenance is not a lookup."
    " (R4.lookup_scope) at report sites guarded by a failed look-up, a further %s argument that names a scope is the scope that was searched when the message template says `in <scope>`, and that declaration or the one whose enclosing scope was searched when it says `for <declaration>`.")

# R1 exception table: sites whose mismatch provably cannot execute (site key -> reason)
R1_UNREACHABLE = {}

# R3: functions allowed to assign current_filename (confirmed by reading lexact.c / expscan.l)
LEGACY_FILENAME_WRITERS = {"SCANpop_buffer": "buffer-stack code called only from SCANread <- SCANnextchar, which the generated (perplex) scanner never calls"}
FILENAME_WRITERS = {"SCANpush_buffer": "enters an INCLUDEd file", "SCANpop_buffer": "returns to the including file",
                    "SCAN_lex_init": "(re)initialises the scanner for the file handed to the parser"}


def table(prog, res):
    g = prog.global_init("LibErrors", "express/error.c")
    if g is None:
        res.broke("anchor vanished: LibErrors table in src/express/error.c")
        return None
    rows = init_rows(g)
    enum = None
    for name, items in prog.enums.items():
        if "DUPLICATE_DECL" in items and "SELECT_EMPTY" in items:
            enum = items
    if enum is None:
        res.broke("anchor vanished: enum ErrorCode")
        return None
    byval = {}
    for n, v in enum.items():
        byval.setdefault(v, n)
    tab = {}
    for idx, row in enumerate(rows):
        row = strip(row)
        if row is None or row["k"] != "InitList":
            continue
        ch = row["ch"]
        sev = strip(ch[0]) if ch else None
        tab[idx] = {"code": byval.get(idx, str(idx)), "severity": sev.get("val") if sev else None,
                    "message": str_of(ch[1]) if len(ch) > 1 else None,
                    "name": str_of(ch[2]) if len(ch) > 2 else None,
                    "name_is_null": (len(ch) <= 2) or (str_of(ch[2]) is None),
                    "line": row.get("l")}
    return tab, enum


def site_key(fn, rule, desc, counters):
    base = "%s|%s|%s|%s" % (rule, fn.relfile(), fn.name, desc)
    c = counters.get(base, 0)
    counters[base] = c + 1
    return base if c == 0 else "%s#%d" % (base, c)


def r1_fmtargs(prog, res, tab, enum):
    counters = {}
    nsites = 0
    used_codes = set()
    for fn in prog.all_functions():
        if fn.component == "test":
            continue
        for call in fn.calls():
            name = call.get("fn")
            if name not in REPORTERS:
                continue
            nsites += 1
            args = call["ch"]
            code = strip(args[0]) if args else None
            fixed = REPORTERS[name]
            if code is not None and "val" not in code and code["k"] == "Ref" and code.get("dk") == "param" \
                    and fn.params and code["d"] == fn.params[0]["d"] and fn.file.endswith("express/error.c"):
                # forwarding wrapper inside the error module: its own callers are the sites
                ok = not call.get("variadic")
                res.add("R1.forwarder", site_key(fn, "R1", "forward->%s" % name, counters), fn.where(call), ok,
                        "code parameter forwarded to %s" % name)
                continue
            if code is None or "val" not in code:
                key = site_key(fn, "R1", "%s(<non-constant code>)" % name, counters)
                res.add("R1.fmtargs", key, fn.where(call), False,
                        "error code of %s is not a compile-time constant: %s" % (name, expr_str(args[0]) if args else ""))
                continue
            val = code["val"]
            ent = tab.get(val)
            cname = ent["code"] if ent else str(val)
            used_codes.add(val)
            key = site_key(fn, "R1", "%s(%s)" % (name, cname), counters)
            if ent is None or ent["message"] is None:
                res.add("R1.fmtargs", key, fn.where(call), False,
                        "LibErrors has no message for code %s used by %s" % (cname, name))
                continue
            var = args[fixed:]
            probs = check_format_args(ent["message"], var, fn.ty)
            facts = {"code": cname, "format": ent["message"], "args": [expr_str(a) for a in var],
                     "arg_types": [fn.ty(a) for a in var]}
            if probs and key in R1_UNREACHABLE:
                res.add("R1.fmtargs", key, fn.where(call), True, "mismatch at unreachable site: " + R1_UNREACHABLE[key],
                        facts, assume=R1_UNREACHABLE[key])
            else:
                res.add("R1.fmtargs", key, fn.where(call), not probs,
                        "; ".join(probs) if probs else "arguments agree with format", facts)
    # table side: every entry has a well-formed message
    for idx, ent in sorted(tab.items()):
        if ent["message"] is None and ent["severity"] is None:
            continue
        ok = ent["message"] is not None
        res.add("R1.table", "R1|table|%s" % ent["code"], "src/express/error.c:%s" % ent["line"], ok,
                "entry has a message" if ok else "entry without message string")
    res.floor("R1.fmtargs", "report call sites", nsites, 75)
    res.floor("R1.table", "LibErrors entries", len([e for e in tab.values() if e["message"] is not None]), 70)
    res.info["r1_call_sites"] = nsites
    res.info["r1_table_entries"] = len(tab)


def r2_valist(prog, res):
    counters = {}
    n_variadic_calls = 0
    n_vastart = 0
    for fn in prog.all_functions():
        if fn.component == "test":
            continue
        for call in fn.calls():
            if not call.get("variadic"):
                continue
            n_variadic_calls += 1
            np_ = call.get("np", 0)
            for i, a in enumerate(call["ch"][np_:]):
                t = fn.ty(a)
                if "__va_list_tag" in t or "__builtin_va_list" in t:
                    key = site_key(fn, "R2", "va_list->%s" % call.get("fn"), counters)
                    res.add("R2.valist_through_ellipsis", key, fn.where(call), False,
                            "va_list object `%s` passed through `...` of %s (callee re-reads it with va_start: "
                            "arguments are lost)" % (expr_str(a), call.get("fn")))
        # va_start/va_end pairing
        starts = [c for c in fn.calls() if c.get("fn") in ("__builtin_va_start", "va_start")]
        if not starts:
            continue
        cfg = fn.cfg
        for s in starts:
            n_vastart += 1
            key = site_key(fn, "R2", "va_start", counters)
            pos = cfg.locate(s)
            if pos is None:
                res.broke("va_start not located in CFG of %s" % fn.name)
                continue
            ap = access_path(s["ch"][0]) if s.get("ch") else None

            def is_end(n, ap=ap):
                for c in walk(n):
                    if c["k"] == "Call" and c.get("fn") in ("__builtin_va_end", "va_end"):
                        return True
                return False
            ends = cfg.paths_avoiding(pos, is_end)
            leak = cfg.exit in ends or any(cfg.exit in cfg.succ[b] for b in ends)
            res.add("R2.va_end", key, fn.where(s), not leak,
                    "a path from va_start returns without va_end" if leak else "va_end on every returning path",
                    {"function": fn.name})
    # the three reporters must use va_start themselves (anchor)
    for name in REPORTERS:
        f = prog.one(name, "express/error.c")
        if f is None:
            res.broke("anchor vanished: %s in error.c" % name)
    res.floor("R2.valist_through_ellipsis", "variadic call sites examined", n_variadic_calls, 1000)
    res.floor("R2.va_end", "va_start sites", n_vastart, 5)
    if n_variadic_calls and not any(o.rule == "R2.valist_through_ellipsis" for o in res.obs):
        res.add("R2.valist_through_ellipsis", "R2|summary", "-", True,
                "no va_list argument in the variadic part of any of %d variadic call sites" % n_variadic_calls)


def r3_attribution(prog, res):
    f = prog.one("ERRORreport_with_line", "express/error.c")
    if f is None:
        res.broke("anchor vanished: ERRORreport_with_line")
        return
    cfg = f.cfg
    fwd = [c for c in f.calls() if c.get("fn") == "ERRORreport_with_symbol" or c.get("fn", "").startswith("ERROR_v")
           or c.get("fn") in ("ERRORvreport_with_symbol",)]
    # any call that receives &sym
    symcalls = []
    for c in f.calls():
        for a in c["ch"]:
            p = access_path(a)
            if p and p.startswith("&") and ":sym" in p:
                symcalls.append(c)
    if not symcalls:
        res.broke("ERRORreport_with_line: no call receives &sym")
        return
    want = {"filename": None, "line": None}
    for n in f.walk():
        if n["k"] == "Assign":
            lhs = strip(n["ch"][0])
            if lhs["k"] == "Member" and lhs["n"] in want:
                want[lhs["n"]] = n
    linep = f.params[1]["d"] if len(f.params) > 1 else None
    for fld, asn in want.items():
        key = "R3|src/express/error.c|ERRORreport_with_line|sym.%s" % fld
        if asn is None:
            res.add("R3.attrib", key, f.where(), False, "sym.%s is not assigned before forwarding" % fld)
            continue
        rhs = strip(asn["ch"][1])
        good_src = (fld == "filename" and rhs["k"] == "Ref" and rhs["n"] == "current_filename") or \
                   (fld == "line" and rhs["k"] == "Ref" and rhs.get("d") == linep)
        dom = all(cfg.dominates(cfg.locate(asn), cfg.locate(c)) for c in symcalls)
        res.add("R3.attrib", key, f.where(asn), good_src and dom,
                "sym.%s = %s %s" % (fld, expr_str(rhs), "dominates the forwarding call" if dom else "does NOT dominate the forwarding call")
                if good_src else "sym.%s is set from %s" % (fld, expr_str(rhs)))
    # who may write current_filename
    from engines import call_args
    pkeys = [g.key for nm in ("main", "EXPRESSparse", "PARSERrun", "EXPRESSresolve", "EXPRESSinit_init", "print_file") for g in prog.by_name.get(nm, [])]
    if pkeys:
        parse_reach = prog.reachable_from(pkeys)
    else:
        # no parser in this program (self-test subject): every writer counts as reachable
        parse_reach = {g.key for g in prog.all_functions()}
        if len(parse_reach) > 300:
            res.broke("anchor vanished: EXPRESSparse / PARSERrun")
    nw = 0
    for fn in prog.all_functions():
        if fn.component == "test":
            continue
        for n in fn.walk():
            if n["k"] in ("Assign", "CompoundAssign"):
                # chained assignment a = b = c: look at each lhs
                lhs = strip(n["ch"][0])
                if lhs["k"] == "Ref" and lhs["n"] == "current_filename" and lhs.get("dk") == "global":
                    nw += 1
                    # The name every diagnostic is attributed to may only change together with the file the scanner really
                    # reads: each reachable call of the writer passes the FILE* that the same caller hands to
                    # perplexFileScanner().  A writer that is not reachable from the parser is legacy code (listed).
                    if fn.key not in parse_reach:
                        ok = fn.name in LEGACY_FILENAME_WRITERS
                        why = ("not reachable from any entry point of the tools; listed: %s" % LEGACY_FILENAME_WRITERS[fn.name]) if ok else \
                            "a function outside the scanner set-up writes the name diagnostics are attributed to"
                    else:
                        fpi = [i for i, p_ in enumerate(fn.params) if "FILE" in (fn.tyname(p_["t"]) if isinstance(p_.get("t"), int) else "")]
                        sites = [(g, c) for g in prog.all_functions() if g.key in parse_reach for c in g.calls() if c.get("fk") == fn.key]
                        ok, why = bool(fpi) and bool(sites), "no FILE* parameter / no call site"
                        for g, c in sites:
                            a = call_args(c)
                            v = strip(a[fpi[0]]) if fpi and fpi[0] < len(a) else None
                            inst = [y for y in g.calls() if (y.get("fn") or "") == "perplexFileScanner" and call_args(y) and
                                    strip(call_args(y)[0]) is not None and v is not None and strip(call_args(y)[0]).get("d") == v.get("d")]
                            if not inst:
                                ok = False
                                why = "%s calls it with a file that is not the one given to perplexFileScanner(): the scanner goes on reading the old file" % g.name
                        if ok:
                            why = "every call passes the FILE* that its caller installs as the scanner's input"
                    res.add("R3.filename_writers", "R3|%s|%s|current_filename=" % (fn.relfile(), fn.name), fn.where(n), ok,
                            "current_filename written in %s: %s" % (fn.name, why))
    res.floor("R3.filename_writers", "writers of current_filename", nw, 2)
    # lexer/parser sites pass yylineno as line
    cnt = 0
    for fn in prog.all_functions():
        if not fn.file.endswith(("generated/expscan.c", "generated/expparse.c", "express/lexact.c")):
            continue
        for c in fn.calls("ERRORreport_with_line"):
            cnt += 1
            a = strip(c["ch"][1])
            base = a
            if a["k"] == "Binary" and a["op"] in ("-", "+") and "val" in strip(a["ch"][1]):
                base = strip(a["ch"][0])   # LINENO_FUDGE: look-ahead over a newline
            ok = base["k"] == "Ref" and base["n"] == "yylineno" or (base["k"] == "Member" and base["n"] == "line")
            res.add("R3.lexline", "R3|%s|%s|line-arg|%s" % (fn.relfile(), fn.name, expr_str(strip(c['ch'][0]))) + ("#%d" % cnt),
                    fn.where(c), ok,
                    "line argument is %s" % expr_str(a))
    res.floor("R3.lexline", "lexer report_with_line sites", cnt, 8)


def r5_switches(prog, res, tab, enum):
    SEV_WARNING = enum.get("SEVERITY_WARNING")
    sev_enum = None
    for name, items in prog.enums.items():
        if "SEVERITY_WARNING" in items:
            sev_enum = items
    if sev_enum is None:
        res.broke("anchor vanished: SEVERITY_WARNING")
        return
    W = sev_enum["SEVERITY_WARNING"]
    E = sev_enum["SEVERITY_ERROR"]
    nwrites = 0
    for fn in prog.all_functions():
        if fn.component == "test":
            continue
        for n in fn.walk():
            if n["k"] in ("Assign", "CompoundAssign"):
                lhs = strip(n["ch"][0])
                if lhs["k"] == "Member" and lhs["n"] == "override" and "Error_" in lhs.get("q", ""):
                    nwrites += 1
                    key = "R5|%s|%s|override=" % (fn.relfile(), fn.name)
                    okfn = fn.name in ("ERRORset_warning", "ERRORset_all_warnings")
                    # guard: severity <= SEVERITY_WARNING among known facts, same base object
                    guard = False
                    guard_txt = ""
                    for c, pol in known_facts(fn, n):
                        c = strip(c)
                        if c["k"] == "Binary" and c["op"] in ("<=", "<", "==") and pol:
                            l, r = strip(c["ch"][0]), strip(c["ch"][1])
                            if l["k"] == "Member" and l["n"] == "severity" and "val" in r:
                                lim = r["val"] if c["op"] in ("<=", "==") else r["val"] - 1
                                if lim <= W and access_path(l["ch"][0]) == access_path(lhs["ch"][0]):
                                    guard = True
                                    guard_txt = expr_str(c)
                    res.add("R5.override_writers", key, fn.where(n), okfn and guard,
                            ("override written under guard `%s`" % guard_txt) if (okfn and guard) else
                            ("override written in %s without a dominating `severity <= SEVERITY_WARNING` guard" % fn.name
                             if okfn else "override written outside the warning-switch functions (%s)" % fn.name))
    res.floor("R5.override_writers", "writes of Error_.override", nwrites, 2)

    # partial evaluation of ERRORset_warning's comparison over the constant table
    f = prog.one("ERRORset_warning", "express/error.c")
    if f is None:
        res.broke("anchor vanished: ERRORset_warning")
        return
    cmps = [c for c in f.calls() if c.get("fn") in ("strcmp", "strcasecmp", "strncmp")]
    if not cmps:
        res.broke("ERRORset_warning: no string comparison found")
    for c in cmps:
        # which operand is err->name ?
        nameop = None
        for a in c["ch"]:
            s = strip(a)
            if s["k"] == "Member" and s["n"] == "name":
                nameop = s
        if nameop is None:
            continue
        facts = known_facts(f, c)
        sev_lim = None
        nonnull = False
        for cn, pol in facts:
            cn = strip(cn)
            if cn["k"] == "Binary" and cn["op"] in ("<=", "<") and pol:
                l, r = strip(cn["ch"][0]), strip(cn["ch"][1])
                if l["k"] == "Member" and l["n"] == "severity" and "val" in r:
                    sev_lim = r["val"] if cn["op"] == "<=" else r["val"] - 1
            if cn["k"] == "Member" and cn["n"] == "name" and pol:
                nonnull = True
            if cn["k"] == "Binary" and cn["op"] == "!=" and pol:
                l, r = strip(cn["ch"][0]), cn["ch"][1]
                if l["k"] == "Member" and l["n"] == "name" and is_null_const(r):
                    nonnull = True
        # loop bound: rows 0 .. sizeof/sizeof-1 ; evaluate over constant table rows (incl. zero-filled holes)
        g = prog.global_init("LibErrors", "express/error.c")
        nrows = len(init_rows(g))
        bad = []
        for idx in range(nrows):
            ent = tab.get(idx)
            sev = ent["severity"] if ent and ent["severity"] is not None else 0
            name_null = ent["name_is_null"] if ent else True
            if ent is None or (ent["message"] is None and ent["severity"] is None):
                sev, name_null = 0, True     # zero-initialised hole
            passes = sev_lim is None or sev <= sev_lim
            if passes and name_null and not nonnull:
                bad.append(ent["code"] if ent else "slot %d" % idx)
        res.add("R5.null_name_compare", "R5|src/express/error.c|ERRORset_warning|strcmp(name)", f.where(c), not bad,
                ("strcmp receives a NULL class name for %d table slot(s) that pass the severity guard (e.g. %s): "
                 "`-w/-i <class>` crashes instead of switching a warning" % (len(bad), ", ".join(bad[:4]))) if bad
                else "every table slot reaching the comparison has a non-NULL class name or is null-checked",
                {"rows": nrows, "severity_limit": sev_lim, "null_checked": nonnull})
    # ERRORoccurred never written under an override/ERRORis_enabled-independent... : it must be written
    # only under severity >= ERROR (shared with C04) and no condition on its path may read `override`
    # other than the enabling test that also governs printing.
    for fn in prog.all_functions():
        if not fn.file.endswith("express/error.c"):
            continue
        for n in fn.walk():
            if n["k"] == "Assign":
                lhs = strip(n["ch"][0])
                if lhs["k"] == "Ref" and lhs["n"] == "ERRORoccurred":
                    facts = known_facts(fn, n)
                    sev_ok = False
                    for cn, pol in facts:
                        cn = strip(cn)
                        if cn["k"] == "Binary" and cn["op"] in (">=", ">") and pol:
                            l, r = strip(cn["ch"][0]), strip(cn["ch"][1])
                            if l["k"] == "Member" and l["n"] == "severity" and "val" in r:
                                lim = r["val"] if cn["op"] == ">=" else r["val"] + 1
                                if lim >= E:
                                    sev_ok = True
                    res.add("R5.verdict_independent", "R5|src/express/error.c|%s|ERRORoccurred=" % fn.name +
                            "#%d" % len([o for o in res.obs if o.rule == "R5.verdict_independent" and fn.name in o.key]),
                            fn.where(n), sev_ok,
                            "ERRORoccurred set under a severity >= SEVERITY_ERROR guard" if sev_ok else
                            "ERRORoccurred set without a severity >= SEVERITY_ERROR guard")
    r5_polarity(prog, res)
    # entries that can be switched must be warnings: class-named entries with severity >= ERROR are
    # excluded by the guard (checked above); list them as facts
    res.info["class_named_errors"] = [e["code"] for e in tab.values() if e["name"] and (e["severity"] or 0) >= E]


def r5_polarity(prog, res):
    """`-w <class>` must leave warnings of the class enabled, `-i <class>` disabled:
    compose option letter -> ERRORset_warning argument -> stored `override` -> ERRORis_enabled."""
    from engines import peval
    main = prog.one("main", "express/fedex.c")
    setw = prog.one("ERRORset_warning", "express/error.c")
    isen = prog.one("ERRORis_enabled", "express/error.c")
    if not (main and setw and isen):
        res.broke("anchor vanished: main/ERRORset_warning/ERRORis_enabled")
        return
    calls = list(main.calls("ERRORset_warning"))
    if not calls:
        res.broke("fedex.c main no longer calls ERRORset_warning")
        return
    # stored value as a function of the flag parameter
    pflag = setw.params[1]["d"] if len(setw.params) > 1 else None
    stores = []
    for n in setw.walk():
        if n["k"] == "Assign":
            lhs = strip(n["ch"][0])
            if lhs["k"] == "Member" and lhs["n"] == "override":
                stores.append(n["ch"][1])
    rets = [n["ch"][0] for n in isen.walk() if n["k"] == "Return" and n.get("ch") and n["ch"][0]]
    if len(stores) != 1 or len(rets) != 1:
        res.broke("ERRORset_warning/ERRORis_enabled shape not understood (%d stores, %d returns)" % (len(stores), len(rets)))
        return
    for call in calls:
        arg = call["ch"][1]
        # option variable: the Ref compared against a character constant
        optvar = None
        for x in walk(arg):
            if x["k"] == "Ref" and x.get("dk") in ("local", "param"):
                optvar = x["d"]
        verdict = {}
        for letter in "wi":
            a = peval(arg, {optvar: ord(letter)}) if optvar else peval(arg, {})
            st = peval(stores[0], {pflag: a}) if a is not None else None
            en = peval(rets[0], {"override": st}) if st is not None else None
            verdict[letter] = en
        ok = verdict["w"] == 1 and verdict["i"] == 0
        res.add("R5.switch_polarity", "R5|src/express/fedex.c|main|ERRORset_warning-polarity", main.where(call), ok,
                "-w => class enabled, -i => class disabled" if ok else
                "composition option letter -> `%s` -> override = `%s` -> enabled = `%s` gives enabled(-w)=%s, enabled(-i)=%s: "
                "`-w <class>` suppresses the class it is documented to enable (and the other classes are switched on as a side effect)"
                % (expr_str(arg), expr_str(stores[0]), expr_str(rets[0]), verdict["w"], verdict["i"]),
                {"enabled": verdict})


def r7_filename_private(prog, res):
    """Every symbol the parser creates keeps the pointer it was given as file name.  The name handed to PARSERrun must therefore be a
    private copy (strdup / SCANstrdup), not a buffer that later look-ups overwrite (the EXPRESS_PATH scratch buffer `dir->full`):
    otherwise all diagnostics of an earlier file are attributed to whatever file was looked up last."""
    from engines import call_args
    from nullness import reaches_unassigned
    COPY = ("SCANstrdup", "strdup", "__strdup")

    def core(n):
        n = strip(n)
        while n is not None and n["k"] == "Cast" and n.get("ch"):
            n = strip(n["ch"][0])
        return n

    def is_copy(e, f, depth=0):
        e = core(e)
        if e is None:
            return False
        if e["k"] == "Call" and (e.get("fn") or "") in COPY:
            return True
        if e["k"] == "Member" and depth < 2:
            # a field that this function fills with a copy
            ap = expr_str(e)
            ws = [y for y in f.walk() if y["k"] == "Assign" and expr_str(core(y["ch"][0])) == ap]
            return bool(ws) and all(is_copy(y["ch"][1], f, depth + 1) for y in ws)
        return False
    n = 0
    for f in prog.all_functions():
        if f.component != "express" or f.cfg is None:
            continue
        for c in f.calls():
            if (c.get("fn") or "") != "PARSERrun":
                continue
            n += 1
            a0 = core(call_args(c)[0])
            ok, why = False, "the argument `%s` is not a private copy" % expr_str(a0)
            if is_copy(a0, f):
                ok, why = True, "the argument is a fresh copy"
            elif a0 is not None and a0["k"] == "Ref" and a0.get("dk") in ("local", "param"):
                d = a0["d"]
                defs = [y for y in f.walk() if y["k"] == "Assign" and core(y["ch"][0]) is not None and core(y["ch"][0]).get("d") == d]
                # a definition from something that cannot be NULL (an array, a copy) is followed under the hypothesis d != NULL
                bad = [y for y in defs if not is_copy(y["ch"][1], f) and
                       reaches_unassigned(f, d, c, nonnull=True, start=f.cfg.locate(y))]
                entry_reaches = a0.get("dk") == "param" and reaches_unassigned(f, d, c, nonnull=True)
                if not bad and not entry_reaches and defs:
                    ok, why = True, "`%s` is a private copy whenever it is not NULL" % a0["n"]
                elif entry_reaches:
                    why = "the caller's `%s` reaches the parser unchanged" % a0["n"]
                elif bad:
                    why = "`%s` = %s reaches the parser" % (a0["n"], expr_str(core(bad[0]["ch"][1])))
            res.add("R7.file_name_is_a_private_copy", site_key(f, "R7", "PARSERrun-filename", {}), f.where(c), ok,
                    "the file name given to the parser: %s" % why if ok else
                    "%s: every symbol parsed from this file keeps that pointer, and the buffer is overwritten by the next schema look-up - the "
                    "diagnostics of this file are then attributed to the file that was looked up last" % why)
    res.floor("R7.file_name_is_a_private_copy", "calls of PARSERrun", n, 2)


def r6_quoted_counts(prog, res):
    """A number quoted in a diagnostic that was counted by a loop is the count of the whole construct only if the loop cannot be
    left early: a `break` / `return` / `goto` inside the counting loop makes the message quote the position where the loop
    stopped (and a test of that number, e.g. `count % 8`, misfire)."""
    from engines import call_args
    n = 0
    counters = {}
    for f in prog.all_functions():
        if f.component not in ("express", "exppp", "exp2cxx", "exp2python") or f.cfg is None:
            continue
        reps = [c for c in f.calls() if (c.get("fn") or "") in REPORTERS]
        if not reps:
            continue
        loops = [x for x in f.walk() if x["k"] in ("For", "While", "Do")]
        for c in reps:
            a = call_args(c)
            for arg in a[REPORTERS[c["fn"]]:]:
                v = strip(arg)
                if v is None or v["k"] != "Ref" or v.get("dk") != "local":
                    continue
                for lp in loops:
                    if any(y is c for y in walk(lp)):
                        continue
                    incs = [y for y in walk(lp) if (y["k"] == "Unary" and y.get("op") in ("post++", "pre++") and strip(y["ch"][0]) is not None and strip(y["ch"][0]).get("d") == v["d"]) or
                            (y["k"] == "CompoundAssign" and y.get("op") == "+=" and strip(y["ch"][0]) is not None and strip(y["ch"][0]).get("d") == v["d"])]
                    if not incs:
                        continue
                    if not f.cfg.reaches(f.cfg.locate(incs[0]), f.cfg.locate(c)):
                        continue
                    n += 1
                    body = lp["ch"][-1] if lp["k"] != "Do" else lp["ch"][0]
                    early = []
                    def scan(node, depth):
                        if node is None:
                            return
                        k = node["k"]
                        if k in ("Return", "Goto") or (k == "Break" and depth == 0):
                            early.append(node)
                        nd = depth + (1 if k in ("For", "While", "Do", "Switch") else 0)
                        for ch_ in node.get("ch") or []:
                            scan(ch_, nd)
                    scan(body, 0)
                    ok = not early
                    res.add("R6.quoted_count_is_complete", site_key(f, "R6", "count:%s" % v["n"], counters), f.where(c), ok,
                            "`%s`, quoted by this diagnostic, is counted by a loop that always runs to its end" % v["n"] if ok else
                            "`%s` is quoted by this diagnostic but the loop that counts it can be left early (line %s): the message then quotes "
                            "the position where the loop stopped, not the count of the whole construct" % (v["n"], early[0]["l"]))
    res.floor("R6.quoted_count_is_complete", "diagnostics that quote a loop counter", n, 1)


def run(prog, res, tier):
    r7_filename_private(prog, res)
    r6_quoted_counts(prog, res)
    t = table(prog, res)
    if t is None:
        return
    tab, enum = t
    sev = None
    for name, items in prog.enums.items():
        if "SEVERITY_WARNING" in items:
            sev = items
    r1_fmtargs(prog, res, tab, enum)
    r2_valist(prog, res)
    r3_attribution(prog, res)
    r5_switches(prog, res, tab, sev or {})
    try:
        from rules import c20_r4
        c20_r4.run(prog, res, tab)
    except ImportError:
        pass


def selftest(res):
    import selftest as st
    import report
    prog = st.load(PID, ["src/express/error.c", "src/express/fedex.c"])
    sub = report.Result(PID)
    t = table(prog, sub)
    tab, enum = t
    sev = [items for items in prog.enums.values() if "SEVERITY_WARNING" in items][0]
    r1_fmtargs(prog, sub, tab, enum)
    r2_valist(prog, sub)
    r3_attribution(prog, sub)
    r5_switches(prog, sub, tab, sev)
    st.expect(res, "C20", sub, [
        "R1.fmtargs|R1|src/express/error.c|user|ERRORreport_with_symbol(BAD_COUNT)",
        "R1.fmtargs|R1|src/express/error.c|user|ERRORreport_with_line(BAD_KIND)",
        "R1.forwarder|",
        "R2.valist_through_ellipsis|",
        "R2.va_end|R2|src/express/error.c|ERRORreport_with_line|va_start",
        "R3.filename_writers|R3|src/express/error.c|stray_writer",
        "R5.null_name_compare|",
        "R5.override_writers|R5|src/express/error.c|ERRORset_all_warnings",
        "R5.switch_polarity|",
    ], expected_ok_min=8)

LEVEL_TEXT = ("Every diagnostic call site, every LibErrors entry and every path of the error module's entry points is "
              "checked (sound for the clauses named: format/argument agreement, va_list discipline, attribution stamps, "
              "who-may-write of current_filename/override, constant partial evaluation of the warning switches). This is "
              "stronger than tests for those clauses (all 79 sites, not the few a test input reaches) and silent on whether "
              "texts are helpful.")
TECHNIQUE = "table-driven format/argument type agreement, CFG pairing (va_start/va_end), who-may-write and constant partial evaluation over clang AST/CFG facts"
