"""C01 — Part 21 exchange files survive read-then-write (structural clauses).

 R1 dispatch   every attribute kind the reader accepts is handled (non-error arm) by the writers, the null logic,
               the copy and the validation siblings of STEPattribute
 R2 outparam   every aggregate-element writer (overrides of STEPnode::STEPwrite(std::string&, ..) / asStr(std::string&))
               overwrites its out-parameter: the text of one element never depends on the previous element
 R3 constants  real formatting constants / buffer, enumeration dots (shared with C09 R4) and whole-token item match (C09 R6)
 R4 order      WriteData / WriteWorkingData write the master list in index order 0..n-1, once per index
 R5 select i/o every kind of SELECT member is written, by both emitted writers of a generated SELECT class
               (STEPwrite_content, STEPwrite_verbose), with the run-time writer that pairs with the reader the emitted
               STEPread_content uses for that kind (ReadReal <-> WriteReal, ReadInteger <-> stream insertion, ...)
"""
import re
from engines import flatten_switch, call_args
from ir import walk, strip, expr_str, access_path
from rules import c09

PID = "C01"
UNITS = dict(components={"clstepcore", "cldai", "clutils", "cleditor", "exp2cxx"}, files=["src/express/ordered_attrs.cc"])
EXPLANATION = (
    "Structural clauses of the round trip: (R1) sibling agreement of the dispatch on PrimitiveType in "
    "STEPattribute::{STEPread, STEPwrite, asStr, set_null, is_null, ShallowCopy, StrToVal, ValidLevel}: every kind "
    "that has a non-error arm in STEPread has one in each sibling (arms that only report an internal error count as "
    "unhandled); (R2) out-parameter contract of the virtual slot STEPnode::STEPwrite(std::string&, const char*) / "
    "asStr(std::string&): on every path the first effect of each override (through the summaries of the value writers "
    "it forwards to) on the string parameter is an overwrite, never an append, so the shared scratch string of the "
    "element loops cannot carry text from one element to the next; (R3) writer constants and enumeration item "
    "matching (rules of C09); (R4) the data writers iterate the instance list from 0 to count-1 in increasing order; "
    "(R5) in the generator of SELECT classes the three switches over the member's type kind that emit STEPread_content, "
    "STEPwrite_content and STEPwrite_verbose agree kind by kind: a kind read with ReadReal is written with WriteReal by both "
    "writers, ReadInteger with a stream insertion, ReadEntityRef with STEPwrite_reference, STEPread with STEPwrite "
    "(reader/writer pairs frozen from the run-time library). "
    "Not decided: value preservation (escapes, numeric round trip), byte equality of the second write, header and "
    "complex-instance serialisation."
    " (R7) every aggregate reader decides `_null` itself on every path to a successful return. (R8) `*` is written only for an attribute re-declared in a DERIVE clause: every store of an entity into orderedAttr::deriver is reached only where the re-declaring Variable's initializer was seen non-null, and the generator emits MakeDerived() only under that mark. (R12) the string-literal scanner confirms a closing apostrophe by look-ahead (rule of C09).")

SIBLINGS = ["STEPattribute::STEPread", "STEPattribute::STEPwrite", "STEPattribute::asStr", "STEPattribute::set_null",
            "STEPattribute::is_null", "STEPattribute::ShallowCopy", "STEPattribute::StrToVal", "STEPattribute::ValidLevel"]
# kinds that cannot occur as the base type of an attribute (confirmed by reading the dictionary builder)
NOT_ATTR_KINDS = {"sdaiAGGR": "generic aggregate tag, concrete aggregates use ARRAY/BAG/SET/LIST_TYPE",
                  "GENERIC_TYPE": "never a stored attribute type", "UNKNOWN_TYPE": "placeholder", "REFERENCE_TYPE": "resolved to the referenced type (NonRefType)"}


def error_arm(stmts):
    """an arm that only reports an internal error / does nothing useful"""
    txt = " ".join(expr_str(s) for s in stmts if s is not None)
    has_call = any(x["k"] == "Call" for s in stmts if s is not None for x in walk(s))
    if "Internal error" in txt or "_POC_" in txt:
        return True
    for s in stmts:
        for x in walk(s) if s is not None else []:
            if x["k"] == "Str" and ("Internal error" in x.get("s", "") or "report problem" in x.get("s", "")):
                return True
    return False


# active member of the attribute value union per kind (include/clstepcore/STEPattribute.h)
UNION_MEMBER = {"sdaiINTEGER": {"i"}, "sdaiREAL": {"r"}, "sdaiNUMBER": {"r"}, "sdaiSTRING": {"S"}, "sdaiBINARY": {"b"},
                "sdaiENUMERATION": {"e"}, "sdaiBOOLEAN": {"e"}, "sdaiLOGICAL": {"e"}, "sdaiSELECT": {"sh"}, "sdaiINSTANCE": {"c"},
                "sdaiAGGR": {"a"}, "ARRAY_TYPE": {"a"}, "BAG_TYPE": {"a"}, "SET_TYPE": {"a"}, "LIST_TYPE": {"a"}}


def arm_members(f, pt):
    """-> {kind value or 'default': set of ptr.<member> names used in that arm}"""
    best = None
    for n in f.walk():
        if n["k"] == "Switch" and "PrimitiveType" in f.ty(strip(n["ch"][0])):
            items = flatten_switch(n)
            if best is None or len(items) > len(best):
                best = items
    if best is None:
        return None
    out = {}
    for i, (labs, stmt) in enumerate(best):
        body = []
        for labs2, st in best[i:]:
            body.append(st)
            if st is not None and any(x["k"] in ("Break", "Return") for x in walk(st)):
                break
        mem = set()
        for st in body:
            for x in walk(st) if st is not None else []:
                if x["k"] == "Member" and x.get("ch"):
                    b = strip(x["ch"][0])
                    if b is not None and b["k"] == "Member" and b["n"] == "ptr":
                        # distinguish this->ptr from sa->ptr: only the member name matters for the active-member rule
                        mem.add(x["n"])
        for l in labs:
            out[l] = mem
    return out


def arms_of(f, pt):
    """-> {kind value: 'handled'|'error'} for the widest switch over PrimitiveType in f"""
    best = None
    for n in f.walk():
        if n["k"] == "Switch" and "PrimitiveType" in f.ty(strip(n["ch"][0])):
            items = flatten_switch(n)
            if best is None or len(items) > len(best[1]):
                best = (n, items)
    if best is None:
        return None, None
    sw, items = best
    out = {}
    default = None
    for i, (labs, stmt) in enumerate(items):
        body = []
        for labs2, st in items[i:]:
            body.append(st)
            if st is not None and any(x["k"] in ("Break", "Return") for x in walk(st)):
                break
        kind = "error" if error_arm(body) else "handled"
        for l in labs:
            if l == "default":
                default = kind
            else:
                out[l] = kind
    return out, default


def r1_dispatch(prog, res):
    pt = prog.enums.get("PrimitiveType")
    if not pt:
        res.broke("anchor vanished: enum PrimitiveType")
        return
    names = {}
    for k, v in pt.items():
        names.setdefault(v, k)
    ref = [f for f in prog.by_name.get("STEPattribute::STEPread", []) if "istream" in f.key]
    if not ref:
        res.broke("anchor vanished: STEPattribute::STEPread(istream&)")
        return
    ref_arms, ref_def = arms_of(ref[0], pt)
    accepted = sorted(v for v, k in ref_arms.items() if k == "handled")
    res.info["r1_reader_kinds"] = [names.get(v, v) for v in accepted]
    n = 0
    for name in SIBLINGS:
        for f in prog.by_name.get(name, []):
            arms, default = arms_of(f, pt)
            if arms is None:
                continue
            if len(arms) < 6:
                continue      # not a full dispatch (helper switch)
            variant = f.key[len(name):][:40]
            for v in accepted:
                n += 1
                state = arms.get(v, default)
                ok = state == "handled"
                kn = names.get(v, str(v))
                res.add("R1.sibling_dispatch", "R1|%s|%s%s|%s" % (f.relfile(), name, variant, kn), f.where(), ok,
                        "%s handles %s" % (name.split("::")[-1], kn) if ok else
                        "%s has no (non-error) arm for %s although STEPread accepts attributes of that kind" % (name + variant, kn))
    res.floor("R1.sibling_dispatch", "kind x sibling cells", n, 60)
    # active union member per arm
    m = 0
    for name in SIBLINGS:
        for f in prog.by_name.get(name, []):
            am = arm_members(f, pt)
            if not am or len(am) < 6:
                continue
            variant = f.key[len(name):][:40]
            for v in accepted:
                kn = names.get(v, str(v))
                allowed = UNION_MEMBER.get(kn)
                if allowed is None:
                    continue
                used = am.get(v, am.get("default", set()))
                if not used:
                    continue
                m += 1
                ok = used <= allowed
                res.add("R1.active_union_member", "R1u|%s|%s%s|%s" % (f.relfile(), name, variant, kn), f.where(), ok,
                        "arm for %s touches ptr.%s" % (kn, "/".join(sorted(used))) if ok else
                        "%s: the arm that handles %s touches ptr.%s, but the active member for that kind is ptr.%s" %
                        (name + variant, kn, "/".join(sorted(used - allowed)), "/".join(sorted(allowed))))
    res.floor("R1.active_union_member", "kind x sibling cells using the value union", m, 40)


def summarize_outparam(prog, f, pidx, depth=0, memo=None):
    """'overwrite' | 'append' | 'untouched' | 'unknown' : first effect of f on its std::string& parameter #pidx, worst over paths"""
    memo = memo if memo is not None else {}
    k = (f.key, pidx)
    if k in memo:
        return memo[k]
    memo[k] = "unknown"
    if pidx >= len(f.params) or f.cfg is None:
        return "unknown"
    d = f.params[pidx]["d"]
    cfg = f.cfg
    # classify each element that touches the parameter
    eff = {}
    for b, blk in cfg.blocks.items():
        for i, e in enumerate(blk["e"]):
            n = f.nodes[e]
            kind = None
            if n["k"] == "Call":
                args = n.get("ch") or []
                recv = strip(args[0]) if n.get("member") and args else None
                short = (n.get("fn") or "").split("::")[-1]
                if n.get("opcall") in ("=",) and args and strip(args[0]) is not None and strip(args[0]).get("d") == d:
                    kind = "overwrite"
                elif n.get("opcall") in ("+=",) and args and strip(args[0]) is not None and strip(args[0]).get("d") == d:
                    kind = "append"
                elif recv is not None and recv.get("d") == d and (n.get("fn") or "").startswith("std::"):
                    if short in ("clear", "assign", "operator=", "swap"):
                        kind = "overwrite"
                    elif short in ("append", "push_back", "operator+=", "insert"):
                        kind = "append"
                    elif short in ("c_str", "length", "size", "empty", "data", "begin", "end", "compare", "find"):
                        kind = None
                else:
                    # forwarded to a first-party callee as std::string&
                    cargs = call_args(n)
                    for ai, a in enumerate(cargs):
                        s = strip(a)
                        if s is not None and s["k"] == "Ref" and s.get("d") == d:
                            tgts = prog.callees_of_call(n)
                            if not tgts:
                                kind = "unknown"
                            else:
                                ks = set()
                                for t in tgts:
                                    if depth > 4:
                                        ks.add("unknown")
                                    else:
                                        ks.add(summarize_outparam(prog, t, ai, depth + 1, memo))
                                order = ["append", "unknown", "untouched", "overwrite"]
                                kind = sorted(ks, key=order.index)[0]
            if kind is not None:
                eff[(b, i)] = kind
    # worst first-effect over all paths from entry
    from collections import deque
    dq = deque([(cfg.entry, 0)])
    seen = set()
    results = set()
    while dq:
        b, i = dq.popleft()
        blk = cfg.blocks[b]
        hit = None
        for j in range(i, len(blk["e"])):
            if (b, j) in eff and eff[(b, j)] != "untouched":
                hit = eff[(b, j)]
                break
        if hit:
            results.add(hit)
            continue
        if b == cfg.exit or not cfg.succ[b]:
            results.add("untouched")
            continue
        for s in cfg.succ[b]:
            if s not in seen:
                seen.add(s)
                dq.append((s, 0))
    order = ["append", "unknown", "untouched", "overwrite"]
    out = sorted(results, key=order.index)[0] if results else "untouched"
    memo[k] = out
    return out


def r2_outparam(prog, res):
    n = 0
    memo = {}
    bases = []
    for r in prog.records.values():
        if r["name"] == "STEPnode":
            for m in r["methods"]:
                if m["name"] in ("STEPwrite", "asStr") and m["params"] and "basic_string" in (r["_types"][m["params"][0]["t"]] if m["params"][0]["t"] < len(r["_types"]) else ""):
                    bases.append(m["key"])
    if not bases:
        res.broke("anchor vanished: STEPnode::STEPwrite(std::string&, ..) / asStr(std::string&)")
        return
    for bk in bases:
        impls = prog.overriders(bk) + [f for (k, _), f in prog.functions.items() if k == bk]
        for f in impls:
            n += 1
            s = summarize_outparam(prog, f, 0, 0, memo)
            is_base = f.key == bk
            ok = s == "overwrite" or (is_base and s in ("untouched", "overwrite"))
            res.add("R2.element_writer_overwrites", "R2|%s|%s" % (f.relfile(), f.key.split("(")[0] + ("(std::string&)" if "asStr" in f.key else "(std::string&,..)")),
                    f.where(), ok,
                    "first effect on the out-parameter on every path: %s" % s if ok else
                    "this element writer's first effect on its std::string& out-parameter is `%s` on some path: with the shared "
                    "scratch string of the aggregate loops an element's text then contains the previous elements" % s,
                    {"summary": s})
    res.floor("R2.element_writer_overwrites", "overrides of the element writer slot", n, 14)
    # the loops themselves use the value of the current call only
    for name in ("STEPaggregate::asStr", "STEPaggregate::STEPwrite"):
        for f in prog.by_name.get(name, []):
            loops = [l for l in f.walk() if l["k"] == "While"]
            for l in loops:
                calls = [c for c in walk(l) if c["k"] == "Call" and (c.get("fn") or "").endswith("STEPnode::STEPwrite")]
                if not calls:
                    continue
                c = calls[0]
                par = f.parent.get(c["i"])
                used = par is not None and par["k"] == "Call"       # s.append( n->STEPwrite(tmp) ) / out << n->STEPwrite(s)
                res.add("R2.loop_uses_current", "R2|%s|%s|element-loop" % (f.relfile(), name), f.where(c), used,
                        "the loop emits the return value of the current element's writer" if used else
                        "the element loop does not use the value returned for the current element")


def r4_order(prog, res):
    n = 0
    for name in ("STEPfile::WriteData", "STEPfile::WriteWorkingData", "STEPfile::WriteValuePairsData"):
        f = prog.one(name)
        if f is None:
            if name != "STEPfile::WriteValuePairsData":
                res.broke("anchor vanished: " + name)
            continue
        loops = [l for l in f.walk() if l["k"] == "For"]
        ok = False
        why = "no counting loop over the instance list"
        for l in loops:
            init, cond, inc, body = l["ch"]
            if init is None or cond is None or inc is None:
                continue
            iv = [v for v in walk(init) if v["k"] == "Var"]
            c = strip(cond)
            i0 = iv[0] if iv else None
            start0 = i0 is not None and i0.get("ch") and strip(i0["ch"][0]).get("val") == 0
            lt = c["k"] == "Binary" and c["op"] == "<" and i0 is not None and strip(c["ch"][0]).get("d") == i0["d"]
            up = any(x["k"] == "Unary" and "++" in x["op"] for x in walk(inc))
            uses = any(x["k"] == "Call" and (x.get("fn") or "").endswith("GetMgrNode") and
                       any(y["k"] == "Ref" and i0 is not None and y.get("d") == i0["d"] for y in walk(x)) for x in walk(body))
            if start0 and lt and up and uses:
                ok = True
            else:
                why = "loop shape: starts at 0=%s, `<` bound=%s, increments=%s, indexes GetMgrNode(i)=%s" % (start0, lt, up, uses)
        n += 1
        res.add("R4.write_order", "R4|src/cleditor/STEPfile.cc|%s|loop" % name, f.where(), ok,
                "instances are written for i = 0 .. count-1 in increasing order" if ok else why)
    res.floor("R4.write_order", "data writer loops", n, 2)


# reader primitive -> the writer primitive that prints what it parses (clstepcore/read_func.cc, sdai*.cc)
IO_PAIRS = {"ReadReal": "WriteReal", "ReadInteger": "<<", "ReadEntityRef": "STEPwrite_reference", "STEPread": "STEPwrite",
            "STEPread_content": "STEPwrite"}
READ_TOKENS = ("ReadReal", "ReadInteger", "ReadEntityRef", "STEPread_content", "STEPread")
WRITE_TOKENS = ("WriteReal", "STEPwrite_reference", "STEPwrite_verbose", "STEPwrite")


def _arm_tokens(f, sw, tokens):
    """-> {label value / 'default': set of tokens found in the text emitted by that arm}"""
    out = {}
    items = flatten_switch(sw)
    for i, (labs, stmt) in enumerate(items):
        if not labs:
            continue
        body = []
        for _, st in items[i:]:
            if st is not None:
                body.append(st)
                if any(y["k"] in ("Break", "Return") for y in walk(st)):
                    break
        text = ""
        for st in body:
            for c in walk(st):
                if c["k"] == "Call" and (c.get("fn") or "") == "fprintf":
                    a = call_args(c)
                    if len(a) >= 2 and strip(a[1]) is not None and strip(a[1])["k"] == "Str":
                        text += strip(a[1])["s"]
        found = set()
        rest = text
        for t in tokens:
            if re.search(r"\b%s\b" % re.escape(t), rest):
                found.add(t)
                rest = re.sub(r"\b%s\b" % re.escape(t), " ", rest)
        if re.search(r"<<\s*_%s", text):
            found.add("<<")
        for l in labs:
            out[l] = found
    return out


def r5_select_io(prog, res):
    fs = prog.fn("TYPEselect_lib_part21")
    if not fs:
        res.broke("anchor vanished: TYPEselect_lib_part21 (generator of the Part 21 i/o of SELECT classes)")
        return
    f = fs[0]
    heads = []
    for c in f.calls():
        if (c.get("fn") or "") == "fprintf":
            a = call_args(c)
            if len(a) >= 2 and strip(a[1]) is not None and strip(a[1])["k"] == "Str":
                m = re.search(r"%s::(\w+)\s*\(", strip(a[1])["s"])
                if m:
                    heads.append(((c["l"], c.get("c", 0)), m.group(1)))
    heads.sort()
    by_fn = {}
    for sw in [x for x in f.walk() if x["k"] == "Switch"]:
        prev = [h for pos, h in heads if pos <= (sw["l"], sw.get("c", 0))]
        if prev:
            by_fn.setdefault(prev[-1], sw)
    need = ("STEPread_content", "STEPwrite_content", "STEPwrite_verbose")
    if any(k not in by_fn for k in need):
        res.broke("R5: could not find the kind switch of %s in TYPEselect_lib_part21" % [k for k in need if k not in by_fn])
        return
    kinds = {v: k for k, v in next((items for items in prog.enums.values() if "number_" in items), {}).items()}
    rd = _arm_tokens(f, by_fn["STEPread_content"], READ_TOKENS)
    n = 0
    for wname in ("STEPwrite_content", "STEPwrite_verbose"):
        wr = _arm_tokens(f, by_fn[wname], WRITE_TOKENS)
        for lab, rt in sorted(rd.items(), key=lambda kv: str(kv[0])):
            if lab == "default" or not rt:
                continue
            wt = wr.get(lab, wr.get("default", set()))
            want = {IO_PAIRS[t] for t in rt if t in IO_PAIRS}
            have = {("STEPwrite" if t == "STEPwrite_verbose" else t) for t in wt}
            n += 1
            kn = kinds.get(lab, str(lab))
            ok = bool(want) and want <= have and not (("WriteReal" in have) != ("WriteReal" in want))
            res.add("R5.select_member_io_pair", "R5|src/exp2cxx/selects.c|TYPEselect_lib_part21|%s|%s" % (wname, kn), f.where(by_fn[wname]), ok,
                    "%s members are read with %s and written by %s with %s" % (kn, sorted(rt), wname, sorted(wt)) if ok else
                    "%s members are read with %s, which pairs with %s, but the emitted %s writes them with %s: the value is not "
                    "written in the form the reader parses back to the same value (e.g. a REAL through a plain stream insertion loses "
                    "digits and the decimal point)" % (kn, sorted(rt), sorted(want), wname, sorted(wt) or "nothing recognised"))
    res.floor("R5.select_member_io_pair", "(writer, kind) pairs of the SELECT emitter", n, 20)


def r7_aggregate_null_flag(prog, res):
    """An aggregate reader decides `_null` itself.  `()` (an empty list) and `$` (unset) are different values and the writers print one or
    the other from `_null` alone, so every reader method of STEPaggregate and its subclasses that can return a severity taken from the
    descriptor (the return that a successfully read value takes) must, on every path to that return, have stored a constant in `_null`
    after its last call of a non-const method of the aggregate (Empty(), AddNode() ... may have set the flag either way; AddNode is only
    reached when there is an element).  The value stored on the path that saw the closing parenthesis must be `false`."""
    import pathstate
    classes = {"STEPaggregate"} | prog.subclasses("STEPaggregate")
    n = 0
    cands = []
    for f in prog.all_functions():
        if f.component == "test" or f.cfg is None or "::" not in f.name:
            continue
        cls = f.name.rsplit("::", 1)[0]
        if cls not in classes:
            continue
        if not any("istream" in (f.tyname(p_["t"]) if isinstance(p_.get("t"), int) else "") for p_ in f.params):
            continue
        rt = f.tyname(f.raw.get("ret")) if isinstance(f.raw.get("ret"), int) else ""
        if "Severity" not in rt:
            continue
        cands.append(f)
    readers = {f.name for f in cands}
    for f in cands:
        cls = f.name.rsplit("::", 1)[0]
        # delegating readers (every return is a call of another reader of the same object) are decided through the callee
        rets = [r for r in f.walk() if r["k"] == "Return" and r.get("ch") and r["ch"][0] is not None]

        def delegates(r):
            e = strip(r["ch"][0])
            while e is not None and e["k"] == "Cast" and e.get("ch"):
                e = strip(e["ch"][0])
            if e is None or e["k"] != "Call" or not e.get("member") or not e.get("ch"):
                return False
            b = strip(e["ch"][0])
            while b is not None and b["k"] in ("Cast", "Member") and b.get("ch"):
                b = strip(b["ch"][0])
            return b is not None and b["k"] == "This"
        if rets and all(delegates(r) for r in rets):
            continue
        q = cls + "::_null"
        bad = {}
        seen_ret = set()

        def on_node(nd, ts, env, q=q, bad=bad, seen_ret=seen_ret, readers=readers):
            k = nd["k"]
            if k == "Assign" and nd.get("op", "=") == "=":
                l = strip(nd["ch"][0])
                if l is not None and l["k"] == "Member" and (l.get("q") or "").endswith("::_null") and l.get("ch") and \
                        strip(l["ch"][0]) is not None and strip(l["ch"][0])["k"] in ("This", "Cast"):
                    v = strip(nd["ch"][1])
                    while v is not None and v["k"] == "Cast" and v.get("ch") and "val" not in v:
                        v = strip(v["ch"][0])
                    return ("set", v.get("val") if v is not None else None)
                return ts
            if k == "Call" and nd.get("member") and nd.get("ch") and not (nd.get("fk") or "").endswith("const"):
                r = strip(nd["ch"][0])
                while r is not None and r["k"] == "Cast" and r.get("ch"):
                    r = strip(r["ch"][0])
                if r is not None and r["k"] == "This":
                    if (nd.get("fn") or "") in readers:
                        return ("set", 0)      # another reader of the same object decided it (checked as its own obligation)
                    return ("callee", (nd.get("fn") or "?").rsplit("::", 1)[-1])
                return ts
            if k == "Return" and nd.get("ch") and nd["ch"][0] is not None:
                e = strip(nd["ch"][0])
                while e is not None and e["k"] == "Cast" and e.get("ch") and "val" not in e:
                    e = strip(e["ch"][0])
                if e is not None and isinstance(e.get("val"), int):
                    return ts          # a constant severity: the early error / unset exits
                seen_ret.add(nd["i"])
                if ts[0] != "set" or ts[1] != 0:
                    bad.setdefault(nd["i"], (nd, ts))
            return ts
        try:
            pathstate.walk(f, ("entry", None), on_node)
        except pathstate.Budget as ex:
            res.broke("R7: %s" % ex)
            continue
        if not seen_ret:
            continue
        n += 1
        b = sorted(bad.values(), key=lambda h: h[0]["l"])
        res.add("R7.aggregate_null_flag_decided", "R7|%s|%s" % (f.relfile(), f.name), f.where(b[0][0]) if b else f.where(), not b,
                "every path to a return of the descriptor's severity stores `_null = false` after the last non-const call on the aggregate"
                if not b else
                "a path reaches `return %s` with `_null` %s: an empty aggregate `()` read on that path keeps whatever the flag was, and the "
                "writer prints `$` for it" % (expr_str(b[0][0]["ch"][0])[:40],
                                               "last touched by the callee %s()" % b[0][1][1] if b[0][1][0] == "callee" else
                                               "never assigned in this function" if b[0][1][0] == "entry" else "set to %r" % (b[0][1][1],)))
    res.floor("R7.aggregate_null_flag_decided", "aggregate readers with a non-constant severity return", n, 3)


def r8_derived_mark(prog, res):
    """`*` is written for an attribute that a subtype re-declares in its DERIVE clause, and only for that.  The generator learns it
    from `orderedAttr::deriver` (initializeAttrs() emits MakeDerived() for every entry that has one, and STEPattribute::STEPwrite
    prints `*` for a derived attribute before it looks at anything else), so every store of an entity into `deriver` must stand on
    paths where the re-declaring Variable's `initializer` was seen non-null: an explicit re-declaration (`SELF\\a.x : narrower;`)
    keeps its value in the file.  Second clause: the emission of MakeDerived() is still decided by `deriver`."""
    import pathstate
    from engines import is_null_const, enclosing_conditions, conjuncts
    n = 0

    def test_of(cn, fn=None, depth=0):
        """(decl of the Variable whose initializer is tested, polarity) of an atomic condition"""
        pol = True
        c = strip(cn)
        while c is not None:
            if c["k"] == "Unary" and c.get("op") == "!":
                pol = not pol
                c = strip(c["ch"][0])
                continue
            if c["k"] == "Paren" and c.get("ch"):
                c = strip(c["ch"][0])
                continue
            if c["k"] == "Binary" and c.get("op") in ("!=", "==") and len(c.get("ch") or []) == 2:
                a, b = c["ch"]
                if is_null_const(b):
                    other = a
                elif is_null_const(a):
                    other = b
                else:
                    return None
                if c["op"] == "==":
                    pol = not pol
                c = strip(other)
                continue
            break
        if c is not None and c["k"] == "Ref" and c.get("dk") == "local" and fn is not None and depth < 3:
            # a flag that is initialised once and never assigned again stands for its initialiser
            ini = [v_ for v_ in fn.walk() if v_["k"] == "Var" and v_.get("d") == c.get("d") and v_.get("ch") and v_["ch"][0] is not None]
            asg = [a_ for a_ in fn.walk() if a_["k"] == "Assign" and strip(a_["ch"][0]) is not None and strip(a_["ch"][0])["k"] == "Ref" and
                   strip(a_["ch"][0]).get("d") == c.get("d")]
            if len(ini) == 1 and not asg:
                t = test_of(ini[0]["ch"][0], fn, depth + 1)
                return None if t is None else (t[0], t[1] == pol)
            return None
        if c is None or c["k"] != "Member" or not (c.get("q") or "").endswith("Variable_::initializer") or not c.get("ch"):
            return None
        b = strip(c["ch"][0])
        return (b.get("d") if b is not None and b["k"] == "Ref" else expr_str(b), pol)

    for f in prog.all_functions():
        if f.component == "test" or f.cfg is None:
            continue
        stores = []
        for a in f.walk():
            if a["k"] == "Assign" and a.get("op", "=") == "=" and a.get("ch"):
                l = strip(a["ch"][0])
                if l is not None and l["k"] == "Member" and l.get("n") == "deriver" and \
                        not is_null_const(a["ch"][1]):
                    stores.append(a)
        if not stores:
            continue
        bad = {}
        ids = {a["i"] for a in stores}

        def on_node(nd, ts, env, bad=bad, ids=ids):
            k = nd["k"]
            if k in ("Assign", "Var") and ts:
                d = None
                if k == "Var":
                    d = nd.get("d")
                elif nd.get("ch"):
                    l = strip(nd["ch"][0])
                    if l is not None and l["k"] == "Ref":
                        d = l.get("d")
                if d is not None:
                    ts = tuple(t for t in ts if t[0] != d)
            if nd["i"] in ids and not any(t[1] for t in ts):
                bad.setdefault(nd["i"], nd)
            return ts

        def on_edge(cn, br, ts, env, f=f):
            t = test_of(cn, f)
            if t is None:
                return ts
            return tuple(sorted(set(x for x in ts if x[0] != t[0]) | {(t[0], t[1] == br)}))
        try:
            pathstate.walk(f, (), on_node, on_edge=on_edge)
        except pathstate.Budget as ex:
            res.broke("R8: %s" % ex)
            continue
        for a in stores:
            n += 1
            ok = a["i"] not in bad
            res.add("R8.derived_mark_follows_derive_clause", "R8|%s|%s|%s" % (f.relfile(), f.name, expr_str(a["ch"][0])[:40]),
                    f.where(a), ok,
                    "`%s = %s` is reached only where the re-declaring attribute's `initializer` is non-null" %
                    (expr_str(a["ch"][0])[:40], expr_str(a["ch"][1])[:20]) if ok else
                    "`%s = %s` is reached on a path that has not seen the re-declaring attribute's `initializer` non-null: an explicit "
                    "re-declaration (`SELF\\super.attr : narrower_type;`) then makes the generated constructor call MakeDerived() and the "
                    "attribute's value is written back as `*`" % (expr_str(a["ch"][0])[:40], expr_str(a["ch"][1])[:20]))
    res.floor("R8.derived_mark_follows_derive_clause", "stores of an entity into orderedAttr::deriver", n, 2)
    # the emission is decided by the mark
    m = 0
    for f in prog.all_functions():
        if f.component != "exp2cxx":
            continue
        for c in f.walk():
            if c["k"] != "Call" or (c.get("fn") or "").rsplit("::", 1)[-1] != "fprintf":
                continue
            fmt = next((x.get("s") for x in walk(c) if x["k"] == "Str" and "MakeDerived(" in (x.get("s") or "")), None)
            if fmt is None:
                continue
            m += 1
            facts_ = []
            for cond, br in enclosing_conditions(f, c):
                facts_.extend(conjuncts(cond, br))
            ok = any(pol and strip(nd_) is not None and strip(nd_)["k"] == "Member" and
                     strip(nd_).get("n") == "deriver" for nd_, pol in facts_)
            res.add("R8.derived_mark_follows_derive_clause", "R8|emit|%s|%s" % (f.relfile(), f.name), f.where(c), ok,
                    "MakeDerived() is emitted only for entries whose `deriver` is set" if ok else
                    "MakeDerived() is emitted without testing the entry's `deriver`: attributes nobody derives are written as `*`")
    res.floor("R8.derived_mark_follows_derive_clause", "emissions of MakeDerived() in the generator", m, 1)


def run(prog, res, tier):
    r8_derived_mark(prog, res)
    r7_aggregate_null_flag(prog, res)
    r5_select_io(prog, res)
    r1_dispatch(prog, res)
    r2_outparam(prog, res)
    c09.r4_writer_tokens(prog, res)
    c09.r6_enum_item_match(prog, res)
    c09.r9_lookahead_not_stale(prog, res)
    c09.r10_integer_buffer_fits(prog, res)
    c09.r12_closing_quote_lookahead(prog, res)
    r4_order(prog, res)
