"""Shared driver for the memory-safety / termination clauses of C05 (runtime) and C06 (EXPRESS tools):
E2 bufbound + E3 stuckstream + who-may-terminate, parameterised by a configuration dict."""
import bufbound
import stuckstream
from absint import INF
from ir import walk, strip, expr_str, access_path


def reach(prog, cfg):
    keys = []
    for name in cfg["entries"]:
        for f in prog.by_name.get(name, []):
            if cfg.get("entry_components") is None or f.component in cfg["entry_components"]:
                keys.append(f.key)
    return prog.reachable_from(keys), keys


def run_e2(prog, res, cfg, reachable):
    """-> L* (largest identifier length for which every assumption-discharged write is safe)"""
    ident = cfg["ident_fns"]
    nfun = 0
    summaries = {}
    per_fn = []
    # pass 1: parameter summaries
    for f in prog.all_functions():
        if f.component == "test" or f.cfg is None or any(f.file.endswith(x) for x in cfg["exclude_files"]):
            continue
        fb = bufbound.FnBuf(prog, f, ident, cfg.get("input_fns"), summaries={}, path_fns=cfg.get("path_fns"))
        fb.param_is_ident = f.component in cfg.get("param_is_ident_components", ())
        sites = fb.analyse()
        for s in sites:
            if s["kind"] == "summary" and s["need"][0] == "unbounded" and len(s["need"]) == 1 and fb.param_is_ident and \
                    f.name not in cfg.get("unbounded_writers", ()):
                s["need"] = ("unbounded", "ident", "a name built by %s" % f.name)
            if s["kind"] == "summary":
                summaries.setdefault(f.key, [])
                if (s["pidx"], s["need"]) not in summaries[f.key]:
                    summaries[f.key].append((s["pidx"], s["need"]))
    # keep the worst need per parameter
    for k, lst in summaries.items():
        best = {}
        for pidx, need in lst:
            cur = best.get(pidx)
            rank = {"const": 0, "strlen_param": 1, "unbounded": 2}[need[0]]
            if cur is None or rank > {"const": 0, "strlen_param": 1, "unbounded": 2}[cur[0]] or \
                    (need[0] == "const" and cur[0] == "const" and need[1] > cur[1]):
                best[pidx] = need
        summaries[k] = list(best.items())
    lstar = INF
    counters = {}
    site_table = {}
    n_sites = {"index": 0, "lib": 0, "ptr": 0, "summary": 0}
    unreachable_sites = 0
    for f in prog.all_functions():
        if f.component == "test" or f.cfg is None or any(f.file.endswith(x) for x in cfg["exclude_files"]):
            continue
        nfun += 1
        fb = bufbound.FnBuf(prog, f, ident, cfg.get("input_fns"), summaries=summaries, path_fns=cfg.get("path_fns"))
        fb.path_params = cfg.get("path_params", set())
        fb.param_is_ident = f.component in cfg.get("param_is_ident_components", ())
        fb.param_ident = cfg.get("param_ident", set())
        sites = fb.analyse()
        on_path = f.key in reachable
        for s in sites:
            if s["kind"] == "summary":
                n_sites["summary"] += 1
                continue
            if not on_path:
                unreachable_sites += 1
                continue
            if s["kind"] == "ptr" and not cfg.get("heap_sites", True):
                n_sites["heap_not_decided"] = n_sites.get("heap_not_decided", 0) + 1
                continue
            n_sites[s["kind"]] = n_sites.get(s["kind"], 0) + 1
            base = "E2|%s|%s|%s->%s" % (f.relfile(), f.name, s["what"].split(" ")[0] if s["kind"] != "index" else "store", s["buf"])
            c = counters.get(base, 0)
            counters[base] = c + 1
            key = base if c == 0 else "%s#%d" % (base, c)
            exc = cfg.get("e2_exceptions", {}).get(key)
            if not s["ok"] and exc:
                res.add("E2.bounded_write", key, f.where(s["node"]), True, "%s — accepted: %s" % (s["detail"], exc), assume=exc)
                continue
            assume = None
            if s["cls"] == "assume":
                assume = "schema identifiers are at most %s bytes long" % bufbound.fmt_b(s.get("lstar"))
                if s.get("lstar") is not None:
                    lstar = min(lstar, s["lstar"])
            elif s["cls"] == "ok" and "path" in s["detail"]:
                assume = None
            ok = s["ok"]
            msg = ("%s into %s[%s]: %s" % (s["what"], s["buf"], s["cap"], s["detail"]))[:400]
            ref = cfg.get("e2_reference")
            if ok:
                site_table[key] = {"cls": s["cls"], "lstar": (None if s.get("lstar") in (None, INF) else int(s["lstar"]))}
            if ref is not None and ok:
                cur = site_table[key]
                old = ref.get(key)
                rank = {"ok": 0, "assume": 1}
                if old is not None:
                    if rank.get(cur["cls"], 2) > rank.get(old["cls"], 2):
                        ok = False
                        msg += " — REGRESSION: this write was bounded outright on the reference tree and now depends on the identifier-length assumption"
                    elif cur["cls"] == "assume" and old.get("lstar") is not None and cur["lstar"] is not None and cur["lstar"] < old["lstar"]:
                        ok = False
                        msg += " — REGRESSION: safe identifier length at this site dropped from %s to %s" % (old["lstar"], cur["lstar"])
                elif cur["cls"] == "assume" and cur["lstar"] is not None and cur["lstar"] < cfg.get("lstar_floor", 0):
                    ok = False
                    msg += " — new site whose safe identifier length %s is below the floor L* = %s" % (cur["lstar"], cfg.get("lstar_floor"))
            res.add("E2.bounded_write", key, f.where(s["node"]), ok, msg, {"class": s["cls"]}, assume=assume)
    res.info["e2_functions"] = nfun
    res.info["e2_sites"] = n_sites
    res.info["e2_sites_off_the_file_path"] = unreachable_sites
    res.info["e2_identifier_length_safe_up_to"] = None if lstar == INF else lstar
    res.e2_site_table = site_table
    return lstar, n_sites


def run_e3(prog, res, cfg, reachable):
    cons = stuckstream.consumer_functions(prog)
    n = 0
    counters = {}
    for f in prog.all_functions():
        if f.component == "test" or f.cfg is None or any(f.file.endswith(x) for x in cfg["exclude_files"]):
            continue
        if f.key not in reachable:
            continue
        lc = stuckstream.LoopCheck(prog, f, cons, assume=cfg.get("e3_assume", {}).get(f.name))
        for s in lc.run():
            n += 1
            base = "E3|%s|%s|loop(%s)|%s" % (f.relfile(), f.name, "+".join(s["extractions"])[:60], s["mode"])
            c = counters.get(base, 0)
            counters[base] = c + 1
            key = base if c == 0 else "%s#%d" % (base, c)
            modetxt = "end of file" if s["mode"] == "A" else "failbit without eofbit"
            if s["ok"] is None:
                res.broke("E3: state explosion in %s loop at line %s" % (f.name, s["line"]))
                continue
            exc = cfg.get("e3_exceptions", {}).get(key)
            if not s["ok"] and exc:
                res.add("E3.stuck_stream_exit", key, "%s:%s" % (f.relfile(), s["line"]), True,
                        "accepted: %s" % exc, assume=exc)
                continue
            res.add("E3.stuck_stream_exit", key, "%s:%s" % (f.relfile(), s["line"]), s["ok"],
                    "loop leaves when %s is stuck at %s" % (s["stream"].split(":")[-1], modetxt) if s["ok"] else
                    "with %s stuck at %s an iteration can return to the loop head unchanged (lines %s): the loop does not terminate"
                    % (s["stream"].split(":")[-1], modetxt, [l for l in s["witness"] if l]),
                    {"extractions": s["extractions"]})
    res.info["e3_loops"] = n
    return n


def run_e3b(prog, res, cfg, reachable):
    """E3b progress: loops that look at the next character consume at least one character per iteration"""
    cons = stuckstream.consumer_functions(prog)
    pg = stuckstream.Progress(prog, cons)
    n = 0
    counters = {}
    for f in prog.all_functions():
        if f.component == "test" or f.cfg is None or any(f.file.endswith(x) for x in cfg["exclude_files"]):
            continue
        if f.key not in reachable:
            continue
        for s in pg.check_loops(f):
            n += 1
            base = "E3b|%s|%s|lookahead-loop" % (f.relfile(), f.name)
            c = counters.get(base, 0)
            counters[base] = c + 1
            key = base if c == 0 else "%s#%d" % (base, c)
            if s["ok"] is None:
                res.broke("E3b: state explosion in %s loop at line %s" % (f.name, s["line"]))
                continue
            exc = cfg.get("e3b_exceptions", {}).get(key)
            if not s["ok"] and exc:
                reason = exc["reason"] if isinstance(exc, dict) else exc
                only = set(exc.get("only_lookahead", ())) if isinstance(exc, dict) else None
                got = {w["lookahead"] for w in s["witness_all"]}
                if only is None or got <= only:
                    res.add("E3b.progress", key, "%s:%s" % (f.relfile(), s["line"]), True, "accepted: %s" % reason, assume=reason)
                    continue
                s["witness"] = [w for w in s["witness_all"] if w["lookahead"] not in only][:3]
            res.add("E3b.progress", key, "%s:%s" % (f.relfile(), s["line"]), s["ok"],
                    "every iteration that returns to the loop head has consumed at least one character (for each of the "
                    "look-ahead characters the loop and its consumers distinguish)" if s["ok"] else
                    "with next character %s an iteration returns to the loop head without consuming it: the loop sees the same "
                    "character again (livelock on well-formed-looking input)" % ", ".join(repr(w["lookahead"]) for w in s["witness"]),
                    {"undecided_paths": s.get("undecided_paths")})
    res.info["e3b_loops"] = n
    return n


def run_terminators(prog, res, cfg, reachable):
    """R3: process-terminating calls reachable from the entry points are limited to the frozen list"""
    allowed = cfg.get("terminators_allowed", {})
    n = 0
    counters = {}
    for f in prog.all_functions():
        if f.component == "test" or f.key not in reachable:
            continue
        for c in f.calls():
            fnm = c.get("fn") or ""
            if fnm in ("abort", "exit", "_exit", "quick_exit", "std::terminate", "__assert_fail", "std::abort", "std::exit"):
                n += 1
                base = "R3|%s|%s|%s" % (f.relfile(), f.name, fnm)
                k = counters.get(base, 0)
                counters[base] = k + 1
                key = base if k == 0 else "%s#%d" % (base, k)
                ok = key in allowed
                res.add("R3.no_new_terminator", key, f.where(c), ok,
                        "listed: %s" % allowed[key] if ok else
                        "%s() is reachable from the reader/writer entry points: input can end the process instead of an "
                        "ordinary severity/exit status" % fnm, assume=allowed.get(key))
    res.info["r3_terminator_sites"] = n
    return n


def run_strncpy_terminated(prog, res, cfg, reachable, rule="E2t.strncpy_terminated"):
    """strncpy( dst, src, N ) leaves dst without a terminator when src has N or more characters; what reads dst as a string
    afterwards runs past the copied bytes (into the uninitialised rest of the array and beyond).  For every call whose
    destination is a fixed char array and whose size argument is a constant, one of these must hold:
      * a store `dst[K] = 0` with constant K <= N is passed on every path from the call to the next use of dst;
      * the array was zero-filled by its declaration (`char b[S] = ..`) and N < S (the last byte stays 0), with no other store to it;
      * src is a string literal shorter than N;
      * src is built from schema identifiers (table ident_fns): discharged under the identifier-length assumption when N
        exceeds the identifier length L* the E2 sites already assume (recorded as assumption, not as a pass)."""
    from ir import walk, strip, array_len, expr_str
    from engines import call_args, is_null_const
    ident = cfg.get("ident_fns", set())
    n = 0
    counters = {}
    for f in prog.all_functions():
        if f.component == "test" or f.key not in reachable or f.cfg is None:
            continue
        if any(f.file.endswith(x) for x in cfg.get("exclude_files", ())):
            continue
        for c in f.calls():
            if (c.get("fn") or "") not in ("strncpy", "__builtin_strncpy", "__builtin___strncpy_chk"):
                continue
            a = call_args(c)
            if len(a) < 3:
                continue
            dst = strip(a[0])
            while dst is not None and dst["k"] == "Cast":
                dst = strip(dst["ch"][0])
            if dst is None or dst["k"] not in ("Ref", "Member"):
                continue
            S = array_len(f.ty(dst))
            N = strip(a[2]).get("val") if strip(a[2]) is not None else None
            if not S or not isinstance(N, int):
                continue
            n += 1
            base = "E2t|%s|%s|strncpy->%s" % (f.relfile(), f.name, dst.get("n"))
            k0 = counters.get(base, 0)
            counters[base] = k0 + 1
            key = base if k0 == 0 else "%s#%d" % (base, k0)
            dkey = dst.get("d") or dst.get("q")

            def same(x):
                x = strip(x)
                while x is not None and x["k"] == "Cast":
                    x = strip(x["ch"][0])
                return x is not None and x["k"] in ("Ref", "Member") and (x.get("d") or x.get("q")) == dkey

            def term_store(e):
                for y in walk(e):
                    if y["k"] == "Assign" and strip(y["ch"][0]) is not None and strip(y["ch"][0])["k"] == "Subscript":
                        sb = strip(y["ch"][0])
                        idx = strip(sb["ch"][1])
                        if same(sb["ch"][0]) and idx is not None and isinstance(idx.get("val"), int) and idx["val"] <= N and \
                                (is_null_const(y["ch"][1]) or (strip(y["ch"][1]) or {}).get("val") == 0):
                            return True
                return False
            src = strip(a[1])
            while src is not None and src["k"] == "Cast":
                src = strip(src["ch"][0])
            why = None
            assume = None
            if src is not None and src["k"] == "Str" and len(src.get("s", "")) < N:
                why = "the source literal has %d characters, fewer than the size argument %d" % (len(src["s"]), N)
            if why is None and N < S:
                # zero-filled by its declaration and never stored to above N
                decl = [y for y in f.walk() if y["k"] == "Var" and y.get("d") == dkey and y.get("ch") and y["ch"][0] is not None]
                other = [y for y in f.walk() if y["k"] == "Assign" and strip(y["ch"][0]) is not None and strip(y["ch"][0])["k"] == "Subscript" and
                         same(strip(y["ch"][0])["ch"][0]) and not is_null_const(y["ch"][1])]
                if decl and not other:
                    why = "the array is zero-filled by its declaration and at most %d of its %d bytes are overwritten" % (N, S)
            if why is None:
                # every path from the call to a later use of dst passes a terminating store
                pos = f.cfg.locate(c)
                uses = [y for y in f.walk() if y["k"] in ("Ref", "Member") and (y.get("d") or y.get("q")) == dkey and f.cfg.locate(y) is not None
                        and f.cfg.locate(y) != pos and not any(term_store(z) for z in [f.nodes.get(f.cfg.blocks[f.cfg.locate(y)[0]]["e"][f.cfg.locate(y)[1]])] if z is not None)]
                bad = [y for y in uses if f.cfg.reaches(pos, f.cfg.locate(y), term_store)]
                escapes = dst["k"] == "Member" or dst.get("dk") in ("global", "staticlocal", "param")
                if not bad and not escapes:
                    why = "a store of 0 at an index <= %d is passed before the array is used again" % N
                elif not bad and escapes and any(f.cfg.postdominates(f.cfg.locate(y), pos) for y in f.walk()
                                                 if y["k"] == "Assign" and term_store(y) and f.cfg.locate(y) is not None):
                    why = "a store of 0 at an index <= %d follows on every path" % N
            if why is None and N < S and dst["k"] == "Ref" and dst.get("dk") in ("global", "staticlocal"):
                # static storage is zero-initialised: the bytes from N on stay 0 unless something else stores there
                other = []
                for g in prog.all_functions():
                    for y in g.walk():
                        if y["k"] == "Assign" and strip(y["ch"][0]) is not None and strip(y["ch"][0])["k"] == "Subscript":
                            sb = strip(y["ch"][0])
                            b0 = strip(sb["ch"][0])
                            if b0 is not None and b0["k"] == "Ref" and b0.get("n") == dst.get("n") and b0.get("dk") == dst.get("dk"):
                                idx = strip(sb["ch"][1])
                                zero = is_null_const(y["ch"][1]) or (strip(y["ch"][1]) or {}).get("val") == 0
                                if not zero and not (idx is not None and isinstance(idx.get("val"), int) and idx["val"] < N):
                                    other.append(g.name)
                        if y["k"] == "Call" and (y.get("fn") or "") in ("strcpy", "strcat", "sprintf", "memcpy", "memset", "strncat") and call_args(y) and \
                                strip(call_args(y)[0]) is not None and strip(call_args(y)[0]).get("n") == dst.get("n") and strip(call_args(y)[0]).get("dk") == dst.get("dk"):
                            other.append(g.name)
                if not other:
                    why = "the array has static storage (zero-initialised), at most %d of its %d bytes are ever overwritten by strncpy and nothing else stores a non-zero byte from index %d on" % (N, S, N)
            if why is None and dst["k"] == "Member" and dst.get("q"):
                # a member array: every constructor of the class stores 0 at an index K with N <= K < S, and nothing stores there again
                cls = dst["q"].rsplit("::", 1)[0]
                ctors = [g for g in prog.all_functions() if g.name == "%s::%s" % (cls, cls.split("::")[-1]) and g.raw.get("body") is not None]
                def ctor_terminates(g):
                    for y in g.walk():
                        if y["k"] == "Assign" and strip(y["ch"][0]) is not None and strip(y["ch"][0])["k"] == "Subscript":
                            sb = strip(y["ch"][0])
                            b0 = strip(sb["ch"][0])
                            idx = strip(sb["ch"][1])
                            if b0 is not None and b0.get("q") == dst["q"] and idx is not None and isinstance(idx.get("val"), int) and N <= idx["val"] < S and \
                                    (is_null_const(y["ch"][1]) or (strip(y["ch"][1]) or {}).get("val") == 0):
                                return True
                    return False
                if ctors and all(ctor_terminates(g) for g in ctors):
                    why = "every constructor of %s stores 0 at an index in [%d, %d) of the member and strncpy never reaches it" % (cls, N, S)
            if why is None and src is not None:
                names = {y.get("fn") for y in walk(src) if y["k"] == "Call"} | {y.get("n") for y in walk(src) if y["k"] == "Member"}
                if names & set(ident) or (src["k"] == "Ref" and src.get("dk") == "param" and f.component in cfg.get("param_is_ident_components", ())):
                    lstar = cfg.get("lstar_floor")
                    if lstar is not None and N > lstar:
                        why = "the source is built from schema identifiers"
                        assume = "schema identifiers are at most %s bytes long" % lstar
            ok = why is not None
            res.add(rule, key, f.where(c), ok,
                    "strncpy into %s[%d] with size %d: %s" % (dst.get("n"), S, N, why) if ok else
                    "strncpy( %s, %s, %d ) into %s[%d]: a source of %d or more characters leaves the array without a terminator, and no store of 0 "
                    "is passed before %s is read as a string" % (dst.get("n"), expr_str(src)[:40] if src is not None else "?", N, dst.get("n"), S, N, dst.get("n")),
                    assume=assume)
    res.info["e2t_strncpy_sites"] = n
    return n
