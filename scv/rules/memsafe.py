"""Shared driver for the memory-safety / termination clauses of C05 (runtime) and C06 (EXPRESS tools):
E2 bufbound + E3 stuckstream + who-may-terminate, parameterised by a configuration dict."""
import bufbound
import stuckstream
from absint import INF
from ir import walk, strip, expr_str, access_path


def reach(prog, cfg):
    keys = []
    for name in cfg["entries"]:
        for f in prog.by_name.get(name, []):
            if cfg.get("entry_components") is None or f.component in cfg["entry_components"]:
                keys.append(f.key)
    return prog.reachable_from(keys), keys


def run_e2(prog, res, cfg, reachable):
    """-> L* (largest identifier length for which every assumption-discharged write is safe)"""
    ident = cfg["ident_fns"]
    nfun = 0
    summaries = {}
    per_fn = []
    # pass 1: parameter summaries
    for f in prog.all_functions():
        if f.component == "test" or f.cfg is None or any(f.file.endswith(x) for x in cfg["exclude_files"]):
            continue
        fb = bufbound.FnBuf(prog, f, ident, cfg.get("input_fns"), summaries={}, path_fns=cfg.get("path_fns"))
        fb.param_is_ident = f.component in cfg.get("param_is_ident_components", ())
        sites = fb.analyse()
        for s in sites:
            if s["kind"] == "summary" and s["need"][0] == "unbounded" and len(s["need"]) == 1 and fb.param_is_ident and \
                    f.name not in cfg.get("unbounded_writers", ()):
                s["need"] = ("unbounded", "ident", "a name built by %s" % f.name)
            if s["kind"] == "summary":
                summaries.setdefault(f.key, [])
                if (s["pidx"], s["need"]) not in summaries[f.key]:
                    summaries[f.key].append((s["pidx"], s["need"]))
    # keep the worst need per parameter
    for k, lst in summaries.items():
        best = {}
        for pidx, need in lst:
            cur = best.get(pidx)
            rank = {"const": 0, "strlen_param": 1, "unbounded": 2}[need[0]]
            if cur is None or rank > {"const": 0, "strlen_param": 1, "unbounded": 2}[cur[0]] or \
                    (need[0] == "const" and cur[0] == "const" and need[1] > cur[1]):
                best[pidx] = need
        summaries[k] = list(best.items())
    lstar = INF
    counters = {}
    site_table = {}
    n_sites = {"index": 0, "lib": 0, "ptr": 0, "summary": 0}
    unreachable_sites = 0
    for f in prog.all_functions():
        if f.component == "test" or f.cfg is None or any(f.file.endswith(x) for x in cfg["exclude_files"]):
            continue
        nfun += 1
        fb = bufbound.FnBuf(prog, f, ident, cfg.get("input_fns"), summaries=summaries, path_fns=cfg.get("path_fns"))
        fb.path_params = cfg.get("path_params", set())
        fb.param_is_ident = f.component in cfg.get("param_is_ident_components", ())
        fb.param_ident = cfg.get("param_ident", set())
        sites = fb.analyse()
        on_path = f.key in reachable
        for s in sites:
            if s["kind"] == "summary":
                n_sites["summary"] += 1
                continue
            if not on_path:
                unreachable_sites += 1
                continue
            if s["kind"] == "ptr" and not cfg.get("heap_sites", True):
                n_sites["heap_not_decided"] = n_sites.get("heap_not_decided", 0) + 1
                continue
            n_sites[s["kind"]] = n_sites.get(s["kind"], 0) + 1
            base = "E2|%s|%s|%s->%s" % (f.relfile(), f.name, s["what"].split(" ")[0] if s["kind"] != "index" else "store", s["buf"])
            c = counters.get(base, 0)
            counters[base] = c + 1
            key = base if c == 0 else "%s#%d" % (base, c)
            exc = cfg.get("e2_exceptions", {}).get(key)
            if not s["ok"] and exc:
                res.add("E2.bounded_write", key, f.where(s["node"]), True, "%s — accepted: %s" % (s["detail"], exc), assume=exc)
                continue
            assume = None
            if s["cls"] == "assume":
                assume = "schema identifiers are at most %s bytes long" % bufbound.fmt_b(s.get("lstar"))
                if s.get("lstar") is not None:
                    lstar = min(lstar, s["lstar"])
            elif s["cls"] == "ok" and "path" in s["detail"]:
                assume = None
            ok = s["ok"]
            msg = ("%s into %s[%s]: %s" % (s["what"], s["buf"], s["cap"], s["detail"]))[:400]
            ref = cfg.get("e2_reference")
            if ok:
                site_table[key] = {"cls": s["cls"], "lstar": (None if s.get("lstar") in (None, INF) else int(s["lstar"]))}
            if ref is not None and ok:
                cur = site_table[key]
                old = ref.get(key)
                rank = {"ok": 0, "assume": 1}
                if old is not None:
                    if rank.get(cur["cls"], 2) > rank.get(old["cls"], 2):
                        ok = False
                        msg += " — REGRESSION: this write was bounded outright on the reference tree and now depends on the identifier-length assumption"
                    elif cur["cls"] == "assume" and old.get("lstar") is not None and cur["lstar"] is not None and cur["lstar"] < old["lstar"]:
                        ok = False
                        msg += " — REGRESSION: safe identifier length at this site dropped from %s to %s" % (old["lstar"], cur["lstar"])
                elif cur["cls"] == "assume" and cur["lstar"] is not None and cur["lstar"] < cfg.get("lstar_floor", 0):
                    ok = False
                    msg += " — new site whose safe identifier length %s is below the floor L* = %s" % (cur["lstar"], cfg.get("lstar_floor"))
            res.add("E2.bounded_write", key, f.where(s["node"]), ok, msg, {"class": s["cls"]}, assume=assume)
    res.info["e2_functions"] = nfun
    res.info["e2_sites"] = n_sites
    res.info["e2_sites_off_the_file_path"] = unreachable_sites
    res.info["e2_identifier_length_safe_up_to"] = None if lstar == INF else lstar
    res.e2_site_table = site_table
    return lstar, n_sites


def run_e3(prog, res, cfg, reachable):
    cons = stuckstream.consumer_functions(prog)
    n = 0
    counters = {}
    for f in prog.all_functions():
        if f.component == "test" or f.cfg is None or any(f.file.endswith(x) for x in cfg["exclude_files"]):
            continue
        if f.key not in reachable:
            continue
        lc = stuckstream.LoopCheck(prog, f, cons, assume=cfg.get("e3_assume", {}).get(f.name))
        for s in lc.run():
            n += 1
            base = "E3|%s|%s|loop(%s)|%s" % (f.relfile(), f.name, "+".join(s["extractions"])[:60], s["mode"])
            c = counters.get(base, 0)
            counters[base] = c + 1
            key = base if c == 0 else "%s#%d" % (base, c)
            modetxt = "end of file" if s["mode"] == "A" else "failbit without eofbit"
            if s["ok"] is None:
                res.broke("E3: state explosion in %s loop at line %s" % (f.name, s["line"]))
                continue
            exc = cfg.get("e3_exceptions", {}).get(key)
            if not s["ok"] and exc:
                res.add("E3.stuck_stream_exit", key, "%s:%s" % (f.relfile(), s["line"]), True,
                        "accepted: %s" % exc, assume=exc)
                continue
            res.add("E3.stuck_stream_exit", key, "%s:%s" % (f.relfile(), s["line"]), s["ok"],
                    "loop leaves when %s is stuck at %s" % (s["stream"].split(":")[-1], modetxt) if s["ok"] else
                    "with %s stuck at %s an iteration can return to the loop head unchanged (lines %s): the loop does not terminate"
                    % (s["stream"].split(":")[-1], modetxt, [l for l in s["witness"] if l]),
                    {"extractions": s["extractions"]})
    res.info["e3_loops"] = n
    return n


def run_e3b(prog, res, cfg, reachable):
    """E3b progress: loops that look at the next character consume at least one character per iteration"""
    cons = stuckstream.consumer_functions(prog)
    pg = stuckstream.Progress(prog, cons)
    n = 0
    counters = {}
    for f in prog.all_functions():
        if f.component == "test" or f.cfg is None or any(f.file.endswith(x) for x in cfg["exclude_files"]):
            continue
        if f.key not in reachable:
            continue
        for s in pg.check_loops(f):
            n += 1
            base = "E3b|%s|%s|lookahead-loop" % (f.relfile(), f.name)
            c = counters.get(base, 0)
            counters[base] = c + 1
            key = base if c == 0 else "%s#%d" % (base, c)
            if s["ok"] is None:
                res.broke("E3b: state explosion in %s loop at line %s" % (f.name, s["line"]))
                continue
            exc = cfg.get("e3b_exceptions", {}).get(key)
            if not s["ok"] and exc:
                reason = exc["reason"] if isinstance(exc, dict) else exc
                only = set(exc.get("only_lookahead", ())) if isinstance(exc, dict) else None
                got = {w["lookahead"] for w in s["witness_all"]}
                if only is None or got <= only:
                    res.add("E3b.progress", key, "%s:%s" % (f.relfile(), s["line"]), True, "accepted: %s" % reason, assume=reason)
                    continue
                s["witness"] = [w for w in s["witness_all"] if w["lookahead"] not in only][:3]
            res.add("E3b.progress", key, "%s:%s" % (f.relfile(), s["line"]), s["ok"],
                    "every iteration that returns to the loop head has consumed at least one character (for each of the "
                    "look-ahead characters the loop and its consumers distinguish)" if s["ok"] else
                    "with next character %s an iteration returns to the loop head without consuming it: the loop sees the same "
                    "character again (livelock on well-formed-looking input)" % ", ".join(repr(w["lookahead"]) for w in s["witness"]),
                    {"undecided_paths": s.get("undecided_paths")})
    res.info["e3b_loops"] = n
    return n


def run_terminators(prog, res, cfg, reachable):
    """R3: process-terminating calls reachable from the entry points are limited to the frozen list"""
    allowed = cfg.get("terminators_allowed", {})
    n = 0
    counters = {}
    for f in prog.all_functions():
        if f.component == "test" or f.key not in reachable:
            continue
        for c in f.calls():
            fnm = c.get("fn") or ""
            if fnm in ("abort", "exit", "_exit", "quick_exit", "std::terminate", "__assert_fail", "std::abort", "std::exit"):
                n += 1
                base = "R3|%s|%s|%s" % (f.relfile(), f.name, fnm)
                k = counters.get(base, 0)
                counters[base] = k + 1
                key = base if k == 0 else "%s#%d" % (base, k)
                ok = key in allowed
                res.add("R3.no_new_terminator", key, f.where(c), ok,
                        "listed: %s" % allowed[key] if ok else
                        "%s() is reachable from the reader/writer entry points: input can end the process instead of an "
                        "ordinary severity/exit status" % fnm, assume=allowed.get(key))
    res.info["r3_terminator_sites"] = n
    return n
