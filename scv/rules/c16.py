"""C16 — working-session files round-trip populations with per-instance state (structural clauses).

 R1 letters    writer table {state -> letter} (WriteWorkingData) and reader table {letter -> state}
               (EntityWfState) are inverse bijections on {complete, incomplete, new, delete}; the accepted
               prefix literals of both passes equal the writer's letters; both switches are exhaustive over stateEnum
 R2 passes     ReadData1 and ReadData2 parse the prefix alike and skip exactly the instances marked deleted
 R3 state kept ReadInstance never changes the state of an instance read from a working-session file
 R4 bracket    Read/WriteWorkingFile bracket their work with SetFileType(WORKING_SESSION) ... SetFileType()
"""
from engines import flatten_switch, known_facts, call_args
from ir import walk, strip, expr_str, access_path

PID = "C16"
UNITS = dict(components={"cleditor", "clstepcore"})
EXPLANATION = (
    "Structural clauses of the working-session round trip: (R1) the writer's state->letter table (switch in "
    "STEPfile::WriteWorkingData, letters resolved by clang's constant evaluator) and the reader's letter->state table "
    "(STEPfile::EntityWfState) are inverse bijections on {completeSE, incompleteSE, newSE, deleteSE}, the literals "
    "accepted as state prefix in both passes are exactly the writer's letters, and both switches cover every "
    "enumerator of stateEnum; (R2) sibling agreement of ReadData1/ReadData2 on the prefix parse and on skipping "
    "deleted instances, and pass 1 appends with the parsed state; (R3) in ReadInstance every ChangeState() call is "
    "guarded (on every path) by a test that excludes WORKING_SESSION, so the state recorded in the file is kept; "
    "(R4) Read/Append/WriteWorkingFile set the file type before and reset it after their work. "
    "(R2b) both passes accept the state letter under the same condition and then consume the same sequence of stream operations. (R6) a cleared manager is recognised as empty by STEPfile::SetFileIdIncrement (shared with C14 R6). Not decided: population equality and byte-for-byte stability of the second save."
    " (R7) a std::string declared outside a reading loop of STEPfile that is filled and cleared inside the loop (the comment accumulator of both passes, the skip buffer) is cleared after its last fill on every flag-consistent path that re-enters the loop body: nothing collected for a skipped (deleted) instance is carried to the next one."
    " (R8) in STEPfile::AppendFile every path through the arm that recognises a magic keyword (ISO-10303-21, STEP_WORKING_SESSION) calls SetFileType with the mode that belongs to it."
    " (R6i) every path through STEPfile::SetFileIdIncrement assigns _fileIdIncr: the increment of one append is never carried into a later read.")


def state_enum(prog):
    for name, items in prog.enums.items():
        if "completeSE" in items and "deleteSE" in items:
            return items
    return None


def r1_tables(prog, res):
    se = state_enum(prog)
    if se is None:
        res.broke("anchor vanished: enum stateEnum")
        return
    sname = {v: k for k, v in se.items()}
    w = prog.one("STEPfile::WriteWorkingData")
    r = prog.one("STEPfile::EntityWfState")
    if not w or not r:
        res.broke("anchor vanished: WriteWorkingData / EntityWfState")
        return
    # writer: state -> letter written first in that arm
    wt = {}
    sw = [n for n in w.walk() if n["k"] == "Switch"]
    if not sw:
        res.broke("WriteWorkingData: switch on the node state not found")
        return
    witems = flatten_switch(sw[0])
    for labs, stmt in witems:
        letter = None
        writes_inst = False
        # statements of the arm
        i = [x for x in witems].index((labs, stmt))
        body = []
        for labs2, st in witems[i:]:
            body.append(st)
            if st is not None and any(x["k"] == "Break" for x in walk(st)):
                break
        for st in body:
            for x in walk(st) if st is not None else []:
                if x["k"] == "Call" and x.get("opcall") == "<<" and len(x["ch"]) == 2 and letter is None:
                    a = x["ch"][1]
                    v = a.get("val", strip(a).get("val") if strip(a) is not None else None)
                    if v is None and strip(a) is not None and strip(a)["k"] == "Ref":
                        g = prog.global_init(strip(a)["n"])
                        if g:
                            v = strip(g["init"][0]).get("val")
                    if isinstance(v, int) and 32 < v < 127:
                        letter = chr(v)
                if x["k"] == "Call" and (x.get("fn") or "").endswith("::STEPwrite"):
                    writes_inst = True
        for l in labs:
            if isinstance(l, int):
                wt[sname.get(l, l)] = (letter, writes_inst)
    # reader: letter -> state
    rt = {}
    rsw = [n for n in r.walk() if n["k"] == "Switch"]
    if not rsw:
        res.broke("EntityWfState: switch not found")
        return
    ritems = flatten_switch(rsw[0])
    for i, (labs, stmt) in enumerate(ritems):
        body = []
        for labs2, st in ritems[i:]:
            body.append(st)
            if st is not None and any(x["k"] in ("Return", "Break") for x in walk(st)):
                break
        st_ret = None
        for st in body:
            for x in walk(st) if st is not None else []:
                if x["k"] == "Return" and x.get("ch") and x["ch"][0] is not None:
                    v = strip(x["ch"][0]).get("val")
                    if v is not None and st_ret is None:
                        st_ret = sname.get(v, v)
        for l in labs:
            if isinstance(l, int):
                rt[chr(l)] = st_ret
    res.info["writer_table"] = {k: v[0] for k, v in wt.items()}
    res.info["reader_table"] = rt
    for state in ("completeSE", "incompleteSE", "newSE", "deleteSE"):
        letter, writes = wt.get(state, (None, False))
        ok = letter is not None and writes and rt.get(letter) == state
        res.add("R1.letter_tables", "R1|src/cleditor/STEPfile.cc|tables|%s" % state, w.where(), ok,
                "%s is written as '%s' + the instance and '%s' is read back as %s" % (state, letter, letter, state) if ok else
                "%s: writer letter %r (instance written: %s), reader maps that letter to %s" % (state, letter, writes, rt.get(letter)))
    # injectivity
    letters = [v[0] for k, v in wt.items() if v[0]]
    res.add("R1.letter_tables", "R1|src/cleditor/STEPfile.cc|tables|injective", w.where(), len(letters) == len(set(letters)),
            "writer letters are pairwise different: %s" % sorted(letters) if len(letters) == len(set(letters)) else "two states share a letter: %s" % letters)
    # exhaustive over stateEnum
    for fn, items, what in ((w, witems, "writer"), (r, None, "reader")):
        if items is None:
            continue
        have = {l for labs, _ in items for l in labs if isinstance(l, int)}
        missing = [k for k, v in se.items() if v not in have and not any("default" in labs for labs, _ in items)]
        res.add("R1.exhaustive", "R1|src/cleditor/STEPfile.cc|%s|exhaustive" % fn.name, fn.where(), not missing,
                "%s switch covers every stateEnum enumerator" % what if not missing else "%s switch misses %s" % (what, missing))
    # accepted prefix literals in both passes
    want = set(letters)
    n = 0
    for name in ("STEPfile::ReadData1", "STEPfile::ReadData2"):
        f = prog.one(name)
        if f is None:
            res.broke("anchor vanished: " + name)
            continue
        lits = []
        for c in f.calls():
            if (c.get("fn") or "").split("::")[-1] in ("strchr", "__builtin_strchr") and c.get("ch"):
                h = strip(c["ch"][0])
                if h is not None and h["k"] == "Str":
                    lits.append((c, h.get("s")))
        for c, lit in lits:
            n += 1
            ok = set(lit) == want
            res.add("R1.prefix_literal", "R1|src/cleditor/STEPfile.cc|%s|prefix-literal" % name, f.where(c), ok,
                    "accepted state prefixes \"%s\" = the writer's letters" % lit if ok else
                    "accepted state prefixes \"%s\" differ from the letters the writer emits (%s)" % (lit, "".join(sorted(want))))
    res.floor("R1.prefix_literal", "prefix tests in the two passes", n, 2)


def r2_passes(prog, res):
    se = state_enum(prog) or {}
    for name in ("STEPfile::ReadData1", "STEPfile::ReadData2"):
        f = prog.one(name)
        if f is None:
            continue
        calls_state = [c for c in f.calls() if (c.get("fn") or "").endswith("EntityWfState")]
        res.add("R2.sibling_passes", "R2|src/cleditor/STEPfile.cc|%s|parses-state" % name, f.where(), bool(calls_state),
                "the pass converts the prefix letter with EntityWfState" if calls_state else "the pass no longer parses the state letter")
        # deleted instances are skipped: a SkipInstance call guarded by inst_state == deleteSE and WORKING_SESSION
        ok = False
        for c in f.calls():
            if (c.get("fn") or "").endswith("SkipInstance"):
                facts = [expr_str(strip(cn)) for cn, pol in known_facts(f, c) if pol]
                if any("deleteSE" in t or ("== %d" % se.get("deleteSE", -99)) in t or "inst_state ==" in t for t in facts) and \
                        any("WORKING_SESSION" in t or "_fileType ==" in t for t in facts):
                    ok = True
                # constants are folded: look at the raw nodes
                for cn, pol in known_facts(f, c):
                    for x in walk(cn):
                        if x["k"] == "Binary" and x["op"] == "==" and strip(x["ch"][1]).get("val") == se.get("deleteSE") and pol:
                            ok = True
        res.add("R2.sibling_passes", "R2|src/cleditor/STEPfile.cc|%s|skips-deleted" % name, f.where(), ok,
                "instances marked deleted are skipped" if ok else "the pass does not skip instances whose state letter is 'deleted'")
    # the two passes read the same text: the state letter is accepted under the same condition and followed by the same
    # sequence of consuming stream operations (a comment may stand between the letter and '#'; pass 2 parses it)
    shapes = {}
    for name in ("STEPfile::ReadData1", "STEPfile::ReadData2"):
        f = prog.one(name)
        if f is None:
            continue
        for c in f.calls():
            if not (c.get("fn") or "").endswith("EntityWfState"):
                continue
            ifs = [a for a in f.ancestors(c) if a["k"] == "If"]
            if not ifs:
                continue
            inner = ifs[0]
            guard = expr_str(strip(inner["ch"][0]))
            seq = []
            for y in walk(inner["ch"][1]):
                if y["k"] == "Call":
                    fn = (y.get("fn") or "")
                    if fn.endswith("ReadTokenSeparator"):
                        seq.append("ReadTokenSeparator")
                    elif "operator>>" in fn:
                        seq.append(">>")
                    elif fn.split("::")[-1] in ("get", "peek", "putback", "ignore", "unget"):
                        seq.append(fn.split("::")[-1])
            shapes[name] = (guard, tuple(seq), f.where(inner))
    if len(shapes) == 2:
        (g1, s1, w1), (g2, s2, w2) = shapes["STEPfile::ReadData1"], shapes["STEPfile::ReadData2"]
        ok = g1 == g2 and s1 == s2
        res.add("R2.prefix_parsed_alike", "R2|src/cleditor/STEPfile.cc|ReadData1~ReadData2|state-prefix", w1, ok,
                "both passes accept the state letter under `%s` and then consume %s" % (g1, list(s1)) if ok else
                "pass 1 accepts the state letter under `%s` and then consumes %s, pass 2 under `%s` and then %s: text that one pass takes as "
                "`<letter> <comment> #id` the other does not, so the instance is created with one state and read with another" % (g1, list(s1), g2, list(s2)))
    else:
        res.broke("R2: the state-prefix parse (EntityWfState under a condition) was not found in both passes")
    # pass 1 appends with the parsed state for working-session files
    f = prog.one("STEPfile::ReadData1")
    if f:
        apps = [c for c in f.calls() if (c.get("fn") or "").endswith("InstMgr::Append")]
        ok = False
        for c in apps:
            a = call_args(c)
            if len(a) > 1 and strip(a[1]) is not None and strip(a[1])["k"] == "Ref" and "state" in strip(a[1])["n"].lower():
                facts = known_facts(f, c)
                if any(pol and "_fileType" in expr_str(cn) for cn, pol in facts):
                    ok = True
        res.add("R2.sibling_passes", "R2|src/cleditor/STEPfile.cc|STEPfile::ReadData1|appends-with-state", f.where(), ok,
                "working-session instances are appended with the state parsed from the file" if ok else
                "pass 1 does not append working-session instances with their parsed state")


def r3_state_kept(prog, res):
    f = prog.one("STEPfile::ReadInstance")
    if f is None:
        res.broke("anchor vanished: STEPfile::ReadInstance")
        return
    ws = None
    for items in prog.enums.values():
        if "WORKING_SESSION" in items:
            ws = items["WORKING_SESSION"]
            cur = items.get("VERSION_CURRENT")
    n = 0
    for c in f.calls():
        if not (c.get("fn") or "").endswith("ChangeState"):
            continue
        n += 1
        excluded = False
        for cn, pol in known_facts(f, c):
            x = strip(cn)
            if x["k"] == "Binary" and x["op"] in ("!=", "=="):
                l, r = strip(x["ch"][0]), strip(x["ch"][1])
                if l["k"] == "Member" and l["n"] == "_fileType" and r.get("val") is not None:
                    if x["op"] == "!=" and pol and r["val"] == ws:
                        excluded = True
                    if x["op"] == "==" and pol and r["val"] != ws:
                        excluded = True
                    if x["op"] == "==" and not pol and r["val"] == ws:
                        excluded = True
        key = "R3|src/cleditor/STEPfile.cc|STEPfile::ReadInstance|ChangeState#%d" % n
        res.add("R3.state_from_file_kept", key, f.where(c), excluded,
                "ChangeState(%s) cannot run for a working-session file" % expr_str(call_args(c)[0]) if excluded else
                "ChangeState(%s) is reachable while a working-session file is read: the editing state recorded in the file is "
                "overwritten by the reader's own classification" % expr_str(call_args(c)[0]))
    res.floor("R3.state_from_file_kept", "ChangeState sites in ReadInstance", n, 4)


def r4_bracket(prog, res):
    for name in ("STEPfile::ReadWorkingFile", "STEPfile::AppendWorkingFile", "STEPfile::WriteWorkingFile"):
        f = prog.one(name)
        if f is None:
            if name == "STEPfile::ReadWorkingFile":
                res.broke("anchor vanished: " + name)
            continue
        cfg = f.cfg
        sets = [c for c in f.calls() if (c.get("fn") or "").endswith("SetFileType")]
        work = [c for c in f.calls() if (c.get("fn") or "").split("::")[-1] in ("AppendFile", "WriteWorkingData", "WriteHeader")]
        ws_set = [c for c in sets if call_args(c) and "WORKING_SESSION" in expr_str(call_args(c)[0]) or
                  (call_args(c) and strip(call_args(c)[0]).get("val") is not None and strip(call_args(c)[0])["k"] != "DefaultArg")]
        reset = [c for c in sets if not call_args(c) or strip(call_args(c)[0])["k"] == "DefaultArg" or call_args(c)[0]["k"] == "DefaultArg"]
        ok = bool(work) and all(any(cfg.dominates(cfg.locate(s), cfg.locate(w)) for s in ws_set) for w in work)
        ok2 = bool(work) and any(cfg.dominates(cfg.locate(w), cfg.locate(r)) for w in work for r in reset)
        res.add("R4.file_type_bracket", "R4|%s|%s|bracket" % (f.relfile(), name), f.where(), ok and ok2,
                "SetFileType(WORKING_SESSION) precedes the work and SetFileType() follows it" if ok and ok2 else
                "file type is %s%s" % ("" if ok else "not set to WORKING_SESSION before the work ", "" if ok2 else "not reset afterwards"))


def r7_iteration_scratch_cleared(prog, res):
    """Text collected for one instance must not reach the next.  A std::string local declared outside a reading loop that is filled
    and cleared inside the loop is per-iteration scratch.  Typestate over the flag-consistent paths of the function (pathstate):
    clean -> current (filled in this iteration) -> stale (still filled when the loop body is entered again); clear() and an
    overwrite make it clean / current again.  No *consumer* of the string may be reached in state stale.  What consumes is computed,
    not listed (strflow.consumes: the content is copied, printed or inspected - by the callee or by something it passes the string
    on to); a buffer that is only ever appended to (the skip buffer of FindStartOfInstance / SkipInstance) has no consumer and cannot
    fail.  A `continue` in the arm that skips an instance saved as deleted jumps past the clear: the comment read in front of the
    deleted instance is attached, by ReadInstance -> AddP21Comment, to the next surviving one."""
    import pathstate
    import strflow
    cons = strflow.consumes(prog)
    res.info["r7_consuming_string_parameters"] = len(cons)
    n = 0
    for f in prog.all_functions():
        if f.component != "cleditor" or f.cfg is None:
            continue
        for lp in f.walk():
            if lp["k"] not in ("While", "For", "Do"):
                continue
            body = lp["ch"][-1] if lp["k"] != "Do" else lp["ch"][0]
            if body is None:
                continue
            inner = {y["i"] for y in walk(body)}
            cands = {}
            for y in walk(body):
                if y["k"] == "Call" and y.get("member") and y.get("ch"):
                    o = strip(y["ch"][0])
                    if o is not None and o["k"] == "Ref" and o.get("dk") == "local" and "basic_string" in f.ty(o) and \
                            strflow.effect(prog, cons, y, o["d"]) == "clear":
                        decl = [v for v in f.walk() if v["k"] == "Var" and v.get("d") == o["d"]]
                        if decl and decl[0]["i"] not in inner:
                            cands[o["d"]] = o["n"]
            for d, name in sorted(cands.items()):
                effs = {y["i"]: strflow.effect(prog, cons, y, d) for y in walk(body) if y["k"] == "Call"}
                if not any(e == "fill" for e in effs.values()):
                    continue
                pos = f.first_pos(body)
                if pos is None:
                    continue
                first = f.cfg.blocks[pos[0]]["e"][pos[1]]
                hits = {}

                def on_node(nd, ts, env, first=first, hits=hits, effs=effs):
                    if nd["i"] == first and ts is not None and ts[0] == "cur":
                        ts = ("stale", ts[1])
                    e = effs.get(nd["i"])
                    if e == "clear":
                        return None
                    if e == "overwrite":
                        return ("cur", nd["l"])
                    if e == "fill":
                        return ts if ts is not None and ts[0] == "stale" else ("cur", nd["l"])
                    if e == "consume" and ts is not None and ts[0] == "stale":
                        hits.setdefault(nd["i"], (nd, ts[1]))
                    return ts
                try:
                    pathstate.walk(f, None, on_node)
                except pathstate.Budget as ex:
                    res.broke("R7: %s" % ex)
                    continue
                n += 1
                bad = sorted(hits.values(), key=lambda h: h[0]["l"])
                ncons = len([e for e in effs.values() if e == "consume"])
                res.add("R7.iteration_scratch_cleared", "R7|%s|%s|%s" % (f.relfile(), f.name, name), f.where(bad[0][0]) if bad else f.where(lp), not bad,
                        "`%s` (%d consumer(s) in the loop at line %s) is never consumed with content collected in an earlier iteration"
                        % (name, ncons, lp["l"]) if not bad else
                        "`%s` is filled at line %s, the loop body (line %s) is entered again without a clear(), and `%s` at line %s then consumes "
                        "it: text collected for one instance (the comment in front of an instance that is skipped) is attached to the next "
                        "instance read" % (name, bad[0][1], lp["l"], (bad[0][0].get("fn") or "?").rsplit("::", 1)[-1], bad[0][0]["l"]))
    res.floor("R7.iteration_scratch_cleared", "per-iteration scratch strings in reading loops", n, 2)


MAGIC_MODE = {"ISO-10303-21": "VERSION_CURRENT", "STEP_WORKING_SESSION": "WORKING_SESSION"}


def r8_keyword_selects_mode(prog, res):
    """The first keyword of a file decides how both passes read it: STEPfile::AppendFile is the one place where a file that announces
    itself as STEP_WORKING_SESSION puts the reader into working-session mode when the caller did not (ReadExchangeFile, the file-name
    constructor, p21read).  On every path through the arm that recognises a magic keyword, SetFileType is called with the mode that
    belongs to it (structured must-call: a call inside only one branch of a nested `if` does not count)."""
    f = prog.one("STEPfile::AppendFile")
    if f is None:
        res.broke("anchor vanished: STEPfile::AppendFile")
        return

    def mode_of(call):
        a = call_args(call)
        if not a:
            return None
        for y in walk(a[0]):
            if y["k"] == "Ref" and y.get("n") in MAGIC_MODE.values():
                return y["n"]
        return None

    def must_call(st, mode):
        if st is None:
            return False
        k = st["k"]
        if k == "Compound":
            return any(must_call(c, mode) for c in st.get("ch") or [])
        if k == "If":
            ch = st["ch"]
            return len(ch) > 2 and ch[2] is not None and must_call(ch[1], mode) and must_call(ch[2], mode)
        if k in ("While", "For", "Do", "Switch"):
            return False
        return any(y["k"] == "Call" and (y.get("fn") or "").endswith("SetFileType") and mode_of(y) == mode for y in walk(st))
    n = 0
    for x in f.walk():
        if x["k"] != "If":
            continue
        kw = None
        for y in walk(x["ch"][0]):
            if y["k"] == "Call" and (y.get("fn") or "").split("::")[-1] in ("strncmp", "strcmp", "__builtin_strncmp", "__builtin_strcmp", "compare"):
                for z in walk(y):
                    if z["k"] == "Str" and z.get("s") in MAGIC_MODE:
                        kw = z["s"]
        if kw is None:
            continue
        n += 1
        ok = must_call(x["ch"][1], MAGIC_MODE[kw])
        res.add("R8.keyword_selects_mode", "R8|src/cleditor/STEPfile.cc|STEPfile::AppendFile|%s" % kw, f.where(x), ok,
                "every path through the arm for `%s` calls SetFileType( %s )" % (kw, MAGIC_MODE[kw]) if ok else
                "a path through the arm that recognises `%s` does not call SetFileType( %s ): a file that announces itself as %s is read in "
                "whatever mode the object happened to be in (state letters skipped as garbage, deleted instances brought back)"
                % (kw, MAGIC_MODE[kw], kw))
    res.floor("R8.keyword_selects_mode", "magic keywords recognised by AppendFile", n, 2)


def run(prog, res, tier):
    from rules import c13 as _c13
    _c13.r3_clear_resets_max(prog, res, rule="R6.cleared_manager_is_recognised_empty")
    _c13.r3_increment_always_recomputed(prog, res, rule="R6.increment_always_recomputed")
    r1_tables(prog, res)
    r2_passes(prog, res)
    r3_state_kept(prog, res)
    r4_bracket(prog, res)
    r7_iteration_scratch_cleared(prog, res)
    r8_keyword_selects_mode(prog, res)
