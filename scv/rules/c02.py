"""C02 — the generated dictionary mirrors the schema (narrow structural clauses; the behaviour is NOT decided).

 R1 flags reach their parameter   for every truth assignment of the generator's predicates on an attribute / entity, the
                                  constructor call it *emits* (`new AttrDescriptor(...)`, `new Derived_attribute(...)`,
                                  `new Inverse_attribute(...)`, `new EntityDescriptor(...)`) has the arity of a constructor
                                  of the run-time class and passes LTrue for the parameter named `optional` exactly when
                                  VARget_optional(v), for `unique` exactly when VARget_unique(v), for `abstractEntity` exactly
                                  when ENTITYget_abstract(e); the class and the AttrType constant follow the attribute kind
 R2 every attribute described     each path through the attribute loop of ENTITYincode_print emits one descriptor construction
                                  and registers it (AddExplicitAttr / AddInverseAttr); the loop is over ENTITYget_attributes
                                  in list order without a skipping test
 R3 aggregate flags               UniqueElements / OptionalElements(LTrue) are emitted exactly under flags.unique / flags.optional
"""
import re
import itertools
from ir import walk, strip, expr_str
from engines import call_args, FMT_RE, enclosing_conditions

PID = "C02"
UNITS = dict(components={"exp2cxx", "clstepcore", "clutils"})
LEVEL_TEXT = "other"
TECHNIQUE = ("static analysis: emitted-code templates (format strings + argument provenance) expanded over every truth assignment of "
             "the generator's predicates and matched, slot by slot, against the parameter lists of the run-time constructors "
             "(resolved from the library's own definitions); loop/path coverage of the attribute emitter")
EXPLANATION = (
    "Only the following structural clauses are decided; that the registered dictionary equals the schema for every schema is a "
    "statement about emitted values and is NOT decided. (R1) The format strings of consecutive fprintf calls in the descriptor "
    "emitters of exp2cxx are concatenated into a template; every argument that is a (nested) conditional over string literals is "
    "expanded for each truth assignment of the conditions involved (VARget_optional, VARget_unique, VARget_inverse, "
    "VARis_derived, VARis_type_shifter, ENTITYget_abstract, externMap; the three attribute kinds are taken as mutually "
    "exclusive), the text after `new <Class>(` is split into arguments, and the argument list is matched against the "
    "constructors of that class found in clstepcore: the arity must fit one of them and the argument in the position of the "
    "parameter *named* optional / unique / abstractEntity / extMapping must be LTrue exactly when the corresponding predicate "
    "holds; the class must be Inverse_attribute / Derived_attribute / AttrDescriptor according to the kind, and the AttrType "
    "constant must be AttrType_Deriving / AttrType_Redefining / AttrType_Explicit accordingly. (R2) every path through the body "
    "of the loop over ENTITYget_attributes(entity) contains one such construction and one registration call, and no `continue`. "
    "(R3) in AGGRprint_init the UniqueElements / OptionalElements emissions are guarded by the matching flag. "
    "(R4) in every generator function that emits `HeadEntity(H)`, each emitted `[R->]AppendMultInstance( new T( A, .. ) )` "
    "has R = A = H: parts created for second and later supertypes are chained to, and register their attributes with, the "
    "head of the instance (necessary for a fresh instance to expose the attributes inherited through them). "
    "(R5) the buffer printed as the argument of an emitted `<descriptor>->ReferentType( %s )` has been overwritten, on every path, since it held the descriptor's own name (fills-iff-non-zero summary of the naming helper, edge-sensitive walk): no descriptor names itself as its element type. Not decided: names, types, order of enumeration items and select members, inherited attribute order, accessors — the "
    "values the generator computes for an arbitrary schema. "
    "(R6) the generator registers every schema, entity and defined type under the key its own PrettyTmpName() computes, and the "
    "run-time Registry / InstMgr look names up through the library's own copy of PrettyTmpName() (and the ToLower / ToUpper helpers "
    "both use): the clang flow graphs of the copies are bisimilar - same canonical statements in corresponding blocks, same "
    "branching, loops where the other loops; variable names, conversions and buffer-bound constants are not compared - so a key "
    "written by the generator is the key the run time asks for. "
    "(R7) every path through TYPEprint_descriptions creates the type's descriptor (TYPEprint_new / TYPEPrint) unless it has excluded "
    "enumerations and aggregates; SCOPEPrint stores referents that are select or enumeration types again after the selects of the pass "
    "have been printed (their descriptors only exist from then on).")

PRED_PARAM = {"optional": "VARget_optional", "unique": "VARget_unique", "abstractEntity": "ENTITYget_abstract", "extMapping": "externMap"}
KIND_PREDS = ("VARget_inverse", "VARis_derived", "VARis_type_shifter")
CLASS_OF_KIND = {"VARget_inverse": "Inverse_attribute", "VARis_derived": "Derived_attribute", "VARis_type_shifter": "AttrDescriptor", None: "AttrDescriptor"}
ATTRTYPE_OF_KIND = {"VARis_derived": "AttrType_Deriving", "VARis_type_shifter": "AttrType_Redefining", None: "AttrType_Explicit"}


def cond_atoms(n, out):
    n = strip(n)
    while n is not None and n["k"] == "Paren":
        n = strip(n["ch"][0])
    if n is not None and n["k"] == "Cond":
        out.add(pred_name(n["ch"][0]))
        cond_atoms(n["ch"][1], out)
        cond_atoms(n["ch"][2], out)


def pred(c):
    """(name, negated) of a condition"""
    c = strip(c)
    neg = False
    while c is not None and (c["k"] in ("Paren", "Cast") or (c["k"] == "Unary" and c.get("op") == "!")) and c.get("ch"):
        if c["k"] == "Unary":
            neg = not neg
        c = strip(c["ch"][0])
    return pred_name(c), neg


def pred_name(c):
    """name a condition by the accessor it tests: VARget_optional(v) and its macro expansion give the same name"""
    c = strip(c)
    while c is not None and (c["k"] in ("Paren", "Cast") or (c["k"] == "Unary" and c.get("op") == "!")) and c.get("ch"):
        c = strip(c["ch"][0])
    if c is None:
        return "?"
    m = c.get("m")
    if m and re.match(r"(VAR|ENTITY|TYPE)(get|is)_\w+", m):
        return m
    for x in walk(c):
        mm = x.get("m") or x.get("mo")
        if mm and re.match(r"(VAR|ENTITY|TYPE)(get|is)_\w+", mm):
            return mm
    if c["k"] == "Call":
        return c.get("fn") or expr_str(c)
    return re.sub(r"\s+", "", expr_str(c))


def lit_value(n, asg):
    """literal selected by a (nested) conditional under the assignment, or None"""
    n = strip(n)
    while n is not None and n["k"] == "Paren":
        n = strip(n["ch"][0])
    if n is None:
        return None
    if n["k"] == "Str":
        return n.get("s", "")
    if n["k"] == "Cond":
        nm, neg = pred(n["ch"][0])
        t = asg.get(nm)
        if t is None:
            return None
        if neg:
            t = not t
        return lit_value(n["ch"][1] if t else n["ch"][2], asg)
    return None


def sequences(f):
    """maximal runs of consecutive fprintf statements to the same FILE in one statement list"""
    out = []

    def rec(node):
        if node is None:
            return
        if node["k"] == "Compound":
            run_ = []
            dest = None
            for st in node.get("ch") or []:
                c = st
                is_fp = c is not None and c["k"] == "Call" and (c.get("fn") or "") == "fprintf" and len(call_args(c)) >= 2 and \
                    strip(call_args(c)[1]) is not None and strip(call_args(c)[1])["k"] == "Str"
                d = re.sub(r"\s+", "", expr_str(strip(call_args(c)[0]))) if is_fp else None
                if is_fp and (dest is None or d == dest):
                    run_.append(c)
                    dest = d
                else:
                    if run_:
                        out.append(run_)
                    run_ = [c] if is_fp else []
                    dest = d if is_fp else None
                    # a helper that prints the middle arguments keeps the run going
                    if not is_fp and c is not None and c["k"] == "Call" and (c.get("fn") or "") == "TYPEprint_nm_ft_desc":
                        pass
            if run_:
                out.append(run_)
        for c in (node.get("ch") or []) + (node.get("pre") or []):
            if c is not None and c["k"] not in ("Call",):
                rec(c)
    rec(f.body)
    return out


def expand(seq, asg):
    """emitted text of a run of fprintf calls under an assignment; opaque arguments become \x01k\x02"""
    text = ""
    k = 0
    for c in seq:
        args = call_args(c)
        fmt = strip(args[1])["s"]
        ai = 2
        i = 0
        while True:
            j = fmt.find("%", i)
            if j < 0:
                text += fmt[i:]
                break
            text += fmt[i:j]
            m = FMT_RE.match(fmt, j)
            if not m:
                text += "%"
                i = j + 1
                continue
            i = m.end()
            if m.group("conv") == "%":
                text += "%"
                continue
            if m.group("width") == "*":
                ai += 1
            a = args[ai] if ai < len(args) else None
            ai += 1
            v = lit_value(a, asg) if (a is not None and m.group("conv") == "s") else None
            if v is None:
                k += 1
                text += "\x01%d\x02" % k
            else:
                text += v
    return text


def split_args(s):
    args, cur, depth, q = [], "", 0, None
    for ch in s:
        if q:
            cur += ch
            if ch == q:
                q = None
            continue
        if ch in "\"'":
            q = ch
            cur += ch
        elif ch in "([{":
            depth += 1
            cur += ch
        elif ch in ")]}":
            depth -= 1
            cur += ch
        elif ch == "," and depth == 0:
            args.append(cur.strip())
            cur = ""
        else:
            cur += ch
    if cur.strip():
        args.append(cur.strip())
    return args


def news_in(text):
    """[(class, [args])] for each complete `new K(...)` in the text"""
    out = []
    for m in re.finditer(r"new\s+([A-Za-z_]\w*|\x01\d+\x02)\s*\(", text):
        i = m.end()
        depth = 1
        j = i
        q = None
        while j < len(text) and depth > 0:
            ch = text[j]
            if q:
                if ch == q:
                    q = None
            elif ch in "\"'":
                q = ch
            elif ch == "(":
                depth += 1
            elif ch == ")":
                depth -= 1
            j += 1
        if depth == 0:
            inner = re.sub(r"//[^\n]*", "", text[i:j - 1])
            out.append((m.group(1), split_args(inner)))
    return out


def constructors(prog, cls):
    out = []
    for f in prog.fn("%s::%s" % (cls, cls)):
        out.append([p["n"] for p in f.params])
    return out


def assignments(atoms):
    atoms = sorted(atoms)
    for vals in itertools.product((False, True), repeat=len(atoms)):
        asg = dict(zip(atoms, vals))
        if sum(1 for k in KIND_PREDS if asg.get(k)) > 1:
            continue        # an attribute is of one kind
        yield asg


def r1_slots(prog, res):
    n_sites = 0
    for fname in ("ENTITYincode_print", "ENTITYprint_descriptors"):
        f = prog.one(fname)
        if f is None:
            res.broke("anchor vanished: %s" % fname)
            continue
        site_no = 0
        for seq in sequences(f):
            atoms = set()
            for c in seq:
                for a in call_args(c)[2:]:
                    cond_atoms(a, atoms)
            probe = expand(seq, {})
            if "new" not in probe:
                continue
            # every assignment
            problems = {}
            checked = {"arity": 0, "flags": 0, "class": 0, "attrtype": 0}
            found_any = False
            for asg in assignments(atoms):
                text = expand(seq, asg)
                for cls, args in news_in(text):
                    if cls.startswith("\x01"):
                        problems.setdefault("class", "the class of the emitted constructor call is not a literal / conditional literal")
                        continue
                    ctors = constructors(prog, cls)
                    if not ctors:
                        continue        # not a dictionary class defined in the run-time library
                    found_any = True
                    fit = [c for c in ctors if len(c) == len(args)] or [c for c in ctors if len(c) > len(args) and len(args) >= 4]
                    checked["arity"] += 1
                    if not fit:
                        problems.setdefault("arity", "`new %s(...)` is emitted with %d arguments (%s); its constructors take %s" %
                                            (cls, len(args), ", ".join(a[:14] for a in args), [len(c) for c in ctors]))
                        continue
                    params = fit[0]
                    for i, pn in enumerate(params[:len(args)]):
                        if pn in PRED_PARAM:
                            pred = PRED_PARAM[pn]
                            key_pred = pred if pred in asg else next((k for k in asg if k.endswith(pred) or pred in k), None)
                            if key_pred is None:
                                problems.setdefault(pn, "parameter '%s' of %s receives %r, which does not depend on %s" % (pn, cls, args[i][:20], pred))
                                continue
                            want = "LTrue" if asg[key_pred] else "LFalse"
                            checked["flags"] += 1
                            if args[i] != want:
                                problems.setdefault(pn, "with %s %s the emitted `new %s(...)` passes %s for the parameter '%s' (position %d); it must be %s" %
                                                    (pred, "true" if asg[key_pred] else "false", cls, args[i][:20], pn, i + 1, want))
                        if pn == "at":
                            kind = next((k for k in KIND_PREDS if asg.get(k)), None)
                            if kind == "VARget_inverse":
                                continue
                            checked["attrtype"] += 1
                            want = ATTRTYPE_OF_KIND[kind]
                            if args[i] != want:
                                problems.setdefault("at", "a %s attribute is emitted with %s; the run-time expects %s" %
                                                    ({"VARis_derived": "derived", "VARis_type_shifter": "redeclared", None: "plain explicit"}[kind], args[i][:24], want))
                    if cls in ("AttrDescriptor", "Derived_attribute", "Inverse_attribute") and any(k in asg for k in KIND_PREDS):
                        kind = next((k for k in KIND_PREDS if asg.get(k)), None)
                        checked["class"] += 1
                        if cls != CLASS_OF_KIND[kind]:
                            problems.setdefault("class", "a %s attribute is described by `new %s`; it must be %s" %
                                                (kind or "plain explicit", cls, CLASS_OF_KIND[kind]))
            if not found_any:
                continue
            site_no += 1
            n_sites += 1
            where = f.where(seq[0])
            base = "R1|%s|%s|emission#%d" % (f.relfile(), fname, site_no)
            for what in ("arity", "optional", "unique", "abstractEntity", "extMapping", "at", "class"):
                relevant = (what in problems) or (what == "arity") or \
                    (what in ("optional", "unique", "at", "class") and fname == "ENTITYincode_print") or \
                    (what in ("abstractEntity", "extMapping") and fname == "ENTITYprint_descriptors")
                if not relevant:
                    continue
                ok = what not in problems
                res.add("R1.flag_reaches_parameter", "%s|%s" % (base, what), where, ok,
                        {"arity": "the emitted constructor call has the arity of a run-time constructor for every predicate assignment",
                         "class": "the descriptor class follows the attribute kind",
                         "at": "the AttrType constant follows the attribute kind"}.get(what, "the parameter '%s' receives LTrue exactly when %s holds" % (what, PRED_PARAM.get(what, "?")))
                        if ok else problems[what])
    res.floor("R1", "descriptor constructions emitted by the generator", n_sites, 5)


def r2_every_attribute(prog, res):
    f = prog.one("ENTITYincode_print")
    if f is None:
        return
    # the loop over ENTITYget_attributes(entity)
    loops = []
    for x in f.walk():
        if x["k"] == "Var" and x["n"].startswith("_") and x.get("ch") and "attributes" in expr_str(x["ch"][0]):
            loops.append(x)
    fors = [x for x in f.walk() if x["k"] == "For" and any(c["k"] == "Call" and (c.get("fn") or "") == "generate_attribute_name" for c in walk(x))]
    if not loops or not fors:
        res.broke("ENTITYincode_print: the loop over the entity's attributes was not found")
        return
    lp = fors[0]
    body = lp["ch"][-1]
    def leaves(n, in_switch=False):
        out = []
        if n is None:
            return out
        if n["k"] in ("Continue", "Goto") or (n["k"] == "Break" and not in_switch):
            out.append(n)
        if n["k"] in ("While", "For", "Do"):
            return out          # inner loops have their own break/continue
        for c in n.get("ch") or []:
            out += leaves(c, in_switch or n["k"] == "Switch")
        return out
    conts = leaves(body)
    res.add("R2.no_attribute_skipped", "R2|src/exp2cxx/classes_entity.c|ENTITYincode_print|no-skip", f.where(lp), not conts,
            "the attribute loop has no continue/break: every attribute of the entity is visited" if not conts else
            "the attribute loop skips attributes (%s at line %d)" % (conts[0]["k"].lower(), conts[0]["l"]))
    # every path through the body constructs a descriptor and registers it
    from engines import sinterp

    def evalc(c, p):
        return None
    paths = sinterp(body["ch"] if body["k"] == "Compound" else [body], evalc, max_paths=100000)
    bad_new = bad_reg = 0
    for p in paths:
        txt = ""
        for e in p.effects:
            for c in walk(e):
                if c["k"] == "Call" and (c.get("fn") or "") == "fprintf":
                    a = strip(call_args(c)[1]) if len(call_args(c)) > 1 else None
                    if a is not None and a["k"] == "Str":
                        txt += a["s"]
        if "new %s" not in txt and "new AttrDescriptor" not in txt:
            bad_new += 1
        if not re.search(r"Add(Explicit|Inverse|%s)Attr", txt):
            bad_reg += 1
    ok = bool(paths) and bad_new == 0 and bad_reg == 0
    res.add("R2.every_attribute_described", "R2|src/exp2cxx/classes_entity.c|ENTITYincode_print|every-path", f.where(lp), ok,
            "each of the %d paths through the attribute loop emits a descriptor construction and its registration" % len(paths) if ok else
            "%d of %d paths through the attribute loop emit no descriptor construction, %d no registration" % (bad_new, len(paths), bad_reg))


def r3_aggr_flags(prog, res):
    f = prog.one("AGGRprint_init")
    if f is None:
        res.broke("anchor vanished: AGGRprint_init")
        return
    n = 0
    for c in f.calls("fprintf"):
        a = strip(call_args(c)[1]) if len(call_args(c)) > 1 else None
        if a is None or a["k"] != "Str":
            continue
        for emitted, flag in (("UniqueElements(LTrue)", "unique"), ("OptionalElements(LTrue)", "optional")):
            if emitted in a["s"]:
                n += 1
                conds = [(re.sub(r"\s+", "", expr_str(cn)), br) for cn, br in enclosing_conditions(f, c)]
                ok = any(br == "T" and t.endswith("flags.%s" % flag) for t, br in conds)
                res.add("R3.aggregate_flag", "R3|src/exp2cxx/classes_type.c|AGGRprint_init|%s" % flag, f.where(c), ok,
                        "%s is emitted exactly under flags.%s" % (emitted, flag) if ok else
                        "%s is emitted under %s, not under flags.%s" % (emitted, conds[-1:] or "no condition", flag))
                # ... and whenever its guards hold: no path from the entry to the exit avoids the emission except by taking the other
                # branch of one of the conditions it stands under (an early `return` for aggregates without bounds skips the flags)
                cfg = f.cfg
                guards = {}
                for cn, br in enclosing_conditions(f, c):
                    for b, blk in cfg.blocks.items():
                        if blk.get("tc") == cn["i"]:
                            guards[b] = br
                want = {b: (cfg.blocks[b]["s"][0] if br == "T" else cfg.blocks[b]["s"][1]) for b, br in guards.items() if len(cfg.blocks[b]["s"]) == 2}
                ends = cfg.paths_avoiding((cfg.entry, -1), lambda nd, c=c: nd is c or nd["i"] == c["i"],
                                          forbid_edge=lambda b, s2, want=want: b in want and s2 != want[b])
                escaped = cfg.exit in ends
                res.add("R3.aggregate_flag_always", "R3a|src/exp2cxx/classes_type.c|AGGRprint_init|%s" % flag, f.where(c), not escaped,
                        "whenever flags.%s holds for a non-renamed aggregate the emission is reached (%d guard(s) mapped)" % (flag, len(want)) if not escaped else
                        "a path reaches the end of AGGRprint_init with every guard of the %s emission satisfied and without emitting it: "
                        "the flag of such an aggregate (e.g. LIST OF UNIQUE without a bound specification) is lost in the dictionary" % emitted)
                if len(want) < 2:
                    res.broke("R3a: the guards of the %s emission could not be mapped to branch blocks (%d)" % (emitted, len(want)))
    res.floor("R3", "aggregate flag emissions", n, 2)


def r4_part_head(prog, res):
    """A generated constructor names its head once (`HeadEntity(H)`); every part it creates for a further supertype is
    appended to that head and told about that head: `[R->]AppendMultInstance( new T( A, .. ) )` needs R == A == H
    (no receiver = this), and a base-class initialiser `: P( A, addAttrs )` needs A == H.  Otherwise the part registers its
    attributes with another object and the instance loses the attributes inherited through it."""
    n_fn = n_app = 0
    for f in prog.all_functions():
        if f.component != "exp2cxx":
            continue
        fmts = []
        for c in f.calls():
            if (c.get("fn") or "") != "fprintf":
                continue
            a = call_args(c)
            if len(a) >= 2 and strip(a[1]) is not None and strip(a[1])["k"] == "Str":
                fmts.append((c, strip(a[1])["s"]))
        heads = [(c, m.group(1)) for c, t in fmts for m in re.finditer(r"\bHeadEntity\(\s*(\w+)\s*\)", t)]
        if not heads:
            continue
        n_fn += 1
        # several constructors may be emitted by one function: the head in force is the latest one emitted before
        for c, t in fmts:
            for m in re.finditer(r"(?:(\w+)\s*->\s*)?AppendMultInstance\(\s*new\s+%s\(\s*(\w+)", t):
                prev = [h for hc, h in heads if (hc["l"], hc.get("c", 0)) <= (c["l"], c.get("c", 0))]
                if not prev:
                    continue
                H = prev[-1]
                recv = m.group(1) or "this"
                arg = m.group(2)
                n_app += 1
                ok = recv == H and arg == H
                res.add("R4.part_attached_to_head", "R4|%s|%s|AppendMultInstance@%s" % (f.relfile(), f.name, H), f.where(c), ok,
                        "the part is appended to `%s` and constructed with head `%s`, the object given to HeadEntity()" % (recv, arg) if ok else
                        "the emitted constructor sets HeadEntity(%s) but appends the part to `%s` and constructs it with head `%s`: "
                        "the part adds its attributes to another object than the head, which loses them" % (H, recv, arg))
        for c, t in fmts:
            for m in re.finditer(r"\)\s*:\s*%s\(\s*(\w+)\s*,\s*addAttrs\s*\)", t):
                nxt = [h for hc, h in heads if (hc["l"], hc.get("c", 0)) >= (c["l"], c.get("c", 0))]
                if not nxt:
                    continue
                H = nxt[0]
                n_app += 1
                ok = m.group(1) == H
                res.add("R4.part_attached_to_head", "R4|%s|%s|base-initialiser@%s" % (f.relfile(), f.name, H), f.where(c), ok,
                        "the first-supertype base is constructed with the head `%s`" % H if ok else
                        "the emitted constructor sets HeadEntity(%s) but constructs its first-supertype base with head `%s`" % (H, m.group(1)))
    res.floor("R4.part_attached_to_head", "generator functions that emit HeadEntity(..)", n_fn, 2)
    res.floor("R4.part_attached_to_head", "emitted AppendMultInstance( new .. ) / base-initialiser templates", n_app, 3)


def r5_referent_not_self(prog, res):
    """In an emitted `X->ReferentType( Y )` the receiver X is the descriptor being built (`<prefix><count>`) and Y names the
    descriptor of its element / referent type.  Y is printed from a char buffer.  If that buffer was last written with X's own name
    (`sprintf( buf, "<prefix>%d", count )`) the descriptor refers to itself and the element type is lost.  Path-sensitive walk: at
    every emission of ReferentType the buffer printed as Y has been overwritten since - by a formatting call, or by a helper that is
    known to fill its buffer parameter exactly when it returns non-zero, on the edge where it did."""
    import pathstate

    def core(n):
        n = strip(n)
        while n is not None and n["k"] == "Cast" and n.get("ch"):
            n = strip(n["ch"][0])
        return n
    # helpers that fill their char* parameter iff they return non-zero
    fills = {}
    for g in prog.all_functions():
        if g.component != "exp2cxx" or g.cfg is None:
            continue
        rt = g.tyname(g.raw.get("ret")) if isinstance(g.raw.get("ret"), int) else ""
        if rt not in ("int", "bool", "_Bool"):
            continue
        for pi, p_ in enumerate(g.params):
            if (g.tyname(p_["t"]) if isinstance(p_.get("t"), int) else "") != "char *":
                continue
            writes = [c for c in g.calls() if (c.get("fn") or "") in ("sprintf", "strcpy", "snprintf", "strncpy", "__builtin___sprintf_chk") and call_args(c) and
                      core(call_args(c)[0]) is not None and core(call_args(c)[0]).get("d") == p_["d"]]
            rets = [x for x in g.walk() if x["k"] == "Return" and x.get("ch") and x["ch"][0] is not None]
            if not writes or not rets:
                continue
            ok = True
            for r in rets:
                v = core(r["ch"][0])
                if v is not None and v["k"] == "Call" and v.get("fk") == g.key:
                    continue                       # tail recursion: same contract
                val = v.get("val") if v is not None else None
                if val is None:
                    ok = False
                    break
                wrote = any(g.cfg.dominates(g.cfg.locate(w), g.cfg.locate(r)) for w in writes)
                reach = any(g.cfg.reaches(g.cfg.locate(w), g.cfg.locate(r)) for w in writes)
                if (val != 0 and not wrote) or (val == 0 and reach):
                    ok = False
                    break
            if ok:
                fills[(g.key, pi)] = g.name
    res.info["r5_fill_iff_nonzero_helpers"] = sorted(set(fills.values()))
    n = 0
    for f in prog.all_functions():
        if f.component != "exp2cxx" or f.cfg is None:
            continue
        emits = []
        for c in f.calls():
            if (c.get("fn") or "") != "fprintf":
                continue
            a = call_args(c)
            if len(a) >= 2 and core(a[1]) is not None and core(a[1])["k"] == "Str":
                m = re.search(r"(%s%d)->ReferentType\(\s*%s\s*\)", core(a[1])["s"])
                if m and len(a) >= 5:
                    emits.append((c, [expr_str(core(a[2])), expr_str(core(a[3]))], core(a[4])))
        if not emits:
            continue
        for c, own, ybuf in emits:
            if ybuf is None or ybuf["k"] != "Ref":
                continue
            n += 1
            d = ybuf["d"]
            hits = {}

            def on_node(nd, ts, env, d=d, own=own, c=c, hits=hits):
                if nd["k"] == "Call":
                    a = call_args(nd)
                    fn_ = nd.get("fn") or ""
                    if fn_ in ("sprintf", "snprintf", "strcpy", "strncpy") and a and core(a[0]) is not None and core(a[0]).get("d") == d:
                        k = 1 if fn_ == "sprintf" else (2 if fn_ == "snprintf" else None)
                        if k and len(a) > k and core(a[k]) is not None and core(a[k])["k"] == "Str" and core(a[k])["s"] == "%s%d" and \
                                [expr_str(core(x)) for x in a[k + 1:k + 3]] == own:
                            return "self"
                        return "other"
                    if nd is c and ts == "self":
                        hits[nd["i"]] = nd
                    # any other callee that receives the buffer (not one of the iff-helpers, which are handled on the edge)
                    if nd is not c and fn_ != "fprintf":
                        for i, x in enumerate(a):
                            if core(x) is None or core(x).get("d") != d or (nd.get("fk"), i) in fills:
                                continue
                            # a callee that takes the buffer as `const char *` only reads it
                            callee = [g for g in prog.all_functions() if g.key == nd.get("fk")]
                            pty = (callee[0].tyname(callee[0].params[i]["t"]) if callee and i < len(callee[0].params) and
                                   isinstance(callee[0].params[i].get("t"), int) else "")
                            if "const" in pty:
                                continue
                            return "other"
                return ts

            def on_edge(cn, br, ts, env, d=d):
                c0 = core(cn)
                neg = False
                while c0 is not None and c0["k"] == "Unary" and c0.get("op") == "!":
                    neg = not neg
                    c0 = core(c0["ch"][0])
                if c0 is not None and c0["k"] == "Call":
                    a = call_args(c0)
                    for i, x in enumerate(a):
                        if core(x) is not None and core(x).get("d") == d and (c0.get("fk"), i) in fills:
                            if br != neg:          # the helper returned non-zero on this edge: it has filled the buffer
                                return "other"
                return ts
            try:
                pathstate.walk(f, "unset", on_node, on_edge=on_edge)
            except pathstate.Budget as e:
                res.broke("R5: %s" % e)
                continue
            bad = bool(hits)
            res.add("R5.referent_is_not_the_descriptor_itself", "R5|%s|%s|ReferentType@%d" % (f.relfile(), f.name, n), f.where(c), not bad,
                    "the buffer `%s` printed as the referent has been overwritten since it held the descriptor's own name" % ybuf["n"] if not bad else
                    "on a path to this emission `%s` still holds `%s%%d` of the descriptor being built (the helper that should name the element type "
                    "returned 0 and left it alone): the emitted code reads t_N->ReferentType(t_N), the descriptor of an aggregate of aggregates names "
                    "itself as its element type" % (ybuf["n"], own[0]))
    res.floor("R5.referent_is_not_the_descriptor_itself", "emitted ReferentType( <buffer> ) templates", n, 1)


# helpers that exist as a copy in the generator and a copy in the run-time library, where the generator's result is a dictionary key and
# the run time's result is what that key is looked up with
KEY_HELPERS = {
    "PrettyTmpName": "exp2cxx prints PrettyTmpName(name) as the registered name of every schema / entity / type; Registry::FindEntity, "
                     "FindSchema, FindType and InstMgr look up PrettyTmpName(name)",
    "ToLower": "called by PrettyTmpName for every character",
    "ToUpper": "called by PrettyTmpName for the first character and after each underscore",
}


def r6_key_helpers_agree(prog, res):
    import clones
    n = 0
    for name, why in sorted(KEY_HELPERS.items()):
        gen = [f for f in prog.fn(name) if f.component == "exp2cxx" and f.cfg is not None]
        rt = [f for f in prog.fn(name) if f.component in ("clutils", "clstepcore") and f.cfg is not None]
        if not gen or not rt:
            res.broke("R6: copies of %s not found on both sides (generator %d, run time %d)" % (name, len(gen), len(rt)))
            continue
        # the helper must really be in use on both sides, otherwise the table is stale
        for g in gen[:1]:
            for r in rt[:1]:
                d = clones.bisimilar(g, r)
                n += 1
                res.add("R6.key_helpers_agree", "R6|%s|%s|%s" % (name, g.relfile(), r.relfile()),
                        ("%s:%s" % (g.relfile(), d[0])) if d else g.where(), d is None,
                        "the generator's and the run time's copies of %s have bisimilar flow graphs (%s)" % (name, why) if d is None else
                        "the copies of %s disagree: %s:%s has `%s` where %s:%s has `%s` (%s); %s - a name the generator registers is "
                        "then not the name the run time looks up" % (name, g.relfile(), d[0], d[2][:90], r.relfile(), d[1], d[3][:90], d[4], why))
    res.floor("R6.key_helpers_agree", "generator / run-time helper pairs", n, 3)
    # the premise of the table: the generator prints the helper's result into a descriptor constructor, the registry hashes it
    users_rt = [f.name for f in prog.all_functions() if f.component == "clstepcore" and any(True for _ in f.calls("PrettyTmpName"))]
    users_gen = [f.name for f in prog.all_functions() if f.component == "exp2cxx" and any(True for _ in f.calls("PrettyTmpName"))]
    res.info["r6_runtime_users"] = sorted(set(users_rt))
    res.info["r6_generator_users"] = len(set(users_gen))
    if not any(u.startswith("Registry::Find") for u in users_rt) or not users_gen:
        res.broke("R6: PrettyTmpName is no longer used by Registry::Find* and the generator; the KEY_HELPERS table is stale")


def r7_every_named_type_described(prog, res):
    """Every named type of the schema gets a type descriptor: attributes name it as their domain and the registry finds it by name.
    TYPEprint_descriptions() is called once per type that is not a select; every path through it must call TYPEprint_new (directly,
    or through TYPEPrint) unless the path has established that the type is neither an enumeration nor an aggregate (false edges of both
    tests).  Before fixes a1a96f1a / 8e8749c0 a renamed enumeration (TYPE tint = colour) and a named aggregate of aggregates returned
    without one: the descriptor pointer stayed null, the attribute's domain was null, and reading a conforming instance crashed."""
    f = prog.one("TYPEprint_descriptions")
    if f is None or f.cfg is None:
        res.broke("anchor vanished: TYPEprint_descriptions")
        return
    cfg = f.cfg
    creators = {c["i"] for c in f.calls() if (c.get("fn") or "") in ("TYPEprint_new", "TYPEPrint")}
    if not creators:
        res.broke("R7: TYPEprint_descriptions no longer calls TYPEprint_new / TYPEPrint")
        return

    def test_kind(b):
        tc = cfg.blocks[b].get("tc")
        nd = f.nodes.get(tc) if tc is not None else None
        if nd is None:
            return None
        txt = expr_str(nd)
        if any(y["k"] == "Call" and (y.get("fn") or "") == "isAggregateType" for y in walk(nd)):
            return "aggr"
        if "enumeration_" in txt or any((y.get("m") or "") == "TYPEis_enumeration" or (y.get("mo") or "") == "TYPEis_enumeration" for y in walk(nd)):
            return "enum"
        return None
    seen = set()
    work = [(cfg.entry, frozenset())]
    bad = None
    while work and bad is None:
        b, fl = work.pop()
        if (b, fl) in seen:
            continue
        seen.add((b, fl))
        blk = cfg.blocks[b]
        if any(e in creators or any(y["i"] in creators for y in walk(f.nodes[e])) for e in blk["e"] if e in f.nodes):
            continue
        if b == cfg.exit:
            if not ({"enum", "aggr"} <= fl):
                bad = fl
            continue
        k = test_kind(b)
        ss = blk["s"]
        for j, s2 in enumerate(ss):
            if s2 is None or s2 < 0:
                continue
            fl2 = fl
            if k and len(ss) == 2 and j == 1:
                fl2 = fl | {k}
            work.append((s2, fl2))
    res.add("R7.every_named_type_described", "R7|src/exp2cxx/classes_type.c|TYPEprint_descriptions|descriptor", f.where(), bad is None,
            "every path that leaves TYPEprint_descriptions without creating a descriptor has found the type to be neither an enumeration nor an "
            "aggregate (selects are described by their own printer)" if bad is None else
            "a path through TYPEprint_descriptions returns without TYPEprint_new / TYPEPrint although it has not excluded %s: such a type has no "
            "descriptor - it is missing from the registry and attributes of that type have a null domain"
            % " and ".join(sorted({"enum": "an enumeration (renamed enumerations)", "aggr": "an aggregate (named aggregates of aggregates)"}[x]
                                  for x in {"enum", "aggr"} - set(bad))))
    # referents that are created late (select / enumeration descriptors are made by their init_ functions) are stored again afterwards
    g = next((x for x in prog.fn("SCOPEPrint") if x.component == "exp2cxx"), None)
    if g is None or g.cfg is None:
        res.broke("anchor vanished: exp2cxx SCOPEPrint")
        return
    sel = [c for c in g.calls() if (c.get("fn") or "") == "TYPEselect_print"]
    late = [c for c in g.calls() if (c.get("fn") or "") == "TYPEprint_late_referent"]
    ok = bool(sel) and bool(late) and all(g.cfg.reaches(g.cfg.locate(s_), g.cfg.locate(late[0])) for s_ in sel) and \
        not any(g.cfg.reaches(g.cfg.locate(late[0]), g.cfg.locate(s_)) for s_ in sel)
    h = prog.one("TYPEprint_late_referent")
    emits = h is not None and any(y["k"] == "Str" and "->ReferentType(" in (y.get("s") or "") for y in h.walk())
    res.add("R7.late_referents_stored_again", "R7|src/exp2cxx/classes_wrapper.cc|SCOPEPrint|late-referent", g.where(late[0]) if late else g.where(), ok and emits,
            "referents that are select or enumeration types are stored again after every select of the pass has been printed" if ok and emits else
            "SCOPEPrint no longer stores the referents of the pass's types again after the selects are printed: `TYPE picks = LIST OF pick` keeps "
            "the null pointer it read before init_SdaiPick() created the select's descriptor, and reading such an aggregate dereferences it")


def run(prog, res, tier):
    r7_every_named_type_described(prog, res)
    r6_key_helpers_agree(prog, res)
    r5_referent_not_self(prog, res)
    r4_part_head(prog, res)
    r1_slots(prog, res)
    r2_every_attribute(prog, res)
    r3_aggr_flags(prog, res)
