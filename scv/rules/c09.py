"""C09 — Part 21 literals are read to their value and written in conforming form (structural clauses).

 R1 fail=>raise     in every numeric literal reader the branch where the conversion failed raises the caller's
                    error descriptor (a literal is never silently turned into an unset attribute)
 R2 trailing check  in STEPattribute::STEPread every literal kind reaches CheckRemainingInput(in, &_error, .., ",)")
                    (directly or inside its reader) before returning
 R3 delimiter       CheckRemainingInput puts the delimiter back; STEPattribute::STEPread consumes nothing after it
 R4 writer tokens   WriteReal: precision constant in [15,17], upper-case %G, scratch buffer holds the maximal
                    expansion (+ the appended '.'), a decimal point on every path; enumeration items between dots;
                    binaries between double quotes; references as '#' + id
 R6 item match      enumeration item look-up compares whole tokens (string equality on both terminators)
"""
import re
from engines import known_facts, call_args, parse_format, peval
from ir import walk, strip, expr_str, access_path, array_len

PID = "C09"
UNITS = dict(components={"clstepcore", "cldai", "clutils"})
EXPLANATION = (
    "Structural clauses of literal reading/writing in the runtime: (R1) in ReadInteger/ReadReal/ReadNumber every path "
    "on which the conversion stream has failed (value not assigned) raises the caller's ErrorDescriptor to WARNING or "
    "worse before returning; (R2) in STEPattribute::STEPread each non-aggregate kind's arm reaches "
    "CheckRemainingInput(in, &_error, .., \",)\") either directly or inside the reader it calls (must-pass-through on the "
    "CFG, callee summaries); (R3) CheckRemainingInput puts the delimiter it looked at back; (R4) the real writer's "
    "format constants conform to ISO 10303-21 and its scratch buffer is at least as large as the maximal expansion of "
    "its format plus the appended point; enumeration/binary/reference writers emit their delimiters; (R6) the four "
    "enumeration item look-ups decide by whole-string equality; (R7) in the files that read literals a severity already raised is "
    "lowered only at reviewed sites or under a guard that the severity is exactly SEVERITY_INCOMPLETE (C03's relaxation rule and table). (R1, generalised) a reader that converts with a C library function (strtod, strtol, ...) tests both the end pointer and the range indication (errno / isinf / HUGE_VAL) before it accepts the value; a conversion that cannot report failure (atof, atoi) is a violation. (R7) a failed conversion of an optional attribute is not forgiven. Not decided: equality of the hand-written scanners' "
    "accepted language with the ISO grammar, exact values, string escapes."
    " (R8) a linear search whose loop condition is `i < B && <no match>` and the later not-found test on i use the same bound expression B (SDAI_Enum / SDAI_LOGICAL ReadEnum and set_value, STEPcomplex::Replicate): otherwise an unknown token is silently read as the entry at the last index."
    " (R9) no branch is decided by a look-ahead variable (`c = in.peek()`) after something was consumed from the same stream and before the variable was assigned again (typestate over flag-consistent paths)."
    " (R10) every sprintf/snprintf of integer conversions into a local scratch array has room for the longest rendering of the conversion's type plus the terminator (21 bytes for %ld): no integer is written cut to a shorter, well-formed one."
    " (R11) every literal reader with the (value, stream, descriptor, tokenList) signature skips leading white space itself (`in >> ws` is its first stream operation on every path): the skipws flag of the stream is left off by SDAI_String::STEPread."
    " (R12) in every scanner of string literals of the peek/get idiom, after an apostrophe other than the opening one has been consumed, another `peek() == '` test or an exhausted stream is seen on every path before the function returns (typestate): a doubled apostrophe at the start of a value is not the empty string.")

READERS = {"ReadInteger": "integer", "ReadReal": "real", "ReadNumber": "number"}


def sev_enum(prog):
    for items in prog.enums.values():
        if "SEVERITY_USERMSG" in items:
            return items


def r1_fail_raise(prog, res, sev):
    n = 0
    for name in READERS:
        fs = [f for f in prog.by_name.get(name, []) if "istream" in f.key]
        if not fs:
            res.broke("anchor vanished: %s(.., istream&, ..)" % name)
            continue
        f = fs[0]
        cfg = f.cfg
        errp = None
        for p in f.params:
            if "ErrorDescriptor" in f.tyname(p["t"]):
                errp = p["d"]
        # the failure edge: if( !X.fail() ) {assign} [else {...}]
        hit = False
        for node in f.walk():
            if node["k"] != "If":
                continue
            c = strip(node["ch"][0])
            neg = False
            if c["k"] == "Unary" and c["op"] == "!":
                neg = True
                c = strip(c["ch"][0])
            if not (c["k"] == "Call" and (c.get("fn") or "").endswith("::fail")):
                continue
            hit = True
            n += 1
            fail_branch = (node["ch"][2] if len(node["ch"]) > 2 else None) if neg else node["ch"][1]
            # raise on err inside the failure branch, or unconditionally after the If on every path (dominated by If end)
            raised = False
            if fail_branch is not None:
                for x in walk(fail_branch):
                    if x["k"] == "Call" and (x.get("fn") or "") in ("ErrorDescriptor::GreaterSeverity", "ErrorDescriptor::severity") \
                            and call_args(x):
                        v = strip(call_args(x)[0]).get("val")
                        o = access_path(x["ch"][0])
                        if v is not None and v <= sev["SEVERITY_WARNING"] and o and o.lstrip("*&") == errp:
                            raised = True
            res.add("R1.fail_raises", "R1|%s|%s|conversion-failed" % (f.relfile(), name), f.where(node), raised,
                    "the branch where the %s conversion failed raises *err to WARNING or worse" % READERS[name] if raised else
                    "when the stream conversion fails (e.g. a value that cannot be represented) %s leaves the value "
                    "unassigned and returns without raising *err: the attribute silently stays unset (the following "
                    "CheckRemainingInput only complains about garbage, not about a failed conversion)" % name)
        if not hit:
            # not a stream extraction: a C library conversion?  strtod/strtol report "nothing converted" through the end pointer and
            # "out of range" through errno / an infinite result - both have to be looked at before the value is accepted
            convs = [c for c in f.calls() if (c.get("fn") or "") in ("strtod", "strtold", "strtof", "strtol", "strtoll", "strtoul", "strtoull", "atof", "atoi", "atol", "sscanf")]
            if not convs:
                res.broke("%s: neither a test of the conversion stream's fail() nor a C library conversion found" % name)
                continue
            for c in convs:
                n += 1
                fn_ = c["fn"]
                conds = [strip(x["ch"][0]) for x in f.walk() if x["k"] == "If"]
                txt = " ".join(expr_str(cn) for cn in conds if cn is not None)
                endp = None
                a = call_args(c)
                if fn_.startswith("strto") and len(a) > 1:
                    e = strip(a[1])
                    if e is not None and e["k"] == "Unary" and e.get("op") == "&" and strip(e["ch"][0]) is not None:
                        endp = strip(e["ch"][0]).get("n")
                end_ok = endp is not None and endp in txt
                range_ok = any(t in txt for t in ("errno", "__errno_location", "isinf", "isfinite", "HUGE_VAL", "isnan", "ERANGE"))
                ok = fn_.startswith("strto") and end_ok and range_ok
                res.add("R1.fail_raises", "R1|%s|%s|conversion-failed" % (f.relfile(), name), f.where(c), ok,
                        "%s(): the end pointer and the range indication are tested before the value is accepted" % fn_ if ok else
                        "%s converts with %s() but %s: a literal that %s is accepted as a value (an out-of-range REAL becomes +-infinity, written "
                        "back as INF., which is not Part 21) instead of raising *err" %
                        (name, fn_, "tests neither the end pointer nor the range" if not (end_ok or range_ok) else
                         ("does not test errno / isinf / HUGE_VAL" if end_ok else "does not test the end pointer") if fn_.startswith("strto") else "this function cannot report a failure",
                         "cannot be represented" if end_ok or not fn_.startswith("strto") else "is malformed or cannot be represented"))
    res.floor("R1.fail_raises", "numeric literal readers", n, 3)


def callee_checks(prog):
    """names of functions that call CheckRemainingInput on every returning path (summary, depth 1)"""
    out = set()
    for f in prog.all_functions():
        if f.cfg is None:
            continue
        calls = [c for c in f.calls() if (c.get("fn") or "").endswith("CheckRemainingInput")]
        if not calls:
            continue
        cfg = f.cfg
        stops = {cfg.locate(c) for c in calls if cfg.locate(c)}
        # can exit be reached from entry without passing a stop?
        from collections import deque
        dq = deque([(cfg.entry, 0)])
        seen = set()
        leak = False
        while dq:
            b, i = dq.popleft()
            blk = cfg.blocks[b]
            cut = False
            for j in range(i, len(blk["e"])):
                if (b, j) in stops:
                    cut = True
                    break
            if cut:
                continue
            if b == cfg.exit:
                leak = True
                break
            for s in cfg.succ[b]:
                if s not in seen:
                    seen.add(s)
                    dq.append((s, 0))
        if not leak:
            out.add(f.key)
    return out


def r2_trailing_check(prog, res):
    fs = [f for f in prog.by_name.get("STEPattribute::STEPread", []) if "istream" in f.key]
    if not fs:
        res.broke("anchor vanished: STEPattribute::STEPread(istream&..)")
        return
    f = fs[0]
    pt = prog.enums.get("PrimitiveType") or {}
    names = {v: k for k, v in pt.items()}
    summ = callee_checks(prog)
    from engines import flatten_switch
    sw = None
    for n in f.walk():
        if n["k"] == "Switch" and "PrimitiveType" in f.ty(strip(n["ch"][0])):
            labs = [l for labs, _ in flatten_switch(n) for l in labs]
            if pt.get("sdaiINTEGER") in labs and pt.get("sdaiSTRING") in labs:
                sw = n
    if sw is None:
        res.broke("STEPattribute::STEPread: dispatch on the attribute kind not found")
        return
    items = flatten_switch(sw)
    want = ["sdaiINTEGER", "sdaiREAL", "sdaiNUMBER", "sdaiSTRING", "sdaiBINARY", "sdaiBOOLEAN", "sdaiLOGICAL", "sdaiENUMERATION",
            "sdaiINSTANCE", "sdaiSELECT"]
    n = 0
    for i, (labs, stmt) in enumerate(items):
        kinds = [names.get(l) for l in labs if isinstance(l, int)]
        for kname in kinds:
            if kname not in want:
                continue
            n += 1
            # statements of this arm up to the return
            body = []
            for labs2, st in items[i:]:
                body.append(st)
                if st is not None and any(x["k"] == "Return" for x in walk(st)):
                    break
            ok = False
            how = ""
            for st in body:
                for x in walk(st) if st is not None else []:
                    if x["k"] == "Call":
                        fn = x.get("fn") or ""
                        if fn.endswith("CheckRemainingInput"):
                            toks = None
                            for y in walk(x):
                                if y["k"] == "Str":
                                    toks = y.get("s")
                            tgt = access_path(x["ch"][1]) if len(x["ch"]) > 1 else None
                            if toks == ",)" and tgt and tgt.lstrip("&*").endswith("_error"):
                                ok = True
                                how = "CheckRemainingInput(in, &_error, .., \",)\")"
                        elif x.get("fk") in summ and any((access_path(a) or "").lstrip("&*").endswith("_error") for a in x["ch"]) and \
                                any(strip(a)["k"] == "Str" and strip(a).get("s") == ",)" for a in x["ch"] if strip(a) is not None):
                            ok = True
                            how = "%s(.., &_error, \",)\") checks the remaining input on every path" % fn.split("::")[-1]
            res.add("R2.trailing_check", "R2|src/clstepcore/STEPattribute.cc|STEPattribute::STEPread|%s" % kname, f.where(stmt) if stmt else f.where(),
                    ok, "%s: %s" % (kname, how) if ok else
                    "the %s arm returns without the remaining-input check against \",)\": garbage after the literal is accepted "
                    "or the delimiter is not re-synchronised" % kname)
    res.floor("R2.trailing_check", "literal kinds dispatched", n, 10)


def r3_putback(prog, res):
    fs = [f for f in prog.by_name.get("CheckRemainingInput", []) if "const char *,const char *" in f.key.replace(" ", "").replace("constchar*", "const char *") or True]
    fs = [f for f in fs if f.file.endswith("clutils/Str.cc") and f.cfg and len(f.cfg.blocks) > 8]
    if not fs:
        res.broke("anchor vanished: CheckRemainingInput")
        return
    f = fs[0]
    # inside the branch `strchr(delimiterList, c) != NULL` (delimiter found) putback(c) must occur
    ok = False
    for n in f.walk():
        if n["k"] == "If":
            c = expr_str(n["ch"][0])
            if "strchr" in c and "!=" in c:
                if any(x["k"] == "Call" and (x.get("fn") or "").endswith("::putback") for x in walk(n["ch"][1])):
                    ok = True
    res.add("R3.delimiter_put_back", "R3|src/clutils/Str.cc|CheckRemainingInput|putback", f.where(), ok,
            "the delimiter found while skipping garbage is put back" if ok else
            "CheckRemainingInput consumes the delimiter it found while skipping garbage")
    # the look-ahead path uses peek (does not consume)
    peeks = [c for c in f.calls() if (c.get("fn") or "").endswith("::peek")]
    res.add("R3.delimiter_put_back", "R3|src/clutils/Str.cc|CheckRemainingInput|peek", f.where(), bool(peeks),
            "the delimiter test looks ahead with peek()" if peeks else "the delimiter test no longer uses peek()")


def r4_writer_tokens(prog, res):
    fs = [f for f in prog.by_name.get("WriteReal", []) if "basic_ostream" not in f.key]
    if not fs:
        res.broke("anchor vanished: WriteReal(SDAI_Real)")
        return
    f = fs[0]
    sp = [c for c in f.calls() if (c.get("fn") or "").split("::")[-1] in ("sprintf", "snprintf")]
    if len(sp) != 1:
        res.broke("WriteReal: expected exactly one sprintf/snprintf (found %d)" % len(sp))
        return
    c = sp[0]
    is_sn = c["fn"].endswith("snprintf")
    args = c["ch"]
    fmt = strip(args[2 if is_sn else 1])
    fstr = fmt.get("s") if fmt is not None and fmt["k"] == "Str" else None
    convs = parse_format(fstr or "") or []
    real = [x for x in convs if x["conv"] in "eEfFgG"]
    okfmt = len(real) == 1 and real[0]["conv"] == "G" and real[0].get("prec") in ("*",) or (len(real) == 1 and real[0]["conv"] == "G" and (real[0].get("prec") or "").isdigit())
    res.add("R4.real_format", "R4|src/clstepcore/read_func.cc|WriteReal|conversion", f.where(c), bool(okfmt),
            "reals are formatted with %r (upper-case exponent, explicit precision)" % fstr if okfmt else
            "WriteReal formats with %r: Part 21 needs an upper-case E and an explicit precision (%%.*G)" % fstr)
    # precision value
    prec = None
    var = args[(3 if is_sn else 2):]
    if real and real[0].get("prec") == "*" and var:
        p0 = var[0]
        prec = p0.get("val", strip(p0).get("val"))
        if prec is None:
            g = prog.global_init(strip(p0).get("n", ""))
            if g:
                prec = strip(g["init"][0]).get("val")
    elif real and (real[0].get("prec") or "").isdigit():
        prec = int(real[0]["prec"])
    okp = prec is not None and 15 <= prec <= 17
    res.add("R4.real_precision", "R4|src/clstepcore/read_func.cc|WriteReal|precision", f.where(c), okp,
            "precision constant is %s" % prec if okp else "real precision evaluates to %s (needs 15..17 significant digits)" % prec)
    # buffer: maximal expansion of %.{p}G = sign + p digits + '.' + 'E' + sign + 3 exponent digits ; +1 appended '.' ; +1 NUL
    dst = strip(args[0])
    N = array_len(f.ty(dst))
    need = (1 + (prec or 17) + 1 + 1 + 1 + 3) + 1
    okb = N is not None and N >= need
    if is_sn:
        sz = args[1].get("val", strip(args[1]).get("val"))
        okb = okb and sz is not None and sz <= N
    res.add("R4.real_buffer", "R4|src/clstepcore/read_func.cc|WriteReal|scratch-buffer", f.where(c), bool(okb),
            "scratch buffer of %s bytes holds the longest %%.%sG rendering (%d characters) plus the terminator" % (N, prec, need - 1) if okb else
            "scratch buffer has %s bytes but the longest rendering of a real (sign, %s digits, '.', 'E', sign, 3 exponent "
            "digits) needs %d plus the terminator: the exponent is truncated%s" % (N, prec, need - 1, " silently by snprintf" if is_sn else " / overflows"))
    # decimal point on every path: the `!strchr(rbuf, '.')` true edge reaches an append/store of '.'
    dot = False
    for n in f.walk():
        if n["k"] == "If" and "strchr" in expr_str(n["ch"][0]) and "'.'" in expr_str(n["ch"][0]):
            then = n["ch"][1]
            # every return path inside `then`: contains "." literal append or '.' char store on both arms
            arms = [then]
            inner = [x for x in walk(then) if x["k"] == "If"]
            if inner:
                arms = [inner[0]["ch"][1], inner[0]["ch"][2]] if len(inner[0]["ch"]) > 2 else [inner[0]["ch"][1]]
            dot = all(any((x["k"] == "Str" and x.get("s") == ".") or (x["k"] == "Char" and x.get("val") == ord(".")) for x in walk(a))
                      for a in arms if a is not None) and len(arms) >= 1
    res.add("R4.real_point", "R4|src/clstepcore/read_func.cc|WriteReal|decimal-point", f.where(), dot,
            "a rendering without '.' gets one appended on both the exponent and the plain path" if dot else
            "a real whose %G rendering has no '.' can be written without a decimal point")
    # enumeration writer: '.' item '.'
    for cls in ("SDAI_Enum",):
        ws = [g for g in prog.by_name.get(cls + "::STEPwrite", []) if "basic_string" in g.key]
        for g in ws:
            lits = [x.get("s") for x in g.walk() if x["k"] == "Str"] + [chr(x["val"]) for x in g.walk() if x["k"] == "Char" and 0 < x.get("val", 0) < 128]
            ok = lits.count(".") >= 2 or sum(1 for s0 in lits if s0 and "." in s0) >= 2
            res.add("R4.enum_dots", "R4|src/cldai/sdaiEnum.cc|%s::STEPwrite|dots" % cls, g.where(), ok,
                    "enumeration items are written between two dots" if ok else "enumeration writer no longer emits both dots")
    bs = [g for g in prog.by_name.get("SDAI_Binary::STEPwrite", []) if "basic_string" in g.key or "basic_ostream" in g.key]
    for g in bs[:1]:
        lits = [x.get("s") for x in g.walk() if x["k"] == "Str"] + [chr(x["val"]) for x in g.walk() if x["k"] == "Char" and 0 < x.get("val", 0) < 128]
        ok = sum(1 for s0 in lits if s0 and '"' in s0) >= 1
        res.add("R4.binary_quotes", "R4|src/cldai/sdaiBinary.cc|SDAI_Binary::STEPwrite|quotes", g.where(), ok,
                "binaries are written between double quotes" if ok else "binary writer no longer emits its quotes")


def r6_enum_item_match(prog, res):
    ACCEPT = {"strcmp", "strcasecmp", "StrCmpIns", "stricmp", "__builtin_strcmp"}
    n = 0
    for name in ("SDAI_Enum::ReadEnum", "SDAI_Enum::set_value", "SDAI_LOGICAL::ReadEnum", "SDAI_LOGICAL::set_value"):
        for f in prog.by_name.get(name, []):
            if "set_value" in name and "const char" not in f.key:
                continue
            # the look-up loop: while( i < n && <no match> ) ++i;
            loops = [l for l in f.walk() if l["k"] == "While" and any(x["k"] == "Call" and (x.get("fn") or "").endswith("element_at") for x in walk(l["ch"][0]))]
            for l in loops:
                n += 1
                cond = l["ch"][0]
                verdict = None
                for x in walk(cond):
                    if x["k"] == "Call" and any(y["k"] == "Call" and (y.get("fn") or "").endswith("element_at") for a in x["ch"] for y in walk(a)) \
                            and not (x.get("fn") or "").endswith("element_at"):
                        fn = (x.get("fn") or "").split("::")[-1]
                        if fn in ACCEPT:
                            verdict = (True, "%s(token, element_at(i))" % fn)
                        else:
                            verdict = helper_is_equality(prog, x)
                if verdict is None:
                    verdict = (False, "no comparison of the token with element_at(i) found in the loop condition")
                res.add("R6.enum_item_match", "R6|%s|%s|item-lookup" % (f.relfile(), name), f.where(l), verdict[0],
                        "items are matched by whole-string equality: %s" % verdict[1] if verdict[0] else
                        "enumeration items are not matched by whole-string equality: %s" % verdict[1])
    res.floor("R6.enum_item_match", "enumeration item look-up loops", n, 4)


def helper_is_equality(prog, call):
    """a first-party comparison helper decides equality only if every return value depends on both strings"""
    fk = call.get("fk")
    defs = [f for (k, _), f in prog.functions.items() if k == fk]
    if not defs:
        return (False, "comparison through `%s`, whose definition is not available" % (call.get("fn")))
    g = defs[0]
    ps = [p["d"] for p in g.params if g.tyname(p["t"]).endswith("*")]
    if len(ps) < 2:
        return (False, "helper `%s` does not take two strings" % g.name)
    for r in g.walk():
        if r["k"] == "Return" and r.get("ch") and r["ch"][0] is not None:
            used = {x.get("d") for x in walk(r["ch"][0]) if x["k"] == "Ref"}
            if "val" in strip(r["ch"][0]):
                continue
            if any(x["k"] == "Call" and (x.get("fn") or "").split("::")[-1] in ("strcmp", "strcasecmp", "StrCmpIns") for x in walk(r["ch"][0])):
                continue
            if not all(p in used for p in ps[:2]):
                return (False, "helper `%s` returns `%s`, which looks only at one of the two strings: an item matches whenever it is "
                               "a prefix of the token (or vice versa)" % (g.name, expr_str(r["ch"][0])))
    return (True, "helper `%s` (every result depends on both strings)" % g.name)


LITERAL_FILES = ("src/cldai/sdaiEnum.cc", "src/cldai/sdaiBinary.cc", "src/cldai/sdaiString.cc", "src/clstepcore/read_func.cc",
                 "src/clstepcore/STEPattribute.cc", "src/clstepcore/STEPaggrEnum.cc", "src/clstepcore/STEPaggrInt.cc",
                 "src/clstepcore/STEPaggrReal.cc", "src/clstepcore/STEPaggrString.cc", "src/clstepcore/STEPaggrBinary.cc",
                 "src/clstepcore/STEPaggregate.cc")


def r7_failure_not_forgiven(prog, res, sev):
    """In the literal readers a severity that was raised for the literal is lowered again only at the reviewed sites, and the
    automatic case is confined to 'exactly SEVERITY_INCOMPLETE' (a missing value of an optional attribute); `<=` would also
    forgive an invalid token.  Same engine and table as C03 R2, restricted to the files that read literals."""
    import report
    from rules import c03
    sub = report.Result("C09")
    c03.r2_relaxation(prog, sub, sev)
    n = 0
    for o in sub.obs:
        parts = o.key.split("|")
        if len(parts) > 1 and parts[1] in LITERAL_FILES:
            n += 1
            res.add("R7.failure_not_forgiven", "R7|" + "|".join(parts[1:]), o.where, o.ok,
                    o.msg if o.ok else o.msg + " — in a literal reader this turns a token that failed to convert into a silently unset attribute")
    res.floor("R7", "severity relaxations in the literal readers", n, 6)


def r8_search_bound_agrees(prog, res):
    """A linear search `while( i < B && <no match at i> ) ++i;` reports `not found` through a later test of i against a bound.  The two
    bounds must be the same expression: with a smaller loop bound the not-found test can never hold and the last index is taken for a
    match (every unknown LOGICAL token read as .U.), with a larger one the search runs past the table."""
    def conj(c, out):
        c = strip(c)
        while c is not None and c["k"] == "Paren" and c.get("ch"):
            c = strip(c["ch"][0])
        if c is not None and c["k"] == "Binary" and c.get("op") == "&&":
            conj(c["ch"][0], out)
            conj(c["ch"][1], out)
        elif c is not None:
            out.append(c)

    def bare(n):
        n = strip(n)
        while n is not None and n["k"] in ("Paren", "Cast") and n.get("ch") and "val" not in n:
            n = strip(n["ch"][0])
        return n
    n = 0
    for f in prog.all_functions():
        if f.component == "test":
            continue
        for w in f.walk():
            if w["k"] not in ("While", "For"):
                continue
            cond = w["ch"][0] if w["k"] == "While" else w["ch"][1]
            if cond is None:
                continue
            cs = []
            conj(cond, cs)
            if len(cs) < 2:
                continue        # a plain counting loop has no `not found` outcome
            for c in cs:
                if not (c["k"] == "Binary" and c.get("op") in ("<", "<=")):
                    continue
                v = bare(c["ch"][0])
                if v is None or v["k"] != "Ref" or v.get("dk") not in ("local", "param"):
                    continue
                bound = expr_str(c["ch"][1])
                last = max(x["l"] for x in walk(w))
                # the next store to the index after the loop ends the region in which it still holds the search result
                stop = min([x["l"] for x in f.walk() if x["l"] > last and
                            ((x["k"] == "Assign" and bare(x["ch"][0]) is not None and bare(x["ch"][0]).get("d") == v["d"]))] or [10 ** 9])
                for x in f.walk():
                    if x["k"] == "Binary" and x.get("op") in ("==", "!=", ">=", "<") and last < x["l"] <= stop:
                        a, b = bare(x["ch"][0]), bare(x["ch"][1])
                        other = x["ch"][1] if a is not None and a.get("d") == v["d"] else x["ch"][0] if b is not None and b.get("d") == v["d"] else None
                        if other is None:
                            continue
                        n += 1
                        ok = expr_str(other) == bound
                        res.add("R8.search_bound_agrees", "R8|%s|%s|%s" % (f.relfile(), f.name, v["n"]), f.where(x), ok,
                                "the search over `%s` and its not-found test use the same bound `%s`" % (v["n"], bound) if ok else
                                "the search loop at line %s runs while `%s %s %s`, but `not found` is tested as `%s %s %s`: %s" %
                                (w["l"], v["n"], c["op"], bound, v["n"], x["op"], expr_str(other),
                                 "the test can never hold after the loop, so a token that matches no entry is taken for the entry at the loop's "
                                 "last index and no error is raised"))
    res.floor("R8.search_bound_agrees", "searches with a not-found test", n, 4)


def r9_lookahead_not_stale(prog, res):
    """A variable that holds the look-ahead character (`c = in.peek()`) describes the stream only until something is consumed from
    it.  Typestate over the flag-consistent paths (pathstate): a consuming call on the same stream (`get()`, `ignore`, `>>` of anything
    but `ws`, `read`, `getline`) makes every look-ahead variable of that stream stale, an assignment (or `in.get( c )`) makes it fresh;
    no branch may be decided by a stale look-ahead.  `if( c == '+' ) in.get();` without a new peek leaves `c == '+'` for the digit tests
    that follow: the number is read as `no digits` and its text is skipped as garbage."""
    import pathstate
    import stuckstream

    def core(n):
        n = strip(n)
        while n is not None and n["k"] in ("Cast", "Paren") and n.get("ch"):
            n = strip(n["ch"][0])
        return n
    nf = 0
    for f in prog.all_functions():
        if f.component == "test" or f.cfg is None:
            continue
        pv = {}
        for a in f.walk():
            l = r = None
            if a["k"] == "Assign" and a.get("op", "=") == "=":
                l, r = core(a["ch"][0]), core(a["ch"][1])
                d = l.get("d") if l is not None and l["k"] == "Ref" else None
                nm = l.get("n") if d else None
            elif a["k"] == "Var" and a.get("ch") and a["ch"][0] is not None:
                r = core(a["ch"][0])
                d, nm = a["d"], a["n"]
            else:
                continue
            if d and r is not None and r["k"] == "Call" and (r.get("fn") or "").endswith("::peek") and r.get("ch"):
                st = stuckstream.stream_of(f, r["ch"][0])
                if st:
                    pv[d] = (nm, st)
        if not pv:
            continue
        hits = {}

        def consumed_stream(nd, f=f):
            if nd["k"] != "Call" or not nd.get("ch"):
                return None
            short = (nd.get("fn") or "").split("::")[-1]
            if short in ("get", "ignore", "getline", "read"):
                return stuckstream.stream_of(f, nd["ch"][0])
            if nd.get("opcall") == ">>" or short == "operator>>":
                tgt = core(nd["ch"][1]) if len(nd["ch"]) > 1 else None
                if tgt is not None and tgt.get("n") == "ws":
                    return None
                return stuckstream.stream_of(f, nd["ch"][0])
            return None

        def on_node(nd, ts, env, pv=pv):
            k = nd["k"]
            if k == "Assign" and nd.get("op", "=") == "=":
                l = core(nd["ch"][0])
                if l is not None and l["k"] == "Ref" and l.get("d") in pv:
                    return ts - {l["d"]}
            if k == "Var" and nd.get("d") in pv:
                return ts - {nd["d"]}
            st = consumed_stream(nd)
            if st:
                out = set(ts) | {d for d, (_, s2) in pv.items() if s2 == st}
                for a in call_args(nd):
                    a = core(a)
                    if a is not None and a["k"] == "Ref" and a.get("d") in pv:
                        out.discard(a["d"])       # in.get( c ) / in >> c  re-assigns c
                return frozenset(out)
            return ts

        def on_edge(cond, br, ts, env, hits=hits):
            for y in walk(cond):
                if y["k"] == "Ref" and y.get("d") in ts:
                    hits.setdefault(y["d"], (cond, y))
            return ts
        try:
            pathstate.walk(f, frozenset(), on_node, on_edge=on_edge)
        except pathstate.Budget as ex:
            res.broke("R9: %s" % ex)
            continue
        nf += 1
        bad = sorted(hits.values(), key=lambda h: h[0]["l"])
        res.add("R9.lookahead_not_stale", "R9|%s|%s" % (f.relfile(), f.name), f.where(bad[0][0]) if bad else f.where(), not bad,
                "every branch on a look-ahead variable (%s) follows a peek with nothing consumed in between" % ", ".join(sorted(n_ for n_, _ in pv.values())) if not bad else
                "`%s` still holds the character peeked before the stream was advanced when `%s` is decided: the branch describes a character "
                "that has already been consumed" % (bad[0][1]["n"], expr_str(bad[0][0])[:60]))
    res.floor("R9.lookahead_not_stale", "functions with a look-ahead variable", nf, 12)


INT_DIGITS = {"": ("int", 11), "h": ("int", 6), "hh": ("int", 4), "l": ("long", 20), "ll": ("long long", 20), "z": ("size_t", 20), "j": ("intmax_t", 20), "t": ("ptrdiff_t", 20)}


def r10_integer_buffer_fits(prog, res):
    """An integer is written through a scratch buffer: `sprintf( tmp, "%ld", value )` then `s = tmp`.  The buffer must hold the longest
    rendering of the conversion's type (20 characters for a 64-bit `%ld`, 11 for `%d`, plus the terminator).  With `snprintf` into a
    smaller buffer nothing overflows, but the text is cut - `123456789012` written as `12345678901` - and the cut text is a well-formed
    integer that reads back without complaint."""
    n = 0
    counters = {}
    for f in prog.all_functions():
        if f.component == "test" or f.component not in ("clstepcore", "cldai", "cleditor"):
            continue
        for c in f.calls():
            fn = c.get("fn") or ""
            if fn not in ("sprintf", "snprintf"):
                continue
            a = call_args(c)
            fi = 1 if fn == "sprintf" else 2
            if len(a) <= fi:
                continue
            dst, fmt = strip(a[0]), strip(a[fi])
            while dst is not None and dst["k"] == "Cast" and dst.get("ch"):
                dst = strip(dst["ch"][0])
            if dst is None or dst["k"] != "Ref" or dst.get("dk") != "local" or fmt is None or fmt["k"] != "Str":
                continue
            size = array_len(f.ty(dst))
            convs = parse_format(fmt.get("s") or "")
            if not size or not convs or any(cv["conv"] not in "diuxXo" for cv in convs):
                continue
            if any(cv.get("width") or cv.get("prec") for cv in convs):
                continue
            lit = len(re.sub(r"%[-+ #0]*[hlzjt]*[diuxXo]", "", fmt["s"]))
            need = lit + sum(INT_DIGITS.get(cv["len"], ("?", 20))[1] for cv in convs) + 1
            n += 1
            base = "R10|%s|%s|%s" % (f.relfile(), f.name, dst["n"])
            c0 = counters.get(base, 0)
            counters[base] = c0 + 1
            ok = size >= need
            res.add("R10.integer_buffer_fits", base if c0 == 0 else "%s#%d" % (base, c0), f.where(c), ok,
                    "`%s[%d]` holds the longest rendering of \"%s\" (%d bytes)" % (dst["n"], size, fmt["s"], need) if ok else
                    "`%s[%d]` is too small for the longest rendering of \"%s\" (%d bytes with the terminator): %s" %
                    (dst["n"], size, fmt["s"], need, "the text is cut and the cut text is another, well-formed integer" if fn == "snprintf" else
                     "the conversion writes past the buffer"))
    res.floor("R10.integer_buffer_fits", "integer conversions into local scratch buffers", n, 5)


def r11_literal_readers_skip_ws(prog, res):
    """The readers of numeric literals (`Read*( T & val, istream & in, ErrorDescriptor * err, const char * tokenList )`) are called on
    streams whose `skipws` flag cannot be relied on: SDAI_String::STEPread switches it off and restores it only when it read nothing,
    so after the first string of a file it stays off.  Each of these readers therefore skips leading white space itself: the first
    operation on the stream, on every path, is `in >> ws`.  Without it `(4,1,\n 1, 4)` loses its third element (`in >> i` fails on the
    blank) once any string has been read from the stream - not visible when the reader is tried on a fresh stream."""
    import stuckstream
    n = 0
    for f in prog.all_functions():
        if f.component == "test" or f.cfg is None or len(f.params) < 4:
            continue
        tys = [f.tyname(p_["t"]) if isinstance(p_.get("t"), int) else "" for p_ in f.params]
        if not (re.match(r"^Read[A-Z]", f.name) and "istream" in tys[1] and "ErrorDescriptor" in tys[2] and "char" in tys[3] and "&" in tys[0]):
            continue
        S = f.params[1]["d"]

        def is_ws(nd):
            if nd["k"] != "Call" or not (nd.get("opcall") == ">>" or (nd.get("fn") or "").endswith("operator>>")) or len(nd.get("ch") or []) < 2:
                return False
            t = strip(nd["ch"][1])
            return t is not None and t.get("n") == "ws" and stuckstream.stream_of(f, nd["ch"][0]) == S

        def is_streamop(nd):
            if nd["k"] != "Call" or not nd.get("ch"):
                return False
            short = (nd.get("fn") or "").split("::")[-1]
            if not (nd.get("opcall") == ">>" or short in ("operator>>", "get", "peek", "ignore", "read", "getline", "putback")):
                return False
            return stuckstream.stream_of(f, nd["ch"][0]) == S
        # walk from the entry: the first stream operation met on each path must be `>> ws`
        cfg = f.cfg
        seen = set()
        work = [cfg.entry]
        bad = None
        while work and bad is None:
            b = work.pop()
            if b in seen:
                continue
            seen.add(b)
            stop = False
            for e in cfg.blocks[b]["e"]:
                nd = f.nodes.get(e)
                if nd is None:
                    continue
                if is_ws(nd):
                    stop = True
                    break
                if is_streamop(nd):
                    bad = nd
                    stop = True
                    break
            if not stop:
                work.extend(s2 for s2 in cfg.succ[b])
        n += 1
        res.add("R11.literal_reader_skips_ws", "R11|%s|%s" % (f.relfile(), f.name), f.where(bad) if bad else f.where(), bad is None,
                "%s skips leading white space itself before anything else is read from the stream" % f.name if bad is None else
                "%s starts with `%s`, relying on the stream's skipws flag: SDAI_String::STEPread leaves that flag off after the first string of "
                "a file, so a blank or line break in front of the literal makes the conversion fail" % (f.name, expr_str(bad)[:40]))
    res.floor("R11.literal_reader_skips_ws", "literal readers with the (val, in, err, tokenList) signature", n, 3)


def r12_closing_quote_lookahead(prog, res):
    """An apostrophe inside a Part 21 string is written twice, so a scanner knows that an apostrophe closes the literal only after it
    has looked at the character behind it.  For every function that scans a literal by `peek() == APOSTROPHE` / `get()`: on every path,
    after the scanner consumed an apostrophe other than the opening one, it must evaluate another `peek() == APOSTROPHE` test (either
    way) or see the stream exhausted (`good()` false / `eof()` true) before it returns.  A return straight after the second apostrophe
    reads a value that begins with a doubled apostrophe as the empty string and leaves the rest of the literal in the stream."""
    import pathstate
    n = 0

    def classify(cn):
        """('delim'|'good'|'eof', polarity flip) of an atomic terminator condition"""
        flip = False
        c = strip(cn)
        while c is not None and ((c["k"] == "Unary" and c.get("op") == "!") or c["k"] in ("Paren", "Cast")) and c.get("ch"):
            if c["k"] == "Unary":
                flip = not flip
            c = strip(c["ch"][0])
        if c is None:
            return None
        if c["k"] == "Binary" and c.get("op") in ("&&", "||") and not flip:
            # the block that ends in `A && B` is left on the value of B (A has its own block)
            return classify(c["ch"][1])
        if c["k"] == "Binary" and c.get("op") in ("==", "!=") and len(c.get("ch") or []) == 2:
            a, b = c["ch"]
            pk = [x for x in (a, b) if any(y["k"] == "Call" and (y.get("fn") or "").endswith("::peek") for y in walk(x))]
            q = [x for x in (a, b) if x.get("val") == 39 or (strip(x) is not None and strip(x).get("val") == 39)]
            if pk and q:
                return ("delim", flip != (c["op"] == "!="))
        if c["k"] == "Call" and (c.get("fn") or "").endswith("::good"):
            return ("good", flip)
        if c["k"] == "Call" and (c.get("fn") or "").endswith("::eof"):
            return ("eof", flip)
        return None

    for f in prog.all_functions():
        if f.component == "test" or f.cfg is None:
            continue
        if not any(classify(c) and classify(c)[0] == "delim" for c in f.walk() if c["k"] == "Binary"):
            continue
        if not any((c.get("fn") or "").endswith("basic_istream<char>::get") for c in f.calls()):
            continue
        bad = {}

        # state: (apostrophes consumed (0, 1, 2 = two or more), the last peek saw an apostrophe, unconfirmed closing candidate)
        def on_node(nd, ts, env, bad=bad):
            cnt, pend, unc = ts
            if nd["k"] == "Call" and (nd.get("fn") or "").endswith("basic_istream<char>::get") and nd.get("np") == 0:
                if pend:
                    cnt = min(2, cnt + 1)
                    return (cnt, False, cnt >= 2)
                return (cnt, False, False)
            if nd["k"] == "Return" and unc:
                bad.setdefault(nd["i"], nd)
            return ts

        def on_edge(cn, br, ts, env):
            k = classify(cn)
            if k is None:
                return ts
            kind, flip = k
            val = (br != flip)
            if kind == "delim":
                return (ts[0], val, False)
            if (kind == "good" and not val) or (kind == "eof" and val):
                return (ts[0], ts[1], False)
            return ts
        try:
            pathstate.walk(f, (0, False, False), on_node, on_edge=on_edge)
        except pathstate.Budget as ex:
            res.broke("R12: %s" % ex)
            continue
        n += 1
        b = sorted(bad.values(), key=lambda x: x["l"])
        res.add("R12.closing_quote_lookahead", "R12|%s|%s" % (f.relfile(), f.name), f.where(b[0]) if b else f.where(), not b,
                "every apostrophe consumed after the opening one is followed by a look at the next character before the scanner returns"
                if not b else
                "a path returns right after consuming a second apostrophe without looking at the character behind it: a doubled "
                "apostrophe at the start of a value (a place name like 's-Hertogenbosch) is taken for the empty string and the rest of "
                "the literal stays in the stream")
    res.floor("R12.closing_quote_lookahead", "scanners of string literals (peek/get idiom)", n, 1)


def run(prog, res, tier):
    sev = sev_enum(prog)
    if sev is None:
        res.broke("anchor vanished: enum Severity")
        return
    r1_fail_raise(prog, res, sev)
    r2_trailing_check(prog, res)
    r3_putback(prog, res)
    r4_writer_tokens(prog, res)
    r6_enum_item_match(prog, res)
    r7_failure_not_forgiven(prog, res, sev)
    r8_search_bound_agrees(prog, res)
    r9_lookahead_not_stale(prog, res)
    r10_integer_buffer_fits(prog, res)
    r11_literal_readers_skip_ws(prog, res)
    r12_closing_quote_lookahead(prog, res)
