"""C11 — inverse attributes resolved on load contain exactly the real referrers (structural clauses).

 R1 fresh candidates   the candidate set filled for one inverse attribute is emptied (or local) before it is filled for the next
 R2 only referents     every write into an inverse attribute (AddNode, setInvAttr, single-valued assignment) happens only when
                       refersToCurrentInst(ia, referrer) said yes for that very attribute and referrer
 R3 no sentinel index  the index returned by attrIndex() (-1 = the referrer has no such attribute) is tested before it is used
 R4 none twice         candidates are a set and the resolver runs once per loaded instance (only on the cache-miss path)
 R5 own and inherited  the inverse attributes collected are those of every supertype *and* of the entity itself, each list
                       walked to its end
 R6 all of them        init() resolves every collected inverse attribute; candidates include the subtypes of the inverted entity
 R7 identity           a referrer counts when the inverted attribute (single or aggregate element) is the loaded instance itself
"""
import re
from ir import walk, strip, expr_str
from engines import call_args, known_facts

PID = "C11"
UNITS = dict(components={"cllazyfile", "clstepcore"})
LEVEL_TEXT = "other"
TECHNIQUE = ("static analysis: per-iteration freshness of a member container (clear dominates fill), must-be-guarded rule for writes "
             "into inverse attributes, sentinel-return-used-as-index rule, loop-shape rules on the collectors, who-constructs rule")
EXPLANATION = (
    "Structural necessary conditions decided on the AST/CFG of lazyRefs (header-defined member functions) and lazyInstMgr. "
    "(R1) in checkAnInvAttr the call that fills _referentInstances is dominated by _referentInstances.clear() in the same "
    "function (or the set is a local). (R2) in loadInstIFFreferent every AddNode on the inverse aggregate, every assignment of "
    "the single-valued inverse and every setInvAttr lies in the true branch of a variable assigned from "
    "refersToCurrentInst(ia, rinst) with the function's own ia and the instance just loaded. (R3) a value obtained from "
    "attrIndex() is used as a subscript only after a dominating test that it is not negative. (R4) referentInstances_t is a "
    "std::set; lazyRefs is constructed only in lazyInstMgr::loadInstance after the cache look-up missed. (R5) every call of "
    "NextInverse_attribute() in getInverseAttrs is the condition of a loop whose body inserts the attribute; one such loop runs "
    "inside the loop over the supertype iterator and one over the entity's own list. (R6) init() calls checkAnInvAttr in a loop "
    "over all of _iaList without early exit; checkAnInvAttr adds the inverted entity and everything its subtype iterator yields. "
    "(R7) both branches of refersToCurrentInst compare with _inst. "
    "Not decided: that the resulting sets equal the true referrers for every population (needs the run-time population), "
    "re-entrant loads of an instance that is still being read (reference cycles create a second object).")


def lazyfn(prog, name):
    c = [f for f in prog.fn("lazyRefs::" + name)]
    return c[0] if c else None


def member_is(n, q):
    n = strip(n)
    return n is not None and n["k"] == "Member" and (n.get("q") or "") == q


def r1_fresh(prog, res):
    f = lazyfn(prog, "checkAnInvAttr")
    g = lazyfn(prog, "potentialReferentInsts")
    if f is None or g is None:
        res.broke("anchor vanished: lazyRefs::checkAnInvAttr / potentialReferentInsts")
        return
    # which member does the filler insert into?
    targets = set()
    for c in g.calls():
        if c.get("member") and (c.get("fn") or "").split("::")[-1] in ("insert", "push_back", "emplace") and c.get("ch"):
            o = strip(c["ch"][0])
            if o is not None and o["k"] == "Member":
                targets.add(o.get("q"))
    if len(targets) != 1:
        res.broke("potentialReferentInsts no longer fills exactly one member container: %s" % sorted(targets))
        return
    q = next(iter(targets))
    fills = [c for c in f.calls() if (c.get("fn") or "").endswith("potentialReferentInsts")]
    clears = [c for c in f.calls() if c.get("member") and (c.get("fn") or "").split("::")[-1] == "clear" and c.get("ch") and member_is(c["ch"][0], q)]
    ok = bool(fills) and all(any(f.cfg.dominates(f.cfg.locate(k), f.cfg.locate(fl)) for k in clears) for fl in fills)
    res.add("R1.candidates_reset", "R1|src/cllazyfile/lazyRefs.h|checkAnInvAttr|%s" % q.split("::")[-1], f.where(fills[0]) if fills else f.where(), ok,
            "%s is emptied before it is filled for this inverse attribute" % q.split("::")[-1] if ok else
            "%s is filled for each inverse attribute but never emptied in between: the referrers collected for the previous inverse "
            "attribute (other entity types) are examined again for this one" % q.split("::")[-1])
    # the loop that consumes it iterates the same member
    loops = [x for x in f.walk() if x["k"] == "For"]
    ok = any(q.split("::")[-1] + ".end" in re.sub(r"[\s()]", "", " ".join(expr_str(c) for c in lp["ch"][:3] if c is not None)) for lp in loops)
    res.add("R1.candidates_consumed", "R1|src/cllazyfile/lazyRefs.h|checkAnInvAttr|consume", f.where(), ok,
            "every candidate is handed to loadInstIFFreferent" if ok else "checkAnInvAttr no longer walks the candidate set to its end")


def r2_guarded(prog, res):
    f = lazyfn(prog, "loadInstIFFreferent")
    if f is None:
        res.broke("anchor vanished: lazyRefs::loadInstIFFreferent")
        return
    ia = [p for p in f.params if "Inverse_attribute" in f.tyname(p["t"])]
    loads = [x for x in f.walk() if x["k"] == "Var" and x.get("ch") and strip(x["ch"][0]) is not None and strip(x["ch"][0])["k"] == "Call" and
             (strip(x["ch"][0]).get("fn") or "").endswith("loadInstance")]
    checks = [x for x in f.walk() if x["k"] == "Var" and x.get("ch") and strip(x["ch"][0]) is not None and strip(x["ch"][0])["k"] == "Call" and
              (strip(x["ch"][0]).get("fn") or "").endswith("refersToCurrentInst")]
    if len(ia) != 1 or len(loads) != 1 or len(checks) != 1:
        res.add("R2.only_referents", "R2|src/cllazyfile/lazyRefs.h|loadInstIFFreferent|shape", f.where(), False,
                "loadInstIFFreferent must load the candidate once and ask refersToCurrentInst once (found %d loads, %d checks)" % (len(loads), len(checks)))
        return
    ca = call_args(strip(checks[0]["ch"][0]))
    ok_args = strip(ca[0]).get("d") == ia[0]["d"] and strip(ca[1]).get("d") == loads[0]["d"]
    res.add("R2.asks_about_this_pair", "R2|src/cllazyfile/lazyRefs.h|loadInstIFFreferent|check-args", f.where(checks[0]), ok_args,
            "refersToCurrentInst is asked about this inverse attribute and the instance just loaded" if ok_args else
            "refersToCurrentInst is asked about (%s, %s), not about this inverse attribute and the loaded candidate" % (expr_str(ca[0]), expr_str(ca[1])))
    ref = checks[0]["d"]
    n = 0
    for x in f.walk():
        site = None
        if x["k"] == "Call" and (x.get("fn") or "").split("::")[-1] in ("AddNode", "setInvAttr"):
            site = (x, (x.get("fn") or "").split("::")[-1])
        elif x["k"] == "Assign" and strip(x["ch"][0]) is not None and strip(x["ch"][0])["k"] == "Member" and strip(x["ch"][0])["n"] in ("i", "a") and \
                "iAstruct" in (strip(x["ch"][0]).get("q") or ""):
            site = (x, "ias." + strip(x["ch"][0])["n"])
        if site is None:
            continue
        n += 1
        guarded = any(pol and strip(c) is not None and strip(c)["k"] == "Ref" and strip(c).get("d") == ref for (c, pol) in known_facts(f, x))
        res.add("R2.only_referents", "R2|src/cllazyfile/lazyRefs.h|loadInstIFFreferent|%s#%d" % (site[1], n), f.where(x), guarded,
                "%s happens only for a candidate that refers to the instance through the inverted attribute" % site[1] if guarded else
                "%s is not under the result of refersToCurrentInst: an instance that merely mentions the loaded one elsewhere is entered "
                "into the inverse attribute" % site[1])
    res.floor("R2", "writes into inverse attributes", n, 3)


def r3_sentinel(prog, res):
    n = 0
    g = lazyfn(prog, "attrIndex")
    neg = g is not None and any(x["k"] == "Return" and x.get("ch") and (strip(x["ch"][0]) or {}).get("val") == -1 for x in g.walk())
    res.add("R3.sentinel_known", "R3|src/cllazyfile/lazyRefs.h|attrIndex|returns-minus-one", g.where() if g else "src/cllazyfile/lazyRefs.h:1", bool(neg),
            "attrIndex() returns -1 for 'no such attribute'" if neg else "attrIndex() no longer returns -1 for 'not found' (re-read the rule)")
    for f in prog.all_functions():
        for x in f.walk():
            if x["k"] == "Var" and x.get("ch") and strip(x["ch"][0]) is not None and strip(x["ch"][0])["k"] == "Call" and \
                    (strip(x["ch"][0]).get("fn") or "").endswith("lazyRefs::attrIndex"):
                d = x["d"]
                for u in f.walk():
                    if u["k"] == "Call" and u.get("opcall") == "[]" or u["k"] == "Subscript":
                        idx = strip(u["ch"][-1])
                        if idx is not None and idx["k"] == "Ref" and idx.get("d") == d:
                            n += 1
                            # dominated by `if (d < 0) return` / `if (d >= 0) {`
                            ok = False
                            for y in f.walk():
                                if y["k"] == "If":
                                    c = re.sub(r"[\s()]", "", expr_str(y["ch"][0]))
                                    nm = x["n"]
                                    if c in ("%s<0" % nm, "%s==-1" % nm, "0>%s" % nm) and any(z["k"] == "Return" for z in walk(y["ch"][1])) and \
                                            f.cfg.dominates(f.first_pos(y["ch"][0]), f.cfg.locate(u)):
                                        ok = True
                                    if c in ("%s>=0" % nm, "%s!=-1" % nm, "%s>-1" % nm) and any(z is u for z in walk(y["ch"][1])):
                                        ok = True
                            res.add("R3.index_checked", "R3|%s|%s|%s" % (f.relfile(), f.name, x["n"]), f.where(u), ok,
                                    "the attribute index is used only after the 'not found' result was excluded" if ok else
                                    "%s subscripts with the result of attrIndex() without testing for -1: attributes[-1] silently yields the first "
                                    "attribute, so a referrer of another kind is judged by an unrelated attribute" % f.name)
    res.floor("R3", "subscripts with an attrIndex() result", n, 1)


def r4_once(prog, res):
    rec = prog.records.get("lazyRefs")
    ok = False
    if rec:
        for fld in rec["fields"]:
            if fld["n"] == "_referentInstances":
                ty = rec["_types"][fld["t"]] if isinstance(fld.get("t"), int) else ""
                ok = "set<" in ty and "multiset" not in ty
    res.add("R4.candidates_are_a_set", "R4|src/cllazyfile/lazyRefs.h|lazyRefs|_referentInstances", "src/cllazyfile/lazyRefs.h:1", ok,
            "candidates are kept in a std::set: a referrer is examined once per inverse attribute" if ok else
            "_referentInstances is no longer a std::set: a referrer could be entered twice")
    n = 0
    for f in prog.all_functions():
        for c in f.walk():
            if c["k"] == "Construct" and (c.get("fn") or "") == "lazyRefs::lazyRefs" and (c.get("np") or 0) >= 2:
                n += 1
                okc = f.name == "lazyInstMgr::loadInstance"
                if okc:
                    hit = [x for x in f.walk() if x["k"] == "If" and any(y["k"] == "Return" for y in walk(x["ch"][1])) and
                           strip(x["ch"][0]) is not None and strip(x["ch"][0])["k"] == "Ref"]
                    okc = any(f.cfg.dominates(f.first_pos(h["ch"][0]), f.cfg.locate(c)) and not any(y is c for y in walk(h["ch"][1])) for h in hit)
                res.add("R4.resolved_once", "R4|%s|%s|lazyRefs" % (f.relfile(), f.name), f.where(c), okc,
                        "inverse attributes are resolved once, when the instance is first loaded (after the cache look-up missed)" if okc else
                        "%s resolves inverse attributes outside the cache-miss path of loadInstance: referrers are added again on a later load" % f.name)
    res.floor("R4", "constructions of the resolver", n, 1)


def r5_r6_collect(prog, res):
    f = lazyfn(prog, "getInverseAttrs")
    if f is None:
        res.broke("anchor vanished: lazyRefs::getInverseAttrs")
        return
    nexts = [c for c in f.calls() if (c.get("fn") or "").endswith("NextInverse_attribute")]
    n_in_super = 0
    n_own = 0
    for c in nexts:
        loops = [a for a in f.ancestors(c) if a["k"] in ("While", "For", "Do")]
        inner = loops[0] if loops else None
        is_cond = inner is not None and any(y is c for y in walk(inner["ch"][0] if inner["k"] == "While" else (inner["ch"][1] if inner["k"] == "For" else inner["ch"][1])))
        inserts = inner is not None and any(y["k"] == "Call" and (y.get("fn") or "").split("::")[-1] == "insert" for y in walk(inner))
        ok = is_cond and inserts
        outer_super = any("supersIter" in expr_str(a["ch"][1] if a["k"] == "For" and a["ch"][1] is not None else a["ch"][0]) or
                          "supertypesIterator" in " ".join(f.ty(y) for y in walk(a) if y["k"] == "Ref") for a in loops[1:]) if len(loops) > 1 else False
        if ok and outer_super:
            n_in_super += 1
        elif ok:
            n_own += 1
        res.add("R5.list_walked_to_end", "R5|src/cllazyfile/lazyRefs.h|getInverseAttrs|%s" % ("supertype" if len(loops) > 1 else "own"), f.where(c), ok,
                "the inverse attributes of this entity descriptor are taken one after the other until the iterator is exhausted" if ok else
                "NextInverse_attribute() is not the condition of a loop that stores the attribute: only the first inverse attribute of the "
                "entity is resolved, later ones stay empty")
    ok = n_in_super >= 1 and n_own >= 1
    res.add("R5.own_and_inherited", "R5|src/cllazyfile/lazyRefs.h|getInverseAttrs|both", f.where(), ok,
            "inverse attributes are collected from every supertype and from the entity itself" if ok else
            "getInverseAttrs collects from supertypes: %d loop(s), from the entity itself: %d loop(s)" % (n_in_super, n_own))
    # ---- init: every collected inverse attribute is resolved
    g = lazyfn(prog, "init")
    if g is None:
        res.broke("anchor vanished: lazyRefs::init")
        return
    calls = [c for c in g.calls() if (c.get("fn") or "").endswith("checkAnInvAttr")]
    ok = False
    if len(calls) == 1:
        loops = [a for a in g.ancestors(calls[0]) if a["k"] in ("For", "While")]
        conds = [a for a in g.ancestors(calls[0]) if a["k"] == "If" and loops and any(y is a for y in walk(loops[0]))]
        brk = loops and any(y["k"] in ("Break", "Return") for y in walk(loops[0]["ch"][-1]))
        ok = bool(loops) and not conds and not brk and "_iaList.end" in re.sub(r"[\s()]", "", " ".join(expr_str(c) for c in loops[0]["ch"][:3] if c is not None))
    res.add("R6.all_resolved", "R6|src/cllazyfile/lazyRefs.h|init|loop", g.where(calls[0]) if calls else g.where(), ok,
            "every collected inverse attribute is resolved" if ok else "init() no longer resolves every element of _iaList unconditionally")
    # ---- candidates include the subtypes of the inverted entity
    h = lazyfn(prog, "checkAnInvAttr")
    if h is not None:
        ins = [c for c in h.calls() if (c.get("fn") or "").split("::")[-1] == "insert"]
        loops = [x for x in h.walk() if x["k"] == "For" and any("subtypesIterator" in h.ty(y) for y in walk(x) if y["k"] == "Ref")]
        ok = len(ins) >= 2 and bool(loops) and any(any(y is c for y in walk(loops[0])) for c in ins) and any(not any(y is c for lp in loops for y in walk(lp)) for c in ins)
        res.add("R6.subtypes_included", "R6|src/cllazyfile/lazyRefs.h|checkAnInvAttr|subtypes", h.where(), ok,
                "referrers of the inverted entity and of each of its subtypes are candidates" if ok else
                "the candidate entity types no longer consist of the inverted entity plus everything its subtype iterator yields")


def r7_identity(prog, res):
    f = lazyfn(prog, "refersToCurrentInst")
    if f is None:
        res.broke("anchor vanished: lazyRefs::refersToCurrentInst")
        return
    cmps = [x for x in f.walk() if x["k"] == "Binary" and x.get("op") == "==" and any(member_is(c, "lazyRefs::_inst") for c in x["ch"])]
    sets = [x for x in f.walk() if x["k"] == "Assign" and strip(x["ch"][0]) is not None and strip(x["ch"][0])["k"] == "Ref" and strip(x["ch"][0])["n"] == "found"
            and (strip(x["ch"][1]) or {}).get("val") == 1]
    ok = len(cmps) >= 2 and len(sets) >= 2 and all(any(any(y is c for y in walk(a["ch"][0])) for a in f.ancestors(s) if a["k"] == "If" for c in cmps) for s in sets)
    res.add("R7.identity_with_loaded_instance", "R7|src/cllazyfile/lazyRefs.h|refersToCurrentInst|identity", f.where(), ok,
            "a referrer counts exactly when the inverted attribute (or one of its elements) is the loaded instance itself" if ok else
            "refersToCurrentInst no longer decides by identity with _inst in both the aggregate and the single-valued branch")
    rets = [x for x in f.walk() if x["k"] == "Return"]
    ok = all(strip(r["ch"][0]) is not None and (strip(r["ch"][0]).get("n") == "found" or strip(r["ch"][0]).get("val") == 0) for r in rets if r.get("ch"))
    res.add("R7.identity_with_loaded_instance", "R7|src/cllazyfile/lazyRefs.h|refersToCurrentInst|result", f.where(), ok,
            "the verdict returned is the identity test's result" if ok else "refersToCurrentInst returns something else than its identity test")


def run(prog, res, tier):
    r1_fresh(prog, res)
    r2_guarded(prog, res)
    r3_sentinel(prog, res)
    r4_once(prog, res)
    r5_r6_collect(prog, res)
    r7_identity(prog, res)
