"""C11 — inverse attributes resolved on load contain exactly the real referrers (structural clauses).

 R1 fresh candidates   the candidate set filled for one inverse attribute is emptied (or local) before it is filled for the next
 R2 only referents     every write into an inverse attribute (AddNode, setInvAttr, single-valued assignment) happens only when
                       refersToCurrentInst(ia, referrer) said yes for that very attribute and referrer
 R3 no sentinel index  the index returned by attrIndex() (-1 = the referrer has no such attribute) is tested before it is used
 R4 none twice         candidates are a set and the resolver runs once per loaded instance (only on the cache-miss path)
 R5 own and inherited  the inverse attributes collected are those of every supertype *and* of the entity itself, each list
                       walked to its end
 R6 all of them        init() resolves every collected inverse attribute; candidates include the subtypes of the inverted entity
 R7 identity           a referrer counts when the inverted attribute (single or aggregate element) is the loaded instance itself
"""
import re
from ir import walk, strip, expr_str, access_path
from engines import call_args, known_facts

PID = "C11"
UNITS = dict(components={"cllazyfile", "clstepcore"})
LEVEL_TEXT = "other"
TECHNIQUE = ("static analysis: per-iteration freshness of a member container (clear dominates fill), must-be-guarded rule for writes "
             "into inverse attributes, sentinel-return-used-as-index rule, loop-shape rules on the collectors, who-constructs rule")
EXPLANATION = (
    "Structural necessary conditions decided on the AST/CFG of lazyRefs (header-defined member functions) and lazyInstMgr. "
    "(R1) in checkAnInvAttr the call that fills _referentInstances is dominated by _referentInstances.clear() in the same "
    "function (or the set is a local). (R2) in loadInstIFFreferent every AddNode on the inverse aggregate, every assignment of "
    "the single-valued inverse and every setInvAttr lies in the true branch of a variable assigned from "
    "refersToCurrentInst(ia, rinst) with the function's own ia and the instance just loaded. (R3) a value obtained from "
    "attrIndex() is used as a subscript only after a dominating test that it is not negative. (R4) referentInstances_t is a "
    "std::set; lazyRefs is constructed only in lazyInstMgr::loadInstance after the cache look-up missed. (R5) every call of "
    "NextInverse_attribute() in getInverseAttrs is the condition of a loop whose body inserts the attribute; one such loop runs "
    "inside the loop over the supertype iterator and one over the entity's own list. (R6) init() calls checkAnInvAttr in a loop "
    "over all of _iaList without early exit; checkAnInvAttr adds the inverted entity and everything its subtype iterator yields. "
    "(R7) both branches of refersToCurrentInst compare with _inst. (R4b) the resolver is constructed under the same conditions as "
    "the cache insert of loadInstance, for the instance that is cached. (R9) clients of the recursive super/subtype iterators take elements either only through "
    "current()/* or only through the value returned by next() (which is the element just left), never both on one iterator. "
    "(R8) a parameter whose member is created on demand "
    "(`if( !p.f ) p.f = new ..`) is a reference or pointer, so that the aggregate created for the first referrer is the one "
    "the next referrer is added to. "
    "(R1b) every lazyRefs member container changed during the per-attribute pass is emptied in checkAnInvAttr before the calls that change it. (R4b) every instance that enters the cache is queued for inverse resolution under the same conditions, and the queue is drained (entry taken, removed, resolved) under `no instance is half-read`, with the depth counter bracketing exactly the attribute reads. (R8) a parameter whose member is created on demand is a reference or pointer. (R9) clients of the recursive super/subtype iterators take elements either through current() or through the value of next(), never both. Not decided: that the resulting sets equal the true referrers for every population (needs the run-time population)."
    " (R10) every loop of lazyRefs whose body inserts into a container (the subtype closure of the inverted entity, the inverse attributes of the supertypes, the candidate referrers) runs until its iterator is exhausted: no break, return or goto leaves it from the body."
    " (R11) in the search loops of lazyRefs every criterion (conjunct) of a multi-criteria match mentions the loop variable or a value computed from it: no criterion is the same for every element."
    " (R12) aggregate-or-single storage of an inverse attribute is decided by IsAggrType() of the inverse attribute itself; the referrer's attribute is found by the descriptor the dictionary resolved for the inverse attribute, so inherited inverted attributes match."
    " (R13) a pointer into function-static storage (least fixed point of `returns its static buffer / static string`; lazyInstMgr::typeFromFile via sectionReader::getDelimitedKeyword) is compared or copied by the lazy loader, never stored in a container or member.")


def lazyfn(prog, name):
    c = [f for f in prog.fn("lazyRefs::" + name)]
    return c[0] if c else None


def member_is(n, q):
    n = strip(n)
    return n is not None and n["k"] == "Member" and (n.get("q") or "") == q


def r1_fresh(prog, res):
    f = lazyfn(prog, "checkAnInvAttr")
    g = lazyfn(prog, "potentialReferentInsts")
    if f is None or g is None:
        res.broke("anchor vanished: lazyRefs::checkAnInvAttr / potentialReferentInsts")
        return
    # which member does the filler insert into?
    targets = set()
    for c in g.calls():
        if c.get("member") and (c.get("fn") or "").split("::")[-1] in ("insert", "push_back", "emplace") and c.get("ch"):
            o = strip(c["ch"][0])
            if o is not None and o["k"] == "Member":
                targets.add(o.get("q"))
    if len(targets) != 1:
        res.broke("potentialReferentInsts no longer fills exactly one member container: %s" % sorted(targets))
        return
    q = next(iter(targets))
    fills = [c for c in f.calls() if (c.get("fn") or "").endswith("potentialReferentInsts")]
    clears = [c for c in f.calls() if c.get("member") and (c.get("fn") or "").split("::")[-1] == "clear" and c.get("ch") and member_is(c["ch"][0], q)]
    ok = bool(fills) and all(any(f.cfg.dominates(f.cfg.locate(k), f.cfg.locate(fl)) for k in clears) for fl in fills)
    res.add("R1.candidates_reset", "R1|src/cllazyfile/lazyRefs.h|checkAnInvAttr|%s" % q.split("::")[-1], f.where(fills[0]) if fills else f.where(), ok,
            "%s is emptied before it is filled for this inverse attribute" % q.split("::")[-1] if ok else
            "%s is filled for each inverse attribute but never emptied in between: the referrers collected for the previous inverse "
            "attribute (other entity types) are examined again for this one" % q.split("::")[-1])
    # every other member container of lazyRefs that the per-attribute pass (checkAnInvAttr and what it calls inside lazyRefs) changes
    # is state of *one* inverse attribute: it has to be emptied in checkAnInvAttr before the calls that change it, otherwise what was
    # recorded for one inverse attribute (e.g. "this referrer is already listed") leaks into the next
    MUT = ("insert", "push_back", "emplace", "emplace_back", "erase", "operator[]")
    per_attr = {}
    seen_fn = set()
    work = [f]
    while work:
        h = work.pop()
        if h.key in seen_fn:
            continue
        seen_fn.add(h.key)
        for c in h.calls():
            if c.get("member") and (c.get("fn") or "").split("::")[-1] in MUT and c.get("ch"):
                o = strip(c["ch"][0])
                if o is not None and o["k"] == "Member" and (o.get("q") or "").startswith("lazyRefs::"):
                    per_attr.setdefault(o["q"], set()).add(h.key)
            if (c.get("fn") or "").startswith("lazyRefs::") and c.get("fk"):
                for h2 in prog.all_functions():
                    if h2.key == c["fk"] and h2.key not in seen_fn:
                        work.append(h2)
    for q2, where_keys in sorted(per_attr.items()):
        if q2 == q:
            continue
        # calls in checkAnInvAttr that (transitively) reach a mutator of q2
        def reaches(k, seen=None):
            seen = seen or set()
            if k in where_keys:
                return True
            seen.add(k)
            for h in prog.all_functions():
                if h.key == k:
                    for c in h.calls():
                        if (c.get("fn") or "").startswith("lazyRefs::") and c.get("fk") and c["fk"] not in seen and reaches(c["fk"], seen):
                            return True
                    break
            return False
        users = [c for c in f.calls() if (c.get("fn") or "").startswith("lazyRefs::") and c.get("fk") and reaches(c["fk"])]
        if f.key in where_keys:
            users += [c for c in f.calls() if c.get("member") and (c.get("fn") or "").split("::")[-1] in MUT and c.get("ch") and member_is(c["ch"][0], q2)]
        clears2 = [c for c in f.calls() if c.get("member") and (c.get("fn") or "").split("::")[-1] == "clear" and c.get("ch") and member_is(c["ch"][0], q2)]
        ok2 = bool(users) and all(any(f.cfg.dominates(f.cfg.locate(k), f.cfg.locate(u)) for k in clears2) for u in users)
        res.add("R1.per_attribute_state_reset", "R1|src/cllazyfile/lazyRefs.h|checkAnInvAttr|%s" % q2.split("::")[-1], f.where(users[0]) if users else f.where(), ok2,
                "%s is emptied for each inverse attribute before it is used" % q2.split("::")[-1] if ok2 else
                "%s is changed while one inverse attribute is resolved but not emptied in checkAnInvAttr: what was recorded for an earlier inverse "
                "attribute of the same instance still counts for the next (a referrer that refers through two attributes is missing from the second)" % q2.split("::")[-1])
    # the loop that consumes it iterates the same member
    loops = [x for x in f.walk() if x["k"] == "For"]
    ok = any(q.split("::")[-1] + ".end" in re.sub(r"[\s()]", "", " ".join(expr_str(c) for c in lp["ch"][:3] if c is not None)) for lp in loops)
    res.add("R1.candidates_consumed", "R1|src/cllazyfile/lazyRefs.h|checkAnInvAttr|consume", f.where(), ok,
            "every candidate is handed to loadInstIFFreferent" if ok else "checkAnInvAttr no longer walks the candidate set to its end")


def r2_guarded(prog, res):
    f = lazyfn(prog, "loadInstIFFreferent")
    if f is None:
        res.broke("anchor vanished: lazyRefs::loadInstIFFreferent")
        return
    ia = [p for p in f.params if "Inverse_attribute" in f.tyname(p["t"])]
    loads = [x for x in f.walk() if x["k"] == "Var" and x.get("ch") and strip(x["ch"][0]) is not None and strip(x["ch"][0])["k"] == "Call" and
             (strip(x["ch"][0]).get("fn") or "").endswith("loadInstance")]
    checks = [x for x in f.walk() if x["k"] == "Var" and x.get("ch") and strip(x["ch"][0]) is not None and strip(x["ch"][0])["k"] == "Call" and
              (strip(x["ch"][0]).get("fn") or "").endswith("refersToCurrentInst")]
    if len(ia) != 1 or len(loads) != 1 or len(checks) != 1:
        res.add("R2.only_referents", "R2|src/cllazyfile/lazyRefs.h|loadInstIFFreferent|shape", f.where(), False,
                "loadInstIFFreferent must load the candidate once and ask refersToCurrentInst once (found %d loads, %d checks)" % (len(loads), len(checks)))
        return
    ca = call_args(strip(checks[0]["ch"][0]))
    ok_args = strip(ca[0]).get("d") == ia[0]["d"] and strip(ca[1]).get("d") == loads[0]["d"]
    res.add("R2.asks_about_this_pair", "R2|src/cllazyfile/lazyRefs.h|loadInstIFFreferent|check-args", f.where(checks[0]), ok_args,
            "refersToCurrentInst is asked about this inverse attribute and the instance just loaded" if ok_args else
            "refersToCurrentInst is asked about (%s, %s), not about this inverse attribute and the loaded candidate" % (expr_str(ca[0]), expr_str(ca[1])))
    ref = checks[0]["d"]
    n = 0
    for x in f.walk():
        site = None
        if x["k"] == "Call" and (x.get("fn") or "").split("::")[-1] in ("AddNode", "setInvAttr"):
            site = (x, (x.get("fn") or "").split("::")[-1])
        elif x["k"] == "Assign" and strip(x["ch"][0]) is not None and strip(x["ch"][0])["k"] == "Member" and strip(x["ch"][0])["n"] in ("i", "a") and \
                "iAstruct" in (strip(x["ch"][0]).get("q") or ""):
            site = (x, "ias." + strip(x["ch"][0])["n"])
        if site is None:
            continue
        n += 1
        guarded = any(pol and strip(c) is not None and strip(c)["k"] == "Ref" and strip(c).get("d") == ref for (c, pol) in known_facts(f, x))
        res.add("R2.only_referents", "R2|src/cllazyfile/lazyRefs.h|loadInstIFFreferent|%s#%d" % (site[1], n), f.where(x), guarded,
                "%s happens only for a candidate that refers to the instance through the inverted attribute" % site[1] if guarded else
                "%s is not under the result of refersToCurrentInst: an instance that merely mentions the loaded one elsewhere is entered "
                "into the inverse attribute" % site[1])
    res.floor("R2", "writes into inverse attributes", n, 3)


def r3_sentinel(prog, res):
    n = 0
    g = lazyfn(prog, "attrIndex")
    neg = g is not None and any(x["k"] == "Return" and x.get("ch") and (strip(x["ch"][0]) or {}).get("val") == -1 for x in g.walk())
    res.add("R3.sentinel_known", "R3|src/cllazyfile/lazyRefs.h|attrIndex|returns-minus-one", g.where() if g else "src/cllazyfile/lazyRefs.h:1", bool(neg),
            "attrIndex() returns -1 for 'no such attribute'" if neg else "attrIndex() no longer returns -1 for 'not found' (re-read the rule)")
    for f in prog.all_functions():
        cand = {}
        for x in f.walk():
            # the variable that receives an attrIndex() result: at its declaration or by a later assignment
            if x["k"] == "Var" and x.get("ch") and strip(x["ch"][0]) is not None and strip(x["ch"][0])["k"] == "Call" and \
                    (strip(x["ch"][0]).get("fn") or "").endswith("lazyRefs::attrIndex"):
                cand.setdefault(x["d"], x)
            if x["k"] == "Assign" and strip(x["ch"][0]) is not None and strip(x["ch"][0])["k"] == "Ref" and strip(x["ch"][1]) is not None and \
                    strip(x["ch"][1])["k"] == "Call" and (strip(x["ch"][1]).get("fn") or "").endswith("lazyRefs::attrIndex"):
                decl = [v for v in f.walk() if v["k"] == "Var" and v.get("d") == strip(x["ch"][0])["d"]]
                if decl:
                    cand.setdefault(decl[0]["d"], decl[0])
        for x in cand.values():
            if True:
                d = x["d"]
                for u in f.walk():
                    if u["k"] == "Call" and u.get("opcall") == "[]" or u["k"] == "Subscript":
                        idx = strip(u["ch"][-1])
                        if idx is not None and idx["k"] == "Ref" and idx.get("d") == d:
                            n += 1
                            # dominated by `if (d < 0) return` / `if (d >= 0) {`
                            ok = False
                            for y in f.walk():
                                if y["k"] == "If":
                                    c = re.sub(r"[\s()]", "", expr_str(y["ch"][0]))
                                    nm = x["n"]
                                    if c in ("%s<0" % nm, "%s==-1" % nm, "0>%s" % nm) and any(z["k"] == "Return" for z in walk(y["ch"][1])) and \
                                            f.cfg.dominates(f.first_pos(y["ch"][0]), f.cfg.locate(u)):
                                        ok = True
                                    if c in ("%s>=0" % nm, "%s!=-1" % nm, "%s>-1" % nm) and any(z is u for z in walk(y["ch"][1])):
                                        ok = True
                            res.add("R3.index_checked", "R3|%s|%s|%s" % (f.relfile(), f.name, x["n"]), f.where(u), ok,
                                    "the attribute index is used only after the 'not found' result was excluded" if ok else
                                    "%s subscripts with the result of attrIndex() without testing for -1: attributes[-1] silently yields the first "
                                    "attribute, so a referrer of another kind is judged by an unrelated attribute" % f.name)
    res.floor("R3", "subscripts with an attrIndex() result", n, 1)


def r4_once(prog, res):
    rec = prog.records.get("lazyRefs")
    ok = False
    if rec:
        for fld in rec["fields"]:
            if fld["n"] == "_referentInstances":
                ty = rec["_types"][fld["t"]] if isinstance(fld.get("t"), int) else ""
                ok = "set<" in ty and "multiset" not in ty
    res.add("R4.candidates_are_a_set", "R4|src/cllazyfile/lazyRefs.h|lazyRefs|_referentInstances", "src/cllazyfile/lazyRefs.h:1", ok,
            "candidates are kept in a std::set: a referrer is examined once per inverse attribute" if ok else
            "_referentInstances is no longer a std::set: a referrer could be entered twice")
    n = 0
    for f in prog.all_functions():
        for c in f.walk():
            if c["k"] == "Construct" and (c.get("fn") or "") == "lazyRefs::lazyRefs" and (c.get("np") or 0) >= 2:
                n += 1
                okc = f.name == "lazyInstMgr::loadInstance"
                if okc:
                    hit = [x for x in f.walk() if x["k"] == "If" and any(y["k"] == "Return" for y in walk(x["ch"][1])) and
                           strip(x["ch"][0]) is not None and strip(x["ch"][0])["k"] == "Ref"]
                    okc = any(f.cfg.dominates(f.first_pos(h["ch"][0]), f.cfg.locate(c)) and not any(y is c for y in walk(h["ch"][1])) for h in hit)
                res.add("R4.resolved_once", "R4|%s|%s|lazyRefs" % (f.relfile(), f.name), f.where(c), okc,
                        "inverse attributes are resolved once, when the instance is first loaded (after the cache look-up missed)" if okc else
                        "%s resolves inverse attributes outside the cache-miss path of loadInstance: referrers are added again on a later load" % f.name)
    res.floor("R4", "constructions of the resolver", n, 1)
    # ... and for every instance that enters the cache: the early exit above hands out cached instances without resolving,
    # so an instance that is cached unresolved (e.g. because it was loaded as a dependency) keeps empty inverse attributes
    f = prog.one("lazyInstMgr::loadInstance")
    if f is None:
        res.broke("anchor vanished: lazyInstMgr::loadInstance")
        return
    ins = [c for c in f.calls() if c.get("ch") and (c.get("fn") or "").split("::")[-1] == "insert" and
           strip(c["ch"][0]) is not None and strip(c["ch"][0]).get("q") == "lazyInstMgr::_instancesLoaded"]
    cons = [c for c in f.walk() if c["k"] == "Construct" and (c.get("fn") or "") == "lazyRefs::lazyRefs" and (c.get("np") or 0) >= 2]
    if not ins:
        res.broke("R4: loadInstance no longer enters the instance into _instancesLoaded")
        return
    def mem(n, q=None):
        n = strip(n)
        return n is not None and n["k"] == "Member" and (n.get("q") or "").startswith("lazyInstMgr::") and (q is None or n.get("q") == q)

    # the pending list: pushed under the same conditions as the cache insert, with the same object
    for i_, c in enumerate(ins):
        conds_i = [a["i"] for a in f.ancestors(c) if a["k"] == "If"]
        obj = strip(call_args(c)[1]) if len(call_args(c)) >= 2 else None
        key = "R4|src/cllazyfile/lazyInstMgr.cc|lazyInstMgr::loadInstance|cache-insert#%d" % i_
        pushes = [p_ for p_ in f.calls() if p_.get("ch") and (p_.get("fn") or "").split("::")[-1] == "push_back" and mem(p_["ch"][0]) and
                  [a["i"] for a in f.ancestors(p_) if a["k"] == "If"] == conds_i and obj is not None and call_args(p_) and
                  strip(call_args(p_)[0]) is not None and strip(call_args(p_)[0]).get("d") == obj.get("d")]
        direct = [r for r in cons if [a["i"] for a in f.ancestors(r) if a["k"] == "If"] == conds_i]
        if not pushes:
            why = "the resolver runs only under a further condition" if cons and not direct else "no resolver / pending entry for the cached instance"
            if direct:
                why = ("the resolver runs directly after the cache insert, also while a referrer is half-read (its attributes being "
                       "read are what led here): that referrer does not show its reference yet and is missed for good")
            res.add("R4.resolved_when_cached", key, f.where(c), False,
                    "an instance can enter the cache without its inverse attributes being resolved correctly (%s); every later loadInstance() "
                    "returns it from the cache as it is" % why)
            continue
        pend = strip(pushes[0]["ch"][0])["q"]
        # the drain loop
        loops = [w for w in f.walk() if w["k"] == "While" and any(y["k"] == "Call" and (y.get("fn") or "").split("::")[-1] == "empty" and y.get("ch")
                 and mem(y["ch"][0], pend) for y in walk(w["ch"][0])) and strip(w["ch"][0]) is not None and strip(w["ch"][0])["k"] == "Unary"]
        ok = False
        why = "the pending list %s is never drained" % pend.split("::")[-1]
        for w in loops:
            takes = [v for v in walk(w["ch"][1]) if v["k"] == "Var" and v.get("ch") and v["ch"][0] is not None and
                     any(y["k"] == "Call" and (y.get("fn") or "").split("::")[-1] in ("back", "front") and y.get("ch") and mem(y["ch"][0], pend) for y in walk(v["ch"][0]))]
            pops = [y for y in walk(w["ch"][1]) if y["k"] == "Call" and (y.get("fn") or "").split("::")[-1] in ("pop_back", "pop_front", "erase") and y.get("ch") and mem(y["ch"][0], pend)]
            rs = [r for r in cons if any(y is r for y in walk(w["ch"][1]))]
            if not takes or not pops or not rs:
                why = "the drain loop does not take an entry, remove it and resolve it"
                continue
            a_r = call_args(rs[0])
            if len(a_r) < 2 or strip(a_r[1]) is None or strip(a_r[1]).get("d") != takes[0]["d"]:
                why = "the resolver in the drain loop is not constructed for the entry taken from the list"
                continue
            guards = [a for a in f.ancestors(w) if a["k"] == "If"]
            depth_guard = [g for g in guards if strip(g["ch"][0]) is not None and strip(g["ch"][0])["k"] == "Binary" and strip(g["ch"][0]).get("op") == "==" and
                           mem(strip(g["ch"][0])["ch"][0]) and (strip(strip(g["ch"][0])["ch"][1]) or {}).get("val") == 0]
            other = [g for g in guards if not any(g is d for d in depth_guard) and g["i"] not in conds_i]
            if other:
                why = "the drain loop runs only under the further condition `%s`" % expr_str(strip(other[0]["ch"][0]))
                continue
            if not depth_guard:
                why = "the drain loop is not restricted to the moment when no instance is half-read"
                continue
            dq = strip(strip(depth_guard[0]["ch"][0])["ch"][0])["q"]
            if not f.cfg.postdominates(f.first_pos(depth_guard[0]["ch"][0]), f.cfg.locate(pushes[0])):
                why = "a path from the cache insert to the return does not reach the drain loop"
                continue
            # the depth counter brackets every attribute read and nothing else writes it
            reads = [y for y in f.calls() if (y.get("fn") or "").endswith("getRealInstance")]
            incs = [y for y in f.walk() if y["k"] == "Unary" and y.get("op") in ("post++", "pre++") and mem(y["ch"][0], dq)]
            decs = [y for y in f.walk() if y["k"] == "Unary" and y.get("op") in ("post--", "pre--") and mem(y["ch"][0], dq)]
            br = bool(reads) and all(any(f.cfg.dominates(f.cfg.locate(i), f.cfg.locate(r)) and not f.cfg.reaches(f.cfg.locate(i), f.cfg.locate(r), lambda e: any(z is d for d in decs for z in walk(e))) is False for i in incs) and
                                     any(f.cfg.postdominates(f.cfg.locate(d), f.cfg.locate(r)) for d in decs) for r in reads) and len(incs) == len(decs) == len(reads)
            others = []
            for g in prog.all_functions():
                for y in g.walk_all():
                    if y["k"] in ("Assign", "CompoundAssign") and mem(y["ch"][0], dq) and not (g.name == "lazyInstMgr::lazyInstMgr" and (strip(y["ch"][1]) or {}).get("val") == 0):
                        others.append(g.name)
                    if y["k"] == "Unary" and ("++" in (y.get("op") or "") or "--" in (y.get("op") or "")) and mem(y["ch"][0], dq) and g.key != f.key:
                        others.append(g.name)
            if not br or others:
                why = "the counter %s does not bracket exactly the attribute reads (++ before / -- after each getRealInstance; other writers: %s)" % (dq.split("::")[-1], sorted(set(others)))
                continue
            # no resolver outside the drain loop
            if any(not any(y is r for y in walk(w["ch"][1])) for r in cons):
                why = "a resolver is also constructed outside the drain loop"
                continue
            ok = True
        res.add("R4.resolved_when_cached", key, f.where(c), ok,
                "every cached instance is queued in %s under the same conditions, and the queue is drained (entry taken, removed, resolved) on every "
                "path before loadInstance returns to a caller that is not itself reading attributes (%s brackets the attribute reads)" % (pend.split("::")[-1], "the depth counter") if ok else
                "an instance can enter the cache without its inverse attributes being resolved correctly (%s)" % why)


def r5_r6_collect(prog, res):
    f = lazyfn(prog, "getInverseAttrs")
    if f is None:
        res.broke("anchor vanished: lazyRefs::getInverseAttrs")
        return
    nexts = [c for c in f.calls() if (c.get("fn") or "").endswith("NextInverse_attribute")]
    n_in_super = 0
    n_own = 0
    for c in nexts:
        loops = [a for a in f.ancestors(c) if a["k"] in ("While", "For", "Do")]
        inner = loops[0] if loops else None
        is_cond = inner is not None and any(y is c for y in walk(inner["ch"][0] if inner["k"] == "While" else (inner["ch"][1] if inner["k"] == "For" else inner["ch"][1])))
        inserts = inner is not None and any(y["k"] == "Call" and (y.get("fn") or "").split("::")[-1] == "insert" for y in walk(inner))
        ok = is_cond and inserts
        outer_super = any("supersIter" in expr_str(a["ch"][1] if a["k"] == "For" and a["ch"][1] is not None else a["ch"][0]) or
                          "supertypesIterator" in " ".join(f.ty(y) for y in walk(a) if y["k"] == "Ref") for a in loops[1:]) if len(loops) > 1 else False
        if ok and outer_super:
            n_in_super += 1
        elif ok:
            n_own += 1
        res.add("R5.list_walked_to_end", "R5|src/cllazyfile/lazyRefs.h|getInverseAttrs|%s" % ("supertype" if len(loops) > 1 else "own"), f.where(c), ok,
                "the inverse attributes of this entity descriptor are taken one after the other until the iterator is exhausted" if ok else
                "NextInverse_attribute() is not the condition of a loop that stores the attribute: only the first inverse attribute of the "
                "entity is resolved, later ones stay empty")
    ok = n_in_super >= 1 and n_own >= 1
    res.add("R5.own_and_inherited", "R5|src/cllazyfile/lazyRefs.h|getInverseAttrs|both", f.where(), ok,
            "inverse attributes are collected from every supertype and from the entity itself" if ok else
            "getInverseAttrs collects from supertypes: %d loop(s), from the entity itself: %d loop(s)" % (n_in_super, n_own))
    # ---- init: every collected inverse attribute is resolved
    g = lazyfn(prog, "init")
    if g is None:
        res.broke("anchor vanished: lazyRefs::init")
        return
    calls = [c for c in g.calls() if (c.get("fn") or "").endswith("checkAnInvAttr")]
    ok = False
    if len(calls) == 1:
        loops = [a for a in g.ancestors(calls[0]) if a["k"] in ("For", "While")]
        conds = [a for a in g.ancestors(calls[0]) if a["k"] == "If" and loops and any(y is a for y in walk(loops[0]))]
        brk = loops and any(y["k"] in ("Break", "Return") for y in walk(loops[0]["ch"][-1]))
        ok = bool(loops) and not conds and not brk and "_iaList.end" in re.sub(r"[\s()]", "", " ".join(expr_str(c) for c in loops[0]["ch"][:3] if c is not None))
    res.add("R6.all_resolved", "R6|src/cllazyfile/lazyRefs.h|init|loop", g.where(calls[0]) if calls else g.where(), ok,
            "every collected inverse attribute is resolved" if ok else "init() no longer resolves every element of _iaList unconditionally")
    # ---- candidates include the subtypes of the inverted entity
    h = lazyfn(prog, "checkAnInvAttr")
    if h is not None:
        ins = [c for c in h.calls() if (c.get("fn") or "").split("::")[-1] == "insert"]
        loops = [x for x in h.walk() if x["k"] == "For" and any("subtypesIterator" in h.ty(y) for y in walk(x) if y["k"] == "Ref")]
        ok = len(ins) >= 2 and bool(loops) and any(any(y is c for y in walk(loops[0])) for c in ins) and any(not any(y is c for lp in loops for y in walk(lp)) for c in ins)
        res.add("R6.subtypes_included", "R6|src/cllazyfile/lazyRefs.h|checkAnInvAttr|subtypes", h.where(), ok,
                "referrers of the inverted entity and of each of its subtypes are candidates" if ok else
                "the candidate entity types no longer consist of the inverted entity plus everything its subtype iterator yields")


def r7_identity(prog, res):
    f = lazyfn(prog, "refersToCurrentInst")
    if f is None:
        res.broke("anchor vanished: lazyRefs::refersToCurrentInst")
        return
    cmps = [x for x in f.walk() if x["k"] == "Binary" and x.get("op") == "==" and any(member_is(c, "lazyRefs::_inst") for c in x["ch"])]
    sets = [x for x in f.walk() if x["k"] == "Assign" and strip(x["ch"][0]) is not None and strip(x["ch"][0])["k"] == "Ref" and strip(x["ch"][0])["n"] == "found"
            and (strip(x["ch"][1]) or {}).get("val") == 1]
    ok = len(cmps) >= 2 and len(sets) >= 2 and all(any(any(y is c for y in walk(a["ch"][0])) for a in f.ancestors(s) if a["k"] == "If" for c in cmps) for s in sets)
    res.add("R7.identity_with_loaded_instance", "R7|src/cllazyfile/lazyRefs.h|refersToCurrentInst|identity", f.where(), ok,
            "a referrer counts exactly when the inverted attribute (or one of its elements) is the loaded instance itself" if ok else
            "refersToCurrentInst no longer decides by identity with _inst in both the aggregate and the single-valued branch")
    rets = [x for x in f.walk() if x["k"] == "Return"]
    ok = all(strip(r["ch"][0]) is not None and (strip(r["ch"][0]).get("n") == "found" or strip(r["ch"][0]).get("val") == 0) for r in rets if r.get("ch"))
    res.add("R7.identity_with_loaded_instance", "R7|src/cllazyfile/lazyRefs.h|refersToCurrentInst|result", f.where(), ok,
            "the verdict returned is the identity test's result" if ok else "refersToCurrentInst returns something else than its identity test")


def r8_accumulator_shared(prog, res):
    """`if( !p.f ) { p.f = new ..; }` on a parameter states the belief that an earlier call may already have created the object.
    That only holds when the parameter is the caller's object (reference / pointer): with a by-value parameter every call
    starts from the caller's unchanged copy, creates a new object and, here, replaces the aggregate that held the earlier
    referrers."""
    n = 0
    for f in prog.all_functions():
        if f.component not in ("cllazyfile",) or not f.params:
            continue
        pd = {p_["d"]: p_ for p_ in f.params}
        for x in f.walk():
            if x["k"] != "If":
                continue
            c = strip(x["ch"][0])
            if c is None or c["k"] != "Unary" or c.get("op") != "!":
                continue
            t = strip(c["ch"][0])
            base = t
            while base is not None and base["k"] == "Member" and base.get("ch") and not base.get("arrow"):
                base = strip(base["ch"][0])
            if t is None or t["k"] != "Member" or base is None or base["k"] != "Ref" or base.get("d") not in pd:
                continue
            news = [y for y in walk(x["ch"][1]) if y["k"] == "Assign" and strip(y["ch"][1]) is not None and strip(y["ch"][1])["k"] == "New"
                    and expr_str(strip(y["ch"][0])) == expr_str(t)]
            if not news:
                continue
            n += 1
            ty = f.tyname(pd[base["d"]]["t"]) if isinstance(pd[base["d"]].get("t"), int) else ""
            ok = ty.rstrip().endswith("&") or ty.rstrip().endswith("*")
            res.add("R8.accumulator_is_shared", "R8|%s|%s|%s" % (f.relfile(), f.name, base["n"]), f.where(x), ok,
                    "`%s` is the caller's object (%s): what one call creates is seen by the next" % (base["n"], ty) if ok else
                    "`%s` is passed by value (%s) but its member is created on demand (`if( !%s ) .. = new`): every call starts from the "
                    "caller's unchanged copy, so each referrer gets a new aggregate that replaces the previous one" % (base["n"], ty, expr_str(t)))
    res.floor("R8.accumulator_is_shared", "create-on-demand members of a parameter in the lazy loader", n, 1)


def r9_iterator_protocol(prog, res):
    """recursiveEntDescripIterator::next() returns the element it *leaves* (the old front) and then advances; current() / * / ->
    give the front.  A client that looks at current() and also uses the value returned by next() on the same iterator sees the
    first element twice and never the last one.  Per iterator object (member or local): the value of next() / ++ is either
    always discarded or the only way elements are taken."""
    it_fn = prog.fn("recursiveEntDescripIterator::next")
    if not it_fn:
        res.broke("anchor vanished: recursiveEntDescripIterator::next")
        return
    # confirm the protocol from the body: the returned value is read from the front before the pop
    nx = it_fn[0]
    pops = [c for c in nx.calls() if (c.get("fn") or "").split("::")[-1] == "pop_front"]
    fronts = [c for c in nx.calls() if (c.get("fn") or "").split("::")[-1] == "front"]
    proto = bool(pops) and bool(fronts) and nx.cfg is not None and nx.cfg.dominates(nx.cfg.locate(fronts[0]), nx.cfg.locate(pops[0]))
    res.add("R9.next_returns_the_element_left", "R9|include/clstepcore/SubSuperIterators.h|recursiveEntDescripIterator::next|protocol", nx.where(), proto,
            "next() returns the front it removes (read before pop_front)" if proto else
            "recursiveEntDescripIterator::next() no longer returns the element it leaves: the clients' protocol rule below has to be re-derived")
    uses = {}
    for f in prog.all_functions():
        if f.component not in ("clstepcore", "cllazyfile", "cldai", "cleditor"):
            continue
        for c in f.calls():
            m = (c.get("fn") or "")
            if not m.startswith("recursiveEntDescripIterator::") or not c.get("ch"):
                continue
            meth = m.split("::")[-1]
            recv = strip(c["ch"][0])
            while recv is not None and recv["k"] == "Cast":
                recv = strip(recv["ch"][0])
            if recv is None:
                continue
            obj = recv.get("q") or ("%s|%s" % (f.key, recv.get("d")))
            par = f.parent.get(c["i"])
            # is the call's value used?  (statement-level call = discarded)
            used = par is not None and par["k"] not in ("Compound", "For") and not (par["k"] in ("While", "If", "Do") )
            if par is not None and par["k"] == "For":
                used = False       # increment slot of a for loop
            kind = None
            if meth in ("next", "operator++"):
                kind = "next-value" if used else "advance"
            elif meth in ("current", "operator*", "operator->"):
                kind = "current"
            if kind:
                uses.setdefault(obj, []).append((kind, f, c))
    n = 0
    for obj, lst in sorted(uses.items()):
        kinds = {k for k, _, _ in lst}
        if "next-value" not in kinds and "current" not in kinds:
            continue
        n += 1
        bad = "next-value" in kinds and "current" in kinds
        f0, c0 = [(f, c) for k, f, c in lst if k == ("next-value" if bad else list(kinds)[0])][0]
        res.add("R9.iterator_protocol_consistent", "R9|%s" % obj.split("(")[0], f0.where(c0), not bad,
                "elements are taken %s" % ("through current() only (next() just advances)" if "current" in kinds else "through the value of next() only") if not bad else
                "the same iterator is read through current() and through the value returned by next() (which is the element just left): "
                "the first supertype is visited twice and the last one never, so its inverse attributes are missing from the instance")
    res.floor("R9.iterator_protocol_consistent", "iterator objects whose elements are taken", n, 3)


def r10_collection_walk_exhaustive(prog, res):
    """A loop that walks a sub/supertype iterator (or any iterator) to collect what it yields into a set - its body inserts into a
    container and computes no `found` result - must run until the iterator is empty: no break / return / goto leaves the loop from its
    body.  In a subtype graph with a diamond the breadth-first iterator legitimately yields a descriptor once per path; stopping at the
    first repeat drops every subtype still queued, and the referrers of those types never enter the inverse attribute."""
    n = 0
    for f in prog.all_functions():
        if f.component != "cllazyfile" or "lazyRefs" not in f.name:
            continue
        for lp in f.walk():
            if lp["k"] not in ("For", "While"):
                continue
            cond = lp["ch"][1] if lp["k"] == "For" else lp["ch"][0]
            body = lp["ch"][-1]
            if cond is None or body is None:
                continue
            inserts = [y for y in walk(body) if y["k"] == "Call" and (y.get("fn") or "").split("::")[-1] in ("insert", "push_back", "AddNode")]
            # what is inserted comes from this loop's own iteration (a variable of the loop condition / increment occurs in the inserted
            # value); an insert of the *outer* element inside an inner search loop is the search's `found` action, and may break
            itervars = {y.get("d") for part in ([cond] + ([lp["ch"][2]] if lp["k"] == "For" and lp["ch"][2] is not None else []))
                        for y in walk(part) if y["k"] == "Ref" and y.get("dk") in ("local", "param")}
            inserts = [c for c in inserts if any(y["k"] == "Ref" and y.get("d") in itervars for a in call_args(c) for y in walk(a))]
            if not inserts:
                continue
            # a search loop assigns a result that is read after the loop, or returns a value: not a collection loop
            exits = []
            for y in walk(body):
                if y["k"] in ("Break", "Return", "Goto"):
                    # a break that belongs to a nested loop / switch stays inside this loop
                    if y["k"] == "Break":
                        owner = next((a for a in f.ancestors(y) if a["k"] in ("For", "While", "Do", "Switch")), None)
                        if owner is not lp:
                            continue
                    exits.append(y)
            n += 1
            what = expr_str(cond)[:50]
            res.add("R10.collection_walk_exhaustive", "R10|%s|%s|%s" % (f.relfile(), f.name.split("::")[-1], what), f.where(exits[0]) if exits else f.where(lp),
                    not exits,
                    "the collecting loop `%s` runs until its iterator is exhausted" % what if not exits else
                    "the loop that collects into a container (`%s`) can be left through `%s` at line %s before the iterator is exhausted: "
                    "whatever the iterator would still have yielded is missing from the collection (entity types whose referrers are then "
                    "never considered for the inverse attribute)" % (what, exits[0]["k"].lower(), exits[0]["l"]))
    res.floor("R10.collection_walk_exhaustive", "collecting loops in lazyRefs", n, 4)


def r11_match_depends_on_element(prog, res):
    """A search loop of lazyRefs that looks for *the* attribute (or instance) matching several criteria tests every criterion on the
    element it stands on: each conjunct of the match condition mentions the loop variable or something computed from it in the loop.
    A conjunct that does not - `strcasecmp( entity, inst->EntityName() )` instead of the owner of `inst->attributes[i]` - is the same
    for every element: it turns the per-attribute question `is this the inverted attribute, declared by that entity?` into a property of
    the referrer, and a referrer that inherits the attribute from a supertype is dropped from the inverse attribute."""
    def conj(c, out):
        c = strip(c)
        while c is not None and c["k"] == "Paren" and c.get("ch"):
            c = strip(c["ch"][0])
        if c is not None and c["k"] == "Binary" and c.get("op") == "&&":
            conj(c["ch"][0], out)
            conj(c["ch"][1], out)
        elif c is not None:
            out.append(c)
    n = 0
    for f in prog.all_functions():
        if f.component != "cllazyfile" or "lazyRefs" not in f.name:
            continue
        for lp in f.walk():
            if lp["k"] != "For":
                continue
            init, cond, inc, body = lp["ch"]
            ivars = {y["d"] for part in (init, inc) if part is not None for y in walk(part) if y["k"] in ("Var", "Ref") and y.get("d") and
                     (y["k"] == "Var" or y.get("dk") == "local")}
            if not ivars or body is None:
                continue
            # variables computed from the loop variable inside the body count as `the element`
            changed = True
            while changed:
                changed = False
                for a in walk(body):
                    d = None
                    if a["k"] == "Var" and a.get("ch") and a["ch"][0] is not None:
                        d, rhs = a["d"], a["ch"][0]
                    elif a["k"] == "Assign" and strip(a["ch"][0]) is not None and strip(a["ch"][0])["k"] == "Ref":
                        d, rhs = strip(a["ch"][0])["d"], a["ch"][1]
                    if d and d not in ivars and any(y["k"] == "Ref" and y.get("d") in ivars for y in walk(rhs)):
                        ivars.add(d)
                        changed = True
            for x in walk(body):
                if x["k"] != "If":
                    continue
                cs = []
                conj(x["ch"][0], cs)
                if len(cs) < 2:
                    continue
                dep = [c for c in cs if any(y["k"] == "Ref" and y.get("d") in ivars for y in walk(c))]
                indep = [c for c in cs if c not in dep and any(y["k"] == "Call" for y in walk(c))]
                if not dep:
                    continue
                n += 1
                res.add("R11.match_depends_on_element", "R11|%s|%s|%d" % (f.relfile(), f.name.split("::")[-1], x["l"] - f.line), f.where(x), not indep,
                        "each of the %d criteria of the match is tested on the element the loop stands on" % len(cs) if not indep else
                        "the criterion `%s` does not depend on the element the loop stands on: it is the same for every attribute of the "
                        "referrer, so an attribute the referrer inherits is never matched and the referrer is missing from the inverse attribute"
                        % expr_str(indep[0])[:90])
    res.floor("R11.match_depends_on_element", "multi-criteria matches in lazyRefs search loops", n, 1)


def r12_inverse_kind_and_lookup(prog, res):
    """(a) Whether an inverse attribute holds one referrer or an aggregate of them is a property of the inverse attribute itself (its
    domain: `SET OF assembly FOR main_part` is an aggregate although `main_part` is single-valued).  The branch of loadInstIFFreferent
    that fills `ias.a` resp. `ias.i` must be decided by IsAggrType() called on the Inverse_attribute, not on the attribute it inverts -
    otherwise the generated accessor reads the other member of the union (crash), or several referrers are refused.
    (b) The inverted attribute may be one the inverted entity inherits (`SET OF sub_assembly FOR parts`, `parts` declared by
    `assembly`): the referrer's attribute is found by the *descriptor* the dictionary resolved for the inverse attribute
    (`getADesc() == ia->inverted_attr_()`), not only by the pair (attribute name, name of the inverted entity), which never matches an
    inherited attribute."""
    f = lazyfn(prog, "loadInstIFFreferent")
    g = lazyfn(prog, "refersToCurrentInst")
    if f is None or g is None:
        res.broke("anchor vanished: lazyRefs::loadInstIFFreferent / refersToCurrentInst")
        return
    iap = [p_ for p_ in f.params if "Inverse_attribute" in (f.tyname(p_["t"]) if isinstance(p_.get("t"), int) else "")]
    ok = False
    where = f.where()
    why = "no branch that fills ias.a / ias.i found"
    for x in f.walk():
        if x["k"] != "If" or len(x["ch"]) < 3 or x["ch"][2] is None:
            continue
        wa = any(y["k"] == "Assign" and (access_path(y["ch"][0]) or "").endswith(".a") for y in walk(x["ch"][1]))
        wi = any(y["k"] == "Assign" and (access_path(y["ch"][0]) or "").endswith(".i") for y in walk(x["ch"][2]))
        if not (wa and wi):
            continue
        c = strip(x["ch"][0])
        while c is not None and c["k"] == "Cast" and c.get("ch"):
            c = strip(c["ch"][0])
        where = f.where(x)
        if c is not None and c["k"] == "Call" and (c.get("fn") or "").endswith("IsAggrType") and c.get("ch"):
            o = strip(c["ch"][0])
            while o is not None and o["k"] == "Cast" and o.get("ch"):
                o = strip(o["ch"][0])
            ok = o is not None and o["k"] == "Ref" and iap and o.get("d") == iap[0]["d"]
            why = "decided by `%s`" % expr_str(c)[:60]
        else:
            why = "decided by `%s`" % expr_str(x["ch"][0])[:60]
    res.add("R12.inverse_kind_is_its_own", "R12|src/cllazyfile/lazyRefs.h|loadInstIFFreferent|kind", where, ok,
            "aggregate or single storage of the inverse attribute is decided by IsAggrType() of the inverse attribute itself" if ok else
            "aggregate or single storage is %s, not by IsAggrType() of the inverse attribute: `SET OF e FOR single_valued_attribute` is stored "
            "as one instance and read as an aggregate" % why)
    byd = False
    for y in g.walk():
        if y["k"] == "Binary" and y.get("op") == "==" or (y["k"] == "Call" and y.get("opcall") == "=="):
            txt = [expr_str(c) for c in (y.get("ch") or [])]
            if any("getADesc" in t for t in txt):
                other = [c for c in y["ch"] if "getADesc" not in expr_str(c)]
                for o in other:
                    o = strip(o)
                    if o is not None and o["k"] == "Ref":
                        defs = [v for v in g.walk() if v["k"] == "Var" and v.get("d") == o.get("d") and v.get("ch") and v["ch"][0] is not None]
                        if any("inverted_attr_" in expr_str(v["ch"][0]) for v in defs):
                            byd = True
                    elif o is not None and "inverted_attr_" in expr_str(o):
                        byd = True
    res.add("R12.inverted_attribute_by_descriptor", "R12|src/cllazyfile/lazyRefs.h|refersToCurrentInst|lookup", g.where(), byd,
            "the referrer's attribute is found by the descriptor resolved for the inverse attribute (inherited inverted attributes included)" if byd else
            "refersToCurrentInst finds the referrer's attribute only by (attribute name, name of the inverted entity): an inverted attribute that "
            "the inverted entity inherits from a supertype is owned by that supertype and is never matched - the inverse attribute stays empty")


def r13_no_static_scratch_kept(prog, res):
    """Several look-ups return a pointer into function-static storage (`static std::string str; ... return str.c_str();` in
    sectionReader::getDelimitedKeyword, reached through lazyInstMgr::typeFromFile): the text is valid until the next call.  Such a
    pointer may be compared or copied (`new std::string( p )`), but not *kept*: stored in a container or a member it aliases whatever
    the buffer holds later - the candidate filter of the inverse attributes then compares every referrer with the keyword that was
    read last.  `returns static scratch` is a least fixed point over the call graph; the rule looks at every function of cllazyfile."""
    from engines import call_args
    scratch = {}
    fns = [f for f in prog.all_functions() if f.component != "test"]
    changed = True
    while changed:
        changed = False
        for f in fns:
            if f.key in scratch:
                continue
            rt = f.tyname(f.raw.get("ret")) if isinstance(f.raw.get("ret"), int) else ""
            if "char" not in rt or "*" not in rt:
                continue
            for r in f.walk():
                if r["k"] != "Return" or not r.get("ch") or r["ch"][0] is None:
                    continue
                e = strip(r["ch"][0])
                while e is not None and e["k"] in ("Cast", "Paren") and e.get("ch"):
                    e = strip(e["ch"][0])
                why = None
                if e is not None and e["k"] == "Ref" and e.get("dk") == "staticlocal":
                    why = "returns its static buffer `%s`" % e["n"]
                elif e is not None and e["k"] == "Call" and (e.get("fn") or "").rsplit("::", 1)[-1] in ("c_str", "data") and e.get("ch"):
                    o = strip(e["ch"][0])
                    if o is not None and o["k"] == "Ref" and o.get("dk") == "staticlocal":
                        why = "returns `%s.c_str()` of its static string" % o["n"]
                elif e is not None and e["k"] == "Call" and e.get("fk") in scratch:
                    why = "returns the result of %s()" % (e.get("fn") or "?")
                if why:
                    scratch[f.key] = "%s %s" % (f.name, why)
                    changed = True
                    break
    res.info["r13_functions_returning_static_scratch"] = sorted(v.split(" ")[0] for v in scratch.values())
    n = 0
    for f in prog.all_functions():
        if f.component != "cllazyfile":
            continue
        holders = {}
        for a in f.walk():
            if a["k"] == "Var" and a.get("ch") and a["ch"][0] is not None:
                c = strip(a["ch"][0])
                while c is not None and c["k"] == "Cast" and c.get("ch"):
                    c = strip(c["ch"][0])
                if c is not None and c["k"] == "Call" and c.get("fk") in scratch:
                    holders[a["d"]] = (a, c)
            if a["k"] == "Assign" and strip(a["ch"][0]) is not None and strip(a["ch"][0])["k"] == "Ref":
                c = strip(a["ch"][1])
                while c is not None and c["k"] == "Cast" and c.get("ch"):
                    c = strip(c["ch"][0])
                if c is not None and c["k"] == "Call" and c.get("fk") in scratch:
                    holders[strip(a["ch"][0])["d"]] = (a, c)
        if not holders:
            continue
        for d, (decl, call) in sorted(holders.items()):
            n += 1
            bad = None
            for x in f.walk():
                if x["k"] == "Call" and (x.get("fn") or "").rsplit("::", 1)[-1] in ("insert", "push_back", "emplace_back", "push_front", "emplace"):
                    for arg in call_args(x):
                        a0 = strip(arg)
                        while a0 is not None and a0["k"] == "Cast" and a0.get("ch"):
                            a0 = strip(a0["ch"][0])
                        if a0 is not None and a0["k"] == "Ref" and a0.get("d") == d:
                            bad = (x, "stored in a container by %s()" % (x.get("fn") or "?").rsplit("::", 1)[-1])
                if x["k"] == "Assign" and strip(x["ch"][0]) is not None and strip(x["ch"][0])["k"] == "Member":
                    r = strip(x["ch"][1])
                    while r is not None and r["k"] == "Cast" and r.get("ch"):
                        r = strip(r["ch"][0])
                    if r is not None and r["k"] == "Ref" and r.get("d") == d:
                        bad = (x, "assigned to the member `%s`" % expr_str(x["ch"][0])[:40])
            res.add("R13.no_static_scratch_kept", "R13|%s|%s|%s" % (f.relfile(), f.name.split("::")[-1], decl.get("n") or d), f.where(bad[0]) if bad else f.where(decl), bad is None,
                    "`%s` (pointer into static storage: %s) is only compared or copied" % (decl.get("n") or d, scratch[call["fk"]]) if bad is None else
                    "`%s` points into static storage (%s) and is %s without a copy: after the next look-up every stored entry holds the text that "
                    "was read last, so referrers are judged by the wrong entity type" % (decl.get("n") or d, scratch[call["fk"]], bad[1]))
    res.floor("R13.no_static_scratch_kept", "locals of cllazyfile that receive a pointer into static storage", n, 1)


def run(prog, res, tier):
    r9_iterator_protocol(prog, res)
    r8_accumulator_shared(prog, res)
    r1_fresh(prog, res)
    r2_guarded(prog, res)
    r3_sentinel(prog, res)
    r4_once(prog, res)
    r5_r6_collect(prog, res)
    r7_identity(prog, res)
    r10_collection_walk_exhaustive(prog, res)
    r11_match_depends_on_element(prog, res)
    r12_inverse_kind_and_lookup(prog, res)
    r13_no_static_scratch_kept(prog, res)
