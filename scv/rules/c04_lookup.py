"""C04 R6 — results of resolver lookups are tested before use (rule shared with C06 R6).

A lookup that fails is the normal outcome for an invalid schema; a front-end function that dereferences the result
without a test crashes (the tool dies on a signal or, after the signal handler's longjmp, silently drops the remaining
diagnostics) instead of delivering the verdict."""
from nullness import Nullness
from rules import memsafe, c06


def run(prog, res, tier):
    reachable, keys = memsafe.reach(prog, c06.CFG)
    nn = Nullness(prog)
    c06.r6_lookup_results(prog, res, reachable, nn, rule="R6.lookup_result_tested")
    c06.r6_nullable_elements(prog, res, reachable, nn)
    c06.r6_null_initialised(prog, res, reachable, nn)
