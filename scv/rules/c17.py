"""C17 — the configure-time scanner predicts exactly the files the C++ generator writes.

 R1 names      the file-name *templates* the generator opens (string-template interpretation of exp2cxx from
               print_file) equal the templates the scanner writes into its CMakeLists.txt (string-template
               interpretation of printSchemaFilenames/writeLists, then a CMake parse of the resulting template)
 R2 lists      every list the scanner emits reaches SCHEMA_TARGETS / the install loop; headers go to header lists,
               implementation files to source lists
 R3 types      "this type gets its own file": the scanner's and the generator's decision tables over
               (type kind x renames-another-type) agree on every kind a TYPE declaration can have
 R4 iteration  both programs enumerate the same dictionary of the schema with the same object-class filter, the
               entity arm is unconditional on both sides, and the scanner handles every schema of the file
 R5 directory  the directory the scanner creates/prints is the one CMake adds and runs the generator in; the
               library is named after it; the directory name depends on the schema (needed for several schemas per file)
 R6 separators names in the emitted lists are separated by explicit white space whatever their length
"""
import os
import re
from ir import walk, strip, expr_str
from strtemp import Interp, T, A, is_T, render, has_unknown, UNK
from typeshape import Explorer
from engines import sinterp, flatten_switch
import cmakeparse

PID = "C17"
UNITS = dict(components={"exp2cxx", "scanner", "express"})
LEVEL_TEXT = "other"
TECHNIQUE = ("static analysis: string-template abstract interpretation of the generator and of the scanner "
             "(file-name templates vs. the template of the emitted CMakeLists.txt, parsed as CMake), three-valued "
             "decision tables over type shapes, call-graph/iteration agreement, CMake command checks")
EXPLANATION = (
    "Decided statically from the source of both programs. (R1) A string-template interpreter (sprintf/snprintf into "
    "buffers, tail pointer bumps, std::string append/resize/length, << chains, helpers returning pointers to shared "
    "buffers, loops summarised as repetitions, callees inlined) computes every file name exp2cxx can open, starting at "
    "print_file, as a template with holes (e.g. Sdai{UPPER(schema name)}.init.cc, type/{TYPEget_ctype}.h), and the whole "
    "text of the CMakeLists.txt the scanner writes; that text is parsed as CMake and the lists that reach "
    "SCHEMA_TARGETS(... sourceFiles) and the install loop are compared, template by template, with the generator's set "
    "in both directions. (R2) list plumbing inside the emitted text and in SC_CXX_schema_macros.cmake. (R3) three-valued "
    "exploration of notGenerated/printSchemaFilenames and of SCOPEPrint->TYPEprint_descriptions/TYPEselect_print->TYPEPrint "
    "for each of the 13 kinds x {plain, renaming} cells a TYPE declaration can produce (kinds derived from the grammar "
    "expparse.y); the two tables must agree. (R4) same dictionary, same filter, unconditional entity arm, all schemas. "
    "(R1b) the un-suffixed per-schema names are the ones used for a single-schema file: under the single-schema hypothesis no "
    "deferral statement of multpass.c is reachable (three-valued evaluation with path-refined mark sets), so SCHEMAprint is called with suffix 0. "
    "(R5) CMake plumbing of directory/library name; directory name must depend on the schema on every path. (R6) the "
    "repetition a list is built from is white-space separated for names of any length. "
    "Not decided: collisions of names after case folding, the contents of the generated files, "
    "CMake's own behaviour, and that the per-object state marks (search_id) let every object be printed exactly once."
    " (R7) the generator puts a schema on a membership-tested local done-list only on paths that, since the schema variable was assigned, called a function receiving both the schema and the FILES parameter: recorded means printed (must-pass-through on the CFG).")

GEN_ENTRY = "print_file"
SCAN_ENTRY = "printSchemaFilenames"
PRODUCERS = {"getTypeFilenames", "getEntityFilenames", "writeLists", "StrToUpper"}

# generator-created files that are deliberately absent from the scanner's lists
EXEMPT_CREATED = {
    "Sdai{UPPER(<struct Scope_ *>->symbol.name)}_unity_entities.h":
        "header of the unity translation unit: #included by ..._unity_entities.cc, never compiled or installed on its own",
    "Sdai{UPPER(<struct Scope_ *>->symbol.name)}_unity_types.h":
        "header of the unity translation unit: #included by ..._unity_types.cc, never compiled or installed on its own",
}


def hole_render(v):
    """Template -> text with «holes» (for the CMake parser); repetitions are expanded to their alternatives."""
    s = ""
    for p in v[1]:
        if isinstance(p, str):
            s += p
        elif p[0] == "a":
            s += "«" + p[1] + "»"
        elif p[0] == "rep":
            s += " ".join(hole_render(("T", a)) for a in sorted(p[1], key=repr))
        elif p[0] == "m":
            pass
        else:
            s += "«?»"
    return s


def unhole(tok):
    return tok.replace("«", "{").replace("»", "}")


# --------------------------------------------------------------------------- generator side
def generator_files(prog, res):
    f = prog.one(GEN_ENTRY)
    if f is None:
        res.broke("anchor vanished: %s (entry point of exp2cxx's back end)" % GEN_ENTRY)
        return None
    # the entry is installed as the EXPRESS back end of the exp2cxx program
    it = Interp(prog, producers=PRODUCERS)
    it.run(f)
    files = {}
    for (fn, n, v, sites, mode) in it.opens:
        site = sites[-1] if sites else (fn, n)
        if has_unknown(v):
            res.broke("generator: file name at %s cannot be resolved to a template (opened through %s)" %
                      (site[0].where(site[1]), fn.where(n)))
            continue
        name = render(v)
        e = files.setdefault(name, {"modes": set(), "sites": set(), "nodes": []})
        e["modes"].add(mode or "w")
        e["sites"].add(site[0].where(site[1]))
        # the innermost user function that names the file (the caller of FILEcreate)
        e["nodes"].append(site)
    return files


# --------------------------------------------------------------------------- scanner side
def scanner_template(prog, res):
    f = prog.one(SCAN_ENTRY)
    if f is None:
        res.broke("anchor vanished: %s" % SCAN_ENTRY)
        return None, None
    it = Interp(prog, producers=PRODUCERS)
    ends = it.run(f)
    wl = [(k, v) for k, v in it.finals.items() if k[0] == "writeLists"]
    if not wl:
        res.broke("scanner: writeLists is not reached from %s" % SCAN_ENTRY)
        return None, None
    texts = {}
    opened = set()
    for (fn, n, v, sites, mode) in it.opens:
        if fn.name == "writeLists":
            opened.add(render(v))
    wfn = prog.one("writeLists")
    # the ofstream the lists are written to
    stream_keys = set()
    for x in wfn.walk():
        if x["k"] == "Var" and "ofstream" in wfn.ty(x):
            stream_keys.add(x["d"])
    if len(stream_keys) != 1:
        res.broke("scanner: expected exactly one ofstream in writeLists, found %d" % len(stream_keys))
        return None, None
    sk = next(iter(stream_keys))
    for (_, ends2) in wl:
        for (rv, s) in ends2:
            v = s.env.get(sk)
            if is_T(v):
                texts[hole_render(v)] = v
    # keep the longest text per distinct completion (error exits end early)
    if not texts:
        res.broke("scanner: no text reaches the CMakeLists stream")
        return None, None
    full = max(texts, key=len)
    for t in texts:
        if not full.startswith(t):
            res.broke("scanner: writeLists produces two different texts; only straight-line output is understood")
    return (texts[full], full, opened, it, ends), wfn


def expand(tokens, sets, depth=0):
    out = []
    for t in tokens:
        m = re.fullmatch(r"\$\{(.+)\}", t)
        if m and depth < 6:
            name = m.group(1)
            if name in sets:
                for alt in sets[name]:
                    out.extend(expand(alt, sets, depth + 1))
                continue
        out.append(t)
    return out


def r1_r2_names(prog, res, gen, scan, wfn):
    tmpl, text, opened, it, ends = scan
    cmds = cmakeparse.parse(text)
    sets = {}
    for c in cmds:
        if c.name == "set" and c.args:
            sets.setdefault(c.args[0], []).append(c.args[1:])
    res.info["scanner_cmake_commands"] = len(cmds)
    res.info["scanner_sets"] = {unhole(k): [[unhole(t) for t in alt] for alt in v] for k, v in sets.items()}
    where = wfn.where()
    # --- the sources handed to SCHEMA_TARGETS
    targets = [c for c in cmds if c.name == "schema_targets"]
    if len(targets) != 1 or len(targets[0].args) != 3:
        res.add("R2.schema_targets", "R2|cmake/schema_scanner/schemaScanner.cc|writeLists|SCHEMA_TARGETS", where, False,
                "the emitted CMakeLists.txt must call SCHEMA_TARGETS(<file> <schema> <sources>) exactly once; found %s" % targets)
        return
    tg = targets[0]
    sources = set(expand([tg.args[2]], sets))
    headers = set()
    for c in cmds:
        if c.name == "foreach" and len(c.args) >= 2:
            hs = set(expand(c.args[1:], sets))
            # the loop must install each element
            headers |= hs
    installs = [c for c in cmds if c.name == "install" and "${header_file}" in c.args]
    res.add("R2.headers_installed", "R2|cmake/schema_scanner/schemaScanner.cc|writeLists|install-loop", where,
            bool(installs) and bool(headers),
            "the header lists are installed by a foreach(header_file ...) install(FILES ${header_file}) loop" if installs and headers else
            "no install loop over the header lists is emitted")
    ok = (unhole(tg.args[0]) == "{global:input_filename}")
    res.add("R2.schema_targets", "R2|cmake/schema_scanner/schemaScanner.cc|writeLists|SCHEMA_TARGETS", where, ok,
            "SCHEMA_TARGETS is given the schema file the scanner was run on, the schema name and ${schema_target_files}" if ok else
            "SCHEMA_TARGETS' first argument is %s, not the scanned schema file" % unhole(tg.args[0]))
    unresolved = [t for t in sources | headers if t.startswith("${")]
    res.add("R2.lists_defined", "R2|cmake/schema_scanner/schemaScanner.cc|writeLists|lists-defined", where, not unresolved,
            "every list referenced by schema_target_files / all_headers is set() in the same file" if not unresolved else
            "referenced but never set: %s" % ", ".join(unhole(t) for t in unresolved))
    src = {unhole(t) for t in sources}
    hdr = {unhole(t) for t in headers}
    res.info["scanner_sources"] = sorted(src)
    res.info["scanner_headers"] = sorted(hdr)
    # --- R1: listed => created
    created = {n for n, e in gen.items() if "w" in e["modes"]}
    for t in sorted(src | hdr):
        ok = t in created
        res.add("R1.listed_is_created", "R1|listed|%s" % t, where, ok,
                "listed by the scanner and created by the generator (%s)" % ", ".join(sorted(gen[t]["sites"])[:2]) if ok else
                "the scanner lists %s but no file-creation site of exp2cxx produces that name (generator creates: %s)" %
                (t, ", ".join(sorted(created))))
    # --- R1: created => listed (or exempt)
    for t in sorted(created):
        site = sorted(gen[t]["sites"])[0]
        if t in EXEMPT_CREATED:
            res.add("R1.created_is_listed", "R1|created|%s" % t, site, True,
                    "created but deliberately not listed: %s" % EXEMPT_CREATED[t])
            continue
        ok = (t in src) if t.endswith(".cc") else (t in hdr)
        res.add("R1.created_is_listed", "R1|created|%s" % t, site, ok,
                "created by the generator and listed by the scanner" if ok else
                "exp2cxx creates %s (at %s) but the scanner's CMakeLists.txt never lists it: the file is left out of the "
                "library, or the listed outputs are never produced and the build fails" % (t, site))
    # files in a sub-directory: the creating function makes that directory first
    seen = set()
    for t, e in sorted(gen.items()):
        if "/" not in t or "w" not in e["modes"]:
            continue
        d = t.split("/", 1)[0]
        for (sf, sn) in e["nodes"]:
            k = (sf.name, d)
            if k in seen:
                continue
            seen.add(k)
            pos = sf.cfg.locate(sn)
            mk = [c for c in sf.calls("mkDirIfNone") if c.get("ch") and strip(c["ch"][0]) is not None
                  and strip(c["ch"][0])["k"] == "Str" and strip(c["ch"][0]).get("s") == d]
            ok = any(sf.cfg.dominates(sf.cfg.locate(c), pos) for c in mk)
            res.add("R1.directory_made", "R1|%s|%s|mkdir-%s" % (sf.relfile(), sf.name, d), sf.where(sn), ok,
                    "%s() creates the directory %s/ before it creates files in it" % (sf.name, d) if ok else
                    "%s() creates %s but no mkDirIfNone(\"%s\") dominates that call (other mkDirIfNone literals here: %s)" %
                    (sf.name, t, d, [strip(c["ch"][0]).get("s") for c in sf.calls("mkDirIfNone") if c.get("ch") and strip(c["ch"][0]) is not None]))
    # appended-to files must have been created
    for t, e in sorted(gen.items()):
        if "a" in e["modes"]:
            ok = "w" in e["modes"]
            res.add("R1.append_after_create", "R1|appended|%s" % t, sorted(e["sites"])[0], ok,
                    "re-opened for appending only after being created under the same name" if ok else
                    "%s is opened for appending but never created under that name" % t)
    # the CMakeLists itself
    want = "{makeShortName(<struct Scope_ *>->symbol.name)}/CMakeLists.txt"
    ok = opened == {want}
    res.add("R5.cmakelists_path", "R5|cmake/schema_scanner/schemaScanner.cc|writeLists|cmakelists-path", where, ok,
            "the build description is written to <short name>/CMakeLists.txt" if ok else
            "the build description is written to %s" % sorted(opened))
    # project name = directory name
    proj = [c for c in cmds if c.name == "project"]
    ok = len(proj) == 1 and [unhole(a) for a in proj[0].args] == ["{makeShortName(<struct Scope_ *>->symbol.name)}"]
    res.add("R5.project_is_dir", "R5|cmake/schema_scanner/schemaScanner.cc|writeLists|project-name", where, ok,
            "PROJECT(<short name>): library/target names derive from the same short name as the directory" if ok else
            "PROJECT() is not given the short name used for the directory: %s" % proj)
    # printed directory
    couts = [render(s.env.get("G:cout")) for (_, e2) in it.finals.items() if _[0] == "writeLists" for (rv, s) in e2
             if is_T(s.env.get("G:cout")) and s.env.get("G:cout")[1]]
    want_tail = "/{makeShortName(<struct Scope_ *>->symbol.name)}\n"
    ok = bool(couts) and all(c.endswith(want_tail) for c in couts)
    res.add("R5.printed_dir", "R5|cmake/schema_scanner/schemaScanner.cc|writeLists|printed-dir", where, ok,
            "the line printed for add_subdirectory() is <cwd>/<short name>, the directory holding the CMakeLists.txt" if ok else
            "the directory printed to stdout (%s) is not <cwd>/<short name>" % couts)
    return cmds


# --------------------------------------------------------------------------- R6 separators
def flat(parts):
    s = ""
    for p in parts:
        if isinstance(p, str):
            s += p
        elif p[0] == "a":
            s += "X"
        elif p[0] == "rep":
            s += "X"
        elif p[0] == "U":
            s += "X"
    return s


def r6_separators(prog, res, scan):
    tmpl, text, opened, it, ends = scan
    f = prog.one(SCAN_ENTRY)
    n = 0
    seen = set()
    for (rv, s) in ends:
        for key, v in s.env.items():
            if not is_T(v):
                continue
            for i, p in enumerate(v[1]):
                if not (isinstance(p, tuple) and p[0] == "rep"):
                    continue
                var = key.split(":", 1)[-1]
                if var in seen:
                    continue
                seen.add(var)
                n += 1
                alts = [a for a in p[1] if flat(a)]
                bad = []
                for a in alts:
                    for b in alts:
                        sa, sb = flat(a), flat(b)
                        if not (sa[-1].isspace() or sb[0].isspace()):
                            bad.append((render(("T", a)), render(("T", b))))
                prev = flat(v[1][:i])
                if prev and not prev[-1].isspace() and any(not flat(a)[0].isspace() for a in alts):
                    bad.append(("<text before the list>", render(("T", alts[0]))))
                ok = not bad
                res.add("R6.separated", "R6|cmake/schema_scanner/schemaScanner.cc|printSchemaFilenames|%s" % var, f.where(), ok,
                        "each iteration appends its name followed (or preceded) by literal white space: %s" %
                        " | ".join(sorted(repr(render(("T", a))) for a in alts)) if ok else
                        "two consecutive names can run together in %s: %r may be followed directly by %r (setw() pads only "
                        "names shorter than the column)" % (var, bad[0][0], bad[0][1]))
    res.floor("R6", "lists built by repetition", n, 4)
    # boundaries inside the emitted text
    parts = tmpl[1]
    nb = 0
    for i, p in enumerate(parts):
        if isinstance(p, tuple) and p[0] == "rep":
            nb += 1
            nxt = flat(parts[i + 1:i + 2])
            alts = [a for a in p[1] if flat(a)]
            ok = bool(nxt) and (nxt[0].isspace() or all(flat(a)[-1].isspace() for a in alts))
            res.add("R6.list_end", "R6|cmake/schema_scanner/schemaScanner.cc|writeLists|list-end#%d" % nb, prog.one("writeLists").where(), ok,
                    "the list is followed by white space before the closing parenthesis" if ok else
                    "the last name of a list runs into the following text %r" % nxt[:10])
    res.floor("R6", "lists spliced into the CMakeLists text", nb, 4)


# --------------------------------------------------------------------------- R3 decision tables
def grammar_kinds(res):
    """Kinds a TYPE declaration's body can get, from the lemon grammar: productions reachable from type_item_body
    through unit productions, and the TYPEBODYcreate(kind) in their actions."""
    path = "/repo/src/express/expparse.y"
    try:
        src = open(path, encoding="utf-8", errors="replace").read()
    except OSError:
        res.broke("anchor vanished: src/express/expparse.y")
        return None
    prods = {}
    for m in re.finditer(r"^(\w+)(?:\(\w+\))?\s*::=([^.]*?)\.\s*(\{.*?^\})?", src, re.M | re.S):
        lhs, rhs, act = m.group(1), m.group(2), m.group(3) or ""
        syms = [re.sub(r"\(\w+\)", "", t) for t in rhs.split()]
        prods.setdefault(lhs, []).append((syms, act))
    kinds = set()
    seen = set()
    todo = ["type_item_body"]
    while todo:
        nt = todo.pop()
        if nt in seen or nt not in prods:
            continue
        seen.add(nt)
        for syms, act in prods[nt]:
            ks = re.findall(r"TYPEBODYcreate\((\w+)\)", act)
            kinds.update(ks)
            nts = [s for s in syms if s in prods]
            if not ks and len(nts) == 1:
                todo.append(nts[0])      # unit production: the body comes from that nonterminal
    return kinds


def r3_tables(prog, res):
    te = prog.enums.get("type_enum")
    if not te:
        res.broke("anchor vanished: enum type_enum")
        return
    kinds = grammar_kinds(res)
    if kinds is None:
        return
    res.info["type_kinds_from_grammar"] = sorted(kinds)
    res.floor("R3", "kinds a TYPE declaration can have (from expparse.y)", len(kinds), 13)
    missing = [k for k in kinds if k not in te]
    if missing:
        res.broke("grammar kinds not in type_enum: %s" % missing)
        return
    scan = prog.one(SCAN_ENTRY)
    scope = prog.one("SCOPEPrint", "classes_wrapper.cc")
    anc = prog.one("TYPEget_ancestor", "exp2cxx/classes_misc.c")
    if scan is None or scope is None or anc is None:
        res.broke("anchor vanished: printSchemaFilenames / SCOPEPrint / TYPEget_ancestor")
        return
    # relation used by the explorer: TYPEget_ancestor(t) != 0  <=>  TYPEget_head(t) != 0
    ok = ancestor_relation(anc)
    res.add("R3.ancestor_relation", "R3|src/exp2cxx/classes_misc.c|TYPEget_ancestor|null-iff-no-head", anc.where(), ok,
            "TYPEget_ancestor returns NULL exactly when the type has no head (first test returns NULL on !head; the other "
            "return yields a variable only ever assigned the argument or a non-null head)" if ok else
            "TYPEget_ancestor no longer has the shape 'NULL iff no head' the type tables rely on")

    def dict_vars(fn):
        out = set()
        for x in fn.walk():
            if x["k"] == "Assign" and x.get("op") == "=":
                r = strip(x["ch"][1])
                l = strip(x["ch"][0])
                if r is not None and r["k"] == "Call" and (r.get("fn") or "") == "DICTdo" and l is not None and l["k"] == "Ref":
                    out.add(l.get("d"))
        return out
    svars, gvars = dict_vars(scan), dict_vars(scope)
    if not svars or len(gvars) < 3:
        res.broke("iteration variables fed by DICTdo not found (scanner %d, SCOPEPrint %d)" % (len(svars), len(gvars)))
        return

    def is_target(fn, call, idx):
        return (call.get("fn") or "") == "getTypeFilenames"
    table = {}
    free = set()
    for kname in sorted(kinds):
        for head in (False, True):
            es = Explorer(prog, te[kname], head, is_target, prefer_file="schemaScanner.cc")
            es.walk_stmt(scan, scan.body, set(svars))
            eg = Explorer(prog, te[kname], head, is_target, prefer_file="exp2cxx")
            eg.walk_stmt(scope, scope.body, set(gvars))
            s_hit, g_hit = bool(es.hits), bool(eg.hits)
            table["%s%s" % (kname, "+head" if head else "")] = {"scanner": s_hit, "generator": g_hit}
            free |= {("scanner",) + c for c in es.free_conditions} | {("generator",) + c for c in eg.free_conditions}
            ok = s_hit == g_hit
            where = (es.hits[0][0].where(es.hits[0][1]) if es.hits else scan.where())
            res.add("R3.type_table", "R3|table|kind=%s,renames=%d" % (kname, head), where, ok,
                    "%s type %s: scanner %s, generator %s" % (kname, "renaming another type" if head else "declared directly",
                                                               "lists a file" if s_hit else "lists nothing",
                                                               "creates a file (%s)" % " <- ".join(reversed(eg.hits[0][2][-3:])) if g_hit else "creates none") if ok else
                    "%s type %s: the scanner %s but the generator %s" % (
                        kname, "that renames another type" if head else "declared directly",
                        "lists type/<name>.h/.cc" if s_hit else "lists no file",
                        "creates one (via %s)" % " <- ".join(reversed(eg.hits[0][2][-3:])) if g_hit else "creates none"),
                    facts={"scanner": s_hit, "generator": g_hit})
    res.info["type_table"] = table
    res.info["free_conditions"] = sorted("%s %s:%s" % c for c in free)
    n_yes = sum(1 for v in table.values() if v["scanner"])
    res.floor("R3", "cells where a file is listed", n_yes, 2)
    res.floor("R3", "cells where nothing is listed", len(table) - n_yes, 20)


def ancestor_relation(f):
    rets = [x for x in f.walk() if x["k"] == "Return"]
    if len(rets) != 2 or not f.params:
        return False
    p = f.params[0]["d"]
    first = f.body["ch"]
    # first If: !head(alias of param) -> return NULL
    ifs = [x for x in first if x is not None and x["k"] == "If"]
    if not ifs:
        return False
    i0 = ifs[0]
    c = strip(i0["ch"][0])
    if c is None or c["k"] != "Unary" or c.get("op") != "!":
        return False
    from typeshape import member_path, HEAD_PATH
    root, names = member_path(c["ch"][0])
    if names != HEAD_PATH or root is None or root["k"] != "Ref":
        return False
    alias = root.get("d")
    r0 = [x for x in walk(i0["ch"][1]) if x["k"] == "Return"]
    if len(r0) != 1:
        return False
    v = strip(r0[0]["ch"][0]) if r0[0].get("ch") else None
    if v is None or not (v["k"] == "Null0" or v.get("val") == 0):
        return False
    # alias initialised from the parameter
    init_ok = alias == p
    for x in f.walk():
        if x["k"] == "Var" and x.get("d") == alias and x.get("ch"):
            i = strip(x["ch"][0])
            init_ok = i is not None and i["k"] == "Ref" and i.get("d") == p
    if not init_ok:
        return False
    # other return: returns alias; every assignment to alias is head(alias) inside a loop conditioned on head(alias)
    other = [r for r in rets if r is not r0[0]][0]
    ov = strip(other["ch"][0]) if other.get("ch") else None
    if ov is None or ov["k"] != "Ref" or ov.get("d") != alias:
        return False
    for x in f.walk():
        if x["k"] == "Assign" and strip(x["ch"][0]) is not None and strip(x["ch"][0]).get("d") == alias:
            root2, names2 = member_path(x["ch"][1])
            if names2 != HEAD_PATH or root2 is None or root2.get("d") != alias:
                return False
            loops = [a for a in f.ancestors(x) if a["k"] == "While"]
            if not loops:
                return False
            rc, nc = member_path(loops[0]["ch"][0])
            if nc != HEAD_PATH or rc is None or rc.get("d") != alias:
                return False
    return True


# --------------------------------------------------------------------------- R4 iteration
def r4_iteration(prog, res):
    scan = prog.one(SCAN_ENTRY)
    scope = prog.one("SCOPEPrint", "classes_wrapper.cc")
    if scan is None or scope is None:
        return
    objs = {}
    for g in ("OBJ_ENTITY", "OBJ_TYPE", "OBJ_SCHEMA"):
        pass
    # scanner: DICTdo_init(sch->symbol_table, &de) and a switch over DICT_type with OBJ_ENTITY / OBJ_TYPE arms
    inits = [c for c in scan.calls() if (c.get("fn") or "") in ("HASHlistinit", "HASHlistinit_by_type")]
    ok = len(inits) == 1 and "symbol_table" in expr_str(inits[0]["ch"][0])
    res.add("R4.same_dictionary", "R4|cmake/schema_scanner/schemaScanner.cc|printSchemaFilenames|dictionary", scan.where(), ok,
            "the scanner walks the schema's symbol_table" if ok else "the scanner no longer walks sch->symbol_table: %s" %
            [expr_str(c) for c in inits])
    sw = [x for x in scan.walk() if x["k"] == "Switch"]
    arms = {}
    if sw:
        for labs, stmt in flatten_switch(sw[0]):
            for l in labs:
                arms[l] = stmt
    ent, typ = ord("e"), ord("t")
    consts = {}
    for f in (scan,):
        for x in f.walk():
            if x.get("m") in ("OBJ_ENTITY", "OBJ_TYPE") and "val" in x:
                consts[x["m"]] = x["val"]
    ent = consts.get("OBJ_ENTITY", ent)
    typ = consts.get("OBJ_TYPE", typ)
    ok = bool(sw) and ent in arms and typ in arms
    res.add("R4.object_classes", "R4|cmake/schema_scanner/schemaScanner.cc|printSchemaFilenames|arms", scan.where(), ok,
            "the scanner has an arm for entities and one for types" if ok else "the scanner's switch lacks the entity or the type arm")
    # entity arm unconditional: the call of getEntityFilenames is not nested in an If inside the arm
    for c in scan.calls("getEntityFilenames"):
        conds = [a for a in scan.ancestors(c) if a["k"] == "If"]
        ok = not conds
        res.add("R4.entity_unconditional", "R4|cmake/schema_scanner/schemaScanner.cc|printSchemaFilenames|entity-arm", scan.where(c), ok,
                "every entity of the schema is listed" if ok else
                "the scanner lists an entity only under a condition (%s) the generator does not have" % expr_str(conds[0]["ch"][0])[:80])
    # generator: ENTITYPrint guarded only by the search_id mark
    n = 0
    for c in scope.calls("ENTITYPrint"):
        n += 1
        conds = [a for a in scope.ancestors(c) if a["k"] == "If"]
        # the list macros wrap their loop in `if( <list> )`
        conds = [a for a in conds if not all((x.get("m") or "").startswith("LISTdo") or (x.get("mo") or "").startswith("LISTdo") for x in walk(a["ch"][0]))]
        texts = [expr_str(a["ch"][0]) for a in conds]
        ok = all(re.fullmatch(r"\(?\w+->search_id == \w+\)?", t.replace("CANPROCESS", "1")) or "search_id" in t and "&&" not in t and "||" not in t for t in texts)
        res.add("R4.entity_unconditional", "R4|src/exp2cxx/classes_wrapper.cc|SCOPEPrint|ENTITYPrint", scope.where(c), ok,
                "ENTITYPrint is reached for every entity not printed yet (only the processing mark is tested)" if ok else
                "ENTITYPrint is reached only under %s: entities failing it get no file although the scanner lists one" % texts)
    res.floor("R4", "ENTITYPrint call sites in SCOPEPrint", n, 1)
    # generator entity list: SCOPEget_entities_superclass_order(scope) -> ... DICTdo_type_init(symbol_table, OBJ_ENTITY)
    lst = [c for c in scope.calls("SCOPEget_entities_superclass_order")]
    reach = set()
    if lst:
        start = prog.callees_of_call(lst[0])
        reach = prog.reachable_from([f.key for f in start])
    found = False
    for f in prog.all_functions():
        if f.key in reach and "express" in f.file:
            for c in f.calls("HASHlistinit_by_type"):
                a = c["ch"]
                if len(a) >= 3 and "symbol_table" in expr_str(a[0]) and strip(a[2]) is not None and strip(a[2]).get("val") == ent:
                    found = True
    res.add("R4.same_dictionary", "R4|src/exp2cxx/classes_wrapper.cc|SCOPEPrint|entity-list", scope.where(), found,
            "the generator's entity list is filled from symbol_table filtered by OBJ_ENTITY" if found else
            "SCOPEget_entities_superclass_order no longer reaches DICTdo_type_init(symbol_table, OBJ_ENTITY)")
    # generator type loops: DICTdo_type_init(scope->symbol_table, &de, OBJ_TYPE)
    tl = [c for c in scope.calls("HASHlistinit_by_type") if len(c["ch"]) >= 3 and strip(c["ch"][2]) is not None and strip(c["ch"][2]).get("val") == typ]
    # loops over enum_table are empty for OBJ_TYPE: that table only ever receives the enumeration *items*
    # (OBJ_EXPRESSION, expparse.y enumeration_type), so they cannot add or lose a type
    main_loops = [c for c in tl if "symbol_table" in expr_str(c["ch"][0])]
    ok = len(main_loops) >= 3 and all("symbol_table" in expr_str(c["ch"][0]) or "enum_table" in expr_str(c["ch"][0]) for c in tl)
    res.add("R4.same_dictionary", "R4|src/exp2cxx/classes_wrapper.cc|SCOPEPrint|type-loops", scope.where(), ok,
            "the generator's type loops walk symbol_table filtered by OBJ_TYPE (%d loops)" % len(tl) if ok else
            "the generator's type loops do not all walk scope->symbol_table with OBJ_TYPE")
    # scanner main: every schema
    mains = [f for f in prog.fn("main") if f.file.endswith("schemaScanner.cc")]
    if not mains:
        res.broke("anchor vanished: scanner main")
        return
    m = mains[0]
    calls = list(m.calls(SCAN_ENTRY))
    ok = False
    for c in calls:
        loops = [a for a in m.ancestors(c) if a["k"] in ("While", "For")]
        conds = [a for a in m.ancestors(c) if a["k"] == "If"]
        if loops and not conds and "DICTdo" in expr_str(loops[0]["ch"][0]):
            ok = True
    res.add("R4.all_schemas", "R4|cmake/schema_scanner/schemaScanner.cc|main|all-schemas", m.where(calls[0]) if calls else m.where(), ok,
            "main() runs printSchemaFilenames for every schema of the file, unconditionally" if ok else
            "main() does not run printSchemaFilenames for every schema")


# --------------------------------------------------------------------------- R5 CMake plumbing + directory name
def cm_file(rel, res):
    p = os.path.join("/repo", rel)
    try:
        return cmakeparse.parse(open(p, encoding="utf-8", errors="replace").read())
    except OSError:
        res.broke("anchor vanished: %s" % rel)
        return None


def r5_cmake(prog, res):
    rel = "cmake/SC_CXX_schema_macros.cmake"
    cmds = cm_file(rel, res)
    if cmds is None:
        return
    mac = cmakeparse.macros(cmds)
    if "SCHEMA_TARGETS" not in mac:
        res.broke("anchor vanished: macro SCHEMA_TARGETS in %s" % rel)
        return
    params, body = mac["SCHEMA_TARGETS"]
    ok = params[:3] == ["expFile", "schemaName", "sourceFiles"]
    res.add("R5.macro_signature", "R5|%s|SCHEMA_TARGETS|signature" % rel, "%s:%d" % (rel, 1), ok,
            "SCHEMA_TARGETS(expFile schemaName sourceFiles) matches the call the scanner emits" if ok else
            "SCHEMA_TARGETS' parameters are %s; the scanner passes (file, schema, sources)" % params)
    cc = [c for c in body if c.name == "add_custom_command"]
    ok = False
    why = "no add_custom_command in SCHEMA_TARGETS"
    line = 1
    for c in cc:
        ka = cmakeparse.keyword_args(c, {"OUTPUT", "COMMAND", "WORKING_DIRECTORY", "COMMENT", "DEPENDS"})
        line = c.line
        out = ka.get("OUTPUT", [])
        wd = ka.get("WORKING_DIRECTORY", [])
        cmdl = " ".join(ka.get("COMMAND", []))
        ok = out == ["${sourceFiles}"] and wd == ["${CMAKE_CURRENT_LIST_DIR}"] and "${expFile}" in cmdl and "SDIR=\\\"${CMAKE_CURRENT_LIST_DIR}\\\"" in cmdl \
            and "SC_Run_exp2cxx.cmake" in cmdl
        why = "OUTPUT=%s WORKING_DIRECTORY=%s COMMAND=%s" % (out, wd, cmdl[:160])
    res.add("R5.generator_rule", "R5|%s|SCHEMA_TARGETS|custom-command" % rel, "%s:%d" % (rel, line), ok,
            "the listed sources are the OUTPUT of the rule that runs exp2cxx on the schema file in the directory of the generated CMakeLists.txt" if ok else
            "the rule running exp2cxx no longer declares exactly ${sourceFiles} as OUTPUT in ${CMAKE_CURRENT_LIST_DIR}: " + why)
    libs = [c for c in body if c.name == "sc_addlib"]
    ok = bool(libs)
    for c in libs:
        ka = cmakeparse.keyword_args(c, {"SOURCES", "LINK_LIBRARIES", "SHARED", "STATIC", "TESTABLE"})
        if ka.get("SOURCES") != ["${sourceFiles}"] or not c.args[0].startswith("${PROJECT_NAME}"):
            ok = False
    res.add("R5.library_sources", "R5|%s|SCHEMA_TARGETS|library" % rel, "%s:%d" % (rel, libs[0].line if libs else 1), ok,
            "the schema libraries are named after ${PROJECT_NAME} and built from exactly ${sourceFiles}" if ok else
            "a schema library is not built from ${sourceFiles} / not named after ${PROJECT_NAME}")
    rel2 = "cmake/SC_Run_exp2cxx.cmake"
    c2 = cm_file(rel2, res)
    if c2 is not None:
        ep = [c for c in c2 if c.name == "execute_process"]
        ok = False
        for c in ep:
            ka = cmakeparse.keyword_args(c, {"COMMAND", "WORKING_DIRECTORY", "RESULT_VARIABLE", "OUTPUT_FILE", "ERROR_FILE",
                                              "OUTPUT_VARIABLE", "ERROR_VARIABLE", "TIMEOUT"})
            if ka.get("COMMAND", [])[:2] == ["${EXE}", "${EXP}"] and ka.get("WORKING_DIRECTORY") == ["${SDIR}"]:
                ok = True
        res.add("R5.generator_cwd", "R5|%s|execute_process" % rel2, "%s:%d" % (rel2, ep[0].line if ep else 1), ok,
                "exp2cxx is run as ${EXE} ${EXP} with ${SDIR} (the scanner's directory) as working directory" if ok else
                "exp2cxx is not run on ${EXP} inside ${SDIR}")
    rel3 = "cmake/schema_scanner/schemaScanner.cmake"
    c3 = cm_file(rel3, res)
    if c3 is not None:
        mac3 = cmakeparse.macros(c3)
        ok = False
        line = 1
        if "SCHEMA_CMLIST" in mac3:
            params3, body3 = mac3["SCHEMA_CMLIST"]
            ep = [c for c in body3 if c.name == "execute_process"]
            adds = [c for c in body3 if c.name == "add_subdirectory"]
            fe = [c for c in body3 if c.name == "foreach"]
            if ep and adds and fe:
                ka = cmakeparse.keyword_args(ep[0], {"COMMAND", "WORKING_DIRECTORY", "RESULT_VARIABLE", "OUTPUT_VARIABLE", "ERROR_VARIABLE"})
                line = ep[0].line
                ok = ka.get("COMMAND", [])[-1:] == ["${%s}" % params3[0]] and "schema_scanner" in " ".join(ka.get("COMMAND", [])) \
                    and adds[0].args[:1] == ["${%s}" % fe[0].args[0]] and ka.get("OUTPUT_VARIABLE") is not None
        res.add("R5.subdirectories_added", "R5|%s|SCHEMA_CMLIST" % rel3, "%s:%d" % (rel3, line), ok,
                "every directory line the scanner prints is add_subdirectory()'d" if ok else
                "SCHEMA_CMLIST no longer runs the scanner on the schema file and adds each printed directory")
    # scanner and generator compile the same name helpers
    rel4 = "cmake/schema_scanner/CMakeLists.txt"
    c4 = cm_file(rel4, res)
    if c4 is not None:
        srcs = [a for c in c4 if c.name == "set" and c.args and c.args[0] == "schema_scanner_src" for a in c.args[1:]]
        for need in ("src/exp2cxx/genCxxFilenames.c", "src/exp2cxx/class_strings.c"):
            ok = any(a.endswith(need) for a in srcs)
            ok2 = any(f.file.endswith(need) for f in prog.all_functions())
            res.add("R5.shared_helpers", "R5|%s|%s" % (rel4, need), rel4 + ":1", ok and ok2,
                    "%s is compiled into the scanner and into exp2cxx: one definition of the per-object file names" % need if ok and ok2 else
                    "%s is not compiled into both programs any more" % need)


def r5_dirname(prog, res):
    """The directory name must depend on the schema on every path of makeShortName (several schemas per file)."""
    f = prog.one("makeShortName")
    if f is None:
        res.broke("anchor vanished: makeShortName")
        return
    param = f.params[0]["d"]
    # flow-sensitive source sets over the structured body
    def srcs_of(e, env):
        out = set()
        for x in walk(e):
            if x["k"] == "Ref":
                if x.get("d") == param:
                    out.add("schema")
                elif x.get("dk") == "global":
                    out.add("global:" + x["n"])
                elif x.get("d") in env:
                    out |= env[x["d"]]
        return out

    def evalc(cond, path):
        return None
    paths = sinterp(f.body["ch"], evalc)
    bad = 0
    total = 0
    witness = None
    for p in paths:
        env = {}
        ret = None
        for e in p.effects:
            if e["k"] == "DeclStmt":
                for v in e.get("ch") or []:
                    if v is not None and v["k"] == "Var":
                        env[v["d"]] = srcs_of(v, env) if v.get("ch") else set()
            elif e["k"] == "Return":
                ret = srcs_of(e, env)
            else:
                for x in walk(e):
                    if x["k"] == "Assign" or (x["k"] == "Call" and x.get("opcall") == "="):
                        l = strip(x["ch"][0])
                        if l is not None and l["k"] == "Ref" and l.get("d"):
                            env[l["d"]] = srcs_of(x["ch"][1], env)
                    elif x["k"] == "Call" and x.get("member") and x.get("ch"):
                        o = strip(x["ch"][0])
                        nm = (x.get("fn") or "").split("::")[-1]
                        if o is not None and o["k"] == "Ref" and o.get("d") in env and nm in ("insert", "append", "operator+=", "assign", "replace"):
                            for a in x["ch"][1:]:
                                env[o["d"]] = env[o["d"]] | srcs_of(a, env)
        if ret is None:
            continue
        total += 1
        if "schema" not in ret:
            bad += 1
            if witness is None:
                witness = [("%s is %s" % (expr_str(c)[:60], v)) for c, v in p.decisions]
    ok = total > 0 and bad == 0
    res.add("R5.dir_depends_on_schema", "R5|cmake/schema_scanner/schemaScanner.cc|makeShortName|depends-on-schema", f.where(), ok,
            "the directory name is derived from the schema name on every path" if ok else
            "on %d of %d paths the short name is derived from the input file name only (e.g. when %s): two schemas in one "
            "file get the same directory and CMakeLists.txt, the second overwriting the first" % (bad, total, "; ".join(witness or [])),
            facts={"paths": total, "paths_without_schema": bad})


def r7_recorded_after_printed(prog, res):
    """The generator keeps a list of the schemas whose files it has written, and a catch-up loop writes the files of every schema that
    is not on it (a schema without entities and types is never printed by the pass loop, but the scanner predicts its files).  A schema
    may therefore be put on a local list only on paths on which a function that receives both that schema and the function's FILES
    parameter (the printer) has been called since the schema variable was last assigned: recorded means printed."""
    from engines import call_args
    n = 0
    for f in prog.all_functions():
        if f.component != "exp2cxx" or f.cfg is None:
            continue
        fparams = [p_["d"] for p_ in f.params if "FILES" in ((f.tyname(p_["t"]) if isinstance(p_.get("t"), int) else "") or "") or
                   "file_holder" in ((f.tyname(p_["t"]) if isinstance(p_.get("t"), int) else "") or "")]
        if not fparams:
            continue
        for c in f.calls("LISTadd_last"):
            a = call_args(c)
            if len(a) != 2:
                continue
            lst, val = strip(a[0]), strip(a[1])
            while val is not None and val["k"] == "Cast" and val.get("ch"):
                val = strip(val["ch"][0])
            if lst is None or val is None or lst["k"] != "Ref" or lst.get("dk") != "local" or val["k"] != "Ref" or "Scope_" not in (f.ty(val) or ""):
                continue
            v = val["d"]
            # a done-list: some loop over the list tests its elements for identity with a scope (membership test that skips work)
            member = False
            for comp in f.walk():
                if comp["k"] != "Compound" or comp.get("mo", comp.get("m")) not in ("LISTdo", "LISTdo_n"):
                    continue
                ini = [x for x in walk(comp) if x["k"] == "Var" and x.get("n") == "_al" and x.get("ch") and x["ch"][0] is not None and
                       any(y["k"] == "Ref" and y.get("d") == lst.get("d") for y in walk(x["ch"][0]))]
                if ini and any(y["k"] == "Binary" and y.get("op") in ("==", "!=") and all(strip(z) is not None and strip(z)["k"] == "Ref" for z in y["ch"])
                               for y in walk(comp)):
                    member = True
                    break
            if not member:
                continue

            def is_printer(nd, v=v):
                for y in walk(nd):
                    if y["k"] == "Call" and y.get("fn") not in ("LISTadd_last",):
                        refs = {r_.get("d") for x_ in call_args(y) for r_ in walk(x_) if r_["k"] == "Ref"}
                        if v in refs and any(p_ in refs for p_ in fparams):
                            return True
                return False
            defs = [x for x in f.walk() if x["k"] == "Assign" and strip(x["ch"][0]) is not None and strip(x["ch"][0])["k"] == "Ref" and
                    strip(x["ch"][0]).get("d") == v]
            cpos = f.cfg.locate(c)
            bad = None
            for d_ in defs:
                dpos = f.cfg.locate(d_)
                if dpos is None or cpos is None:
                    continue
                if f.cfg.reaches(dpos, cpos, is_printer):
                    bad = d_
                    break
            n += 1
            res.add("R7.recorded_after_printed", "R7|%s|%s|%s<-%s" % (f.relfile(), f.name, lst.get("n"), val.get("n")), f.where(c), bad is None,
                    "`%s` is reached only after a call that hands `%s` and the output files to a printer" % (expr_str(c)[:50], val.get("n"))
                    if bad is None else
                    "`%s` can be reached from `%s` (line %s) without any call that prints `%s`: the schema is recorded as written although "
                    "no file was written for it, the catch-up loop skips it, and the files the scanner predicted for it never appear"
                    % (expr_str(c)[:50], expr_str(bad)[:40], bad["l"], val.get("n")))
    res.floor("R7.recorded_after_printed", "schemas put on a local done-list by the generator", n, 1)


def run(prog, res, tier):
    r7_recorded_after_printed(prog, res)
    gen = generator_files(prog, res)
    scan, wfn = scanner_template(prog, res)
    if gen is not None:
        res.info["generator_files"] = {k: sorted(v["modes"]) for k, v in sorted(gen.items())}
        res.floor("R1", "distinct file-name templates the generator can open", len(gen), 20)
    if gen is not None and scan is not None:
        r1_r2_names(prog, res, gen, scan, wfn)
        r6_separators(prog, res, scan)
    import singlepass
    singlepass.check(prog, res, "R1.single_schema_single_pass", "exp2cxx/multpass.c", "exp2cxx")
    r3_tables(prog, res)
    r4_iteration(prog, res)
    r5_cmake(prog, res)
    r5_dirname(prog, res)
