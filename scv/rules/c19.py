"""C19 — Python aggregate types enforce EXPRESS aggregate semantics (structural clauses, checker over Python's `ast`).

 R1 type guard      every store of a caller-supplied value into an aggregate's container is preceded, on every path, by
                    check_type(value, self.get_type())  — with get_type *called*
 R2 index window    every container subscript uses  index - self._bound_1  and sits behind the lower (and, when bounded,
                    upper) index tests that raise
 R3 uniqueness      a UNIQUE container tests for a duplicate before each store; a test that skips the slot being
                    overwritten must name exactly the slot the store writes; overwriting an element with the value it
                    already holds must be accepted
 R4 capacity        BAG/SET refuse an element only when the number of elements has reached the upper bound; LIST does
                    not treat its size bounds as an index range
 R5 queries         the four classes answer the same queries; ARRAY size is bound_2 - bound_1 + 1, LIST/BAG/SET lower
                    index is 1 and their size is the number of elements
 R6 optional        an unset ARRAY element is readable only when OPTIONAL
"""
import ast
import os

PID = "C19"
UNITS = dict(components={"scanner"})
LEVEL_TEXT = "other"
NDEBUG_VARIANT = False
TECHNIQUE = ("static analysis over the Python syntax tree (module ast) of the runtime package: guard-before-mutate rules with "
             "structured dominance (prefix statements and enclosing tests of every container store), expression-shape checks "
             "of index/uniqueness/capacity tests, sibling agreement of the four aggregate classes")
EXPLANATION = (
    "The deciding step parses src/exp2python/python/stepcode/AggregationDataTypes.py with Python's ast module (nothing is "
    "imported or run). For each of ARRAY, LIST, BAG, SET every statement that mutates self._container with the caller's value "
    "(subscript assignment, append, add) is an obligation site; its dominating context is the list of statements that precede "
    "it in its own block and in every enclosing block plus the (test, branch) pairs of the enclosing ifs. (R1) that context must "
    "contain check_type(value, self.get_type()) with a call as second argument. (R2) subscripts must be index - self._bound_1 "
    "and lie in the else part of `index < self._bound_1: raise` (and `index > self._bound_2: raise` on bounded paths). (R3) "
    "under `if self._unique` a duplicate test that raises must precede the store; if that test skips a position, the skipped "
    "position must be the store's own subscript expression; a plain membership test refuses re-writing the same value "
    "(reported). (R4) the 'full' test of add() must compare len(self._container) with self._bound_2 only; LIST must not size "
    "or index its container by bound_2 - bound_1. (R5) same query methods in all four classes and their return expressions. "
    "(R6) ARRAY.__getitem__ raises for None unless self._optional. "
    "(R5/R6 are decided semantically: return expressions as linear forms over bound_1, bound_2, len(container); the unset-element guard executed for OPTIONAL x {unset, set-but-false, set}.) (R7) Type.get_type (BaseType.py) resolves a name in vars(self._scope), and a table of resolved types is keyed by every attribute of self that the look-up reads. (R9) in every method of the four classes no raise is reached after a statement that has already changed self._container on the same path: a refused operation leaves the aggregate unchanged. (R8) check_type (TypeChecker.py), the only filter in front of every store, refuses None for every expected type: explored path by path with instance := None (isinstance(None, X) false, None in ids false, attribute access raises), no path returns True. Not decided: agreement of sizes, indices and uniqueness with a reference model over operation histories — that quantifies "
    "over run-time sequences; these rules show that each single operation is guarded the way EXPRESS requires."
    " (R10) whether a bound is absent is decided by identity with None, never by truth value (0 is a legal bound): no bound is used as a truth value and `_unbounded` is a Boolean constant or an `is None` test.")

PKG = "/repo/src/exp2python/python/stepcode"
FILE = "AggregationDataTypes.py"
REL = "src/exp2python/python/stepcode/" + FILE
CLASSES = ("ARRAY", "LIST", "BAG", "SET")
QUERIES = ("bound_1", "bound_2", "get_size", "get_hiindex", "get_loindex", "get_hibound", "get_lobound", "get_value_unique")


def src(n):
    return ast.unparse(n).replace(" ", "")


class Ctx:
    """dominating context of a statement: statements executed before it on every path + enclosing (test, branch)"""
    def __init__(self):
        self.before = []
        self.tests = []


def contexts(func):
    """yield (stmt, Ctx) for every statement of the function (recursively)"""
    out = []

    def rec(body, ctx):
        seen = []
        for st in body:
            c = Ctx()
            c.before = ctx.before + list(seen)
            c.tests = list(ctx.tests)
            out.append((st, c))
            if isinstance(st, ast.If):
                c1 = Ctx()
                c1.before = c.before
                c1.tests = c.tests + [(st.test, True)]
                rec(st.body, c1)
                c2 = Ctx()
                c2.before = c.before
                c2.tests = c.tests + [(st.test, False)]
                rec(st.orelse, c2)
            elif isinstance(st, (ast.For, ast.While)):
                c1 = Ctx()
                c1.before = c.before
                c1.tests = c.tests + [(st, "loop")]
                rec(st.body, c1)
            elif isinstance(st, ast.With):
                rec(st.body, c)
            elif isinstance(st, ast.Try):
                rec(st.body, c)
            seen.append(st)
    rec(func.body, Ctx())
    return out


def always_raises(body):
    return bool(body) and isinstance(body[-1], ast.Raise)


def container_store(st):
    """-> (kind, subscript expr or None, stored value expr) when st stores into self._container"""
    if isinstance(st, ast.Assign) and len(st.targets) == 1:
        t = st.targets[0]
        if isinstance(t, ast.Subscript) and src(t.value) == "self._container":
            return ("setitem", t.slice, st.value)
    if isinstance(st, ast.Expr) and isinstance(st.value, ast.Call) and isinstance(st.value.func, ast.Attribute):
        f = st.value.func
        if src(f.value) == "self._container" and f.attr in ("append", "add", "insert") and st.value.args:
            return (f.attr, None, st.value.args[-1])
    return None


def calls_in(node, name):
    return [c for c in ast.walk(node) if isinstance(c, ast.Call) and ((isinstance(c.func, ast.Name) and c.func.id == name) or
                                                                         (isinstance(c.func, ast.Attribute) and c.func.attr == name))]


def r7_base_type_resolution(res):
    """Every aggregate whose base type is given by name resolves it through Type.get_type(), i.e. through (name, scope).  The result
    may be remembered only under a key that contains every attribute of self the look-up reads (self._typedef *and* self._scope): a
    table keyed by the name alone hands an aggregate of another schema the class of the first schema that used the name."""
    path = os.path.join(PKG, "BaseType.py")
    rel = "src/exp2python/python/stepcode/BaseType.py"
    try:
        tree = ast.parse(open(path, encoding="utf-8").read())
    except (OSError, SyntaxError) as e:
        res.broke("cannot parse %s: %s" % (rel, e))
        return
    cls = [n for n in tree.body if isinstance(n, ast.ClassDef) and n.name == "Type"]
    gt = [m for c in cls for m in c.body if isinstance(m, ast.FunctionDef) and m.name == "get_type"]
    if not gt:
        res.broke("anchor vanished: Type.get_type in %s" % rel)
        return
    m = gt[0]
    reads = sorted({"self." + n.attr for n in ast.walk(m) if isinstance(n, ast.Attribute) and isinstance(n.value, ast.Name) and n.value.id == "self"
                    and isinstance(n.ctx, ast.Load) and n.attr in ("_typedef", "_scope")})
    # the scope must take part in the look-up at all
    uses_scope = "self._scope" in reads and any(isinstance(n, ast.Call) and isinstance(n.func, ast.Name) and n.func.id == "vars" and "self._scope" in src(n) for n in ast.walk(m))
    res.add("R7.type_resolved_in_its_scope", "R7|%s|Type.get_type|scope" % rel, "%s:%d" % (rel, m.lineno), uses_scope,
            "a type name is looked up in vars(self._scope)" if uses_scope else "Type.get_type no longer looks the name up in the aggregate's own scope")
    # memo tables: subscript stores / loads on something that is not a local computed from the scope
    bad = None
    for n in ast.walk(m):
        tgt = None
        if isinstance(n, ast.Assign) and len(n.targets) == 1 and isinstance(n.targets[0], ast.Subscript):
            tgt = n.targets[0]
        elif isinstance(n, ast.Call) and isinstance(n.func, ast.Attribute) and n.func.attr in ("setdefault", "__setitem__") and n.args:
            tgt = n
        if tgt is None:
            continue
        key_src = src(tgt.slice) if isinstance(tgt, ast.Subscript) else src(n.args[0])
        missing = [r for r in reads if r.replace(" ", "") not in key_src]
        if missing:
            bad = (n, key_src, missing)
    ok = bad is None
    res.add("R7.memo_key_complete", "R7|%s|Type.get_type|memo" % rel, "%s:%d" % (rel, bad[0].lineno if bad else m.lineno), ok,
            "get_type keeps no table of resolved types (or keys it by everything the look-up reads: %s)" % reads if ok else
            "get_type remembers its result under the key `%s`, which does not contain %s although the look-up reads it: the same type name in "
            "another scope gets the class resolved for the first scope" % (bad[1], bad[2]))


def r9_refusal_before_mutation(res, classes, methods):
    """An operation that is refused leaves the aggregate as it was: in every method of ARRAY, LIST, BAG and SET no `raise` is reached
    after a statement that has already stored the caller's element in (or removed one from) self._container on the same path (the
    statements that precede the raise in its own block and in the enclosing blocks; padding an unbounded LIST with None is not a store).  `self._container.add(value)` followed by `if len(..) > capacity: raise` keeps the refused
    element in the SET: SIZEOF exceeds HIBOUND and every later add() is refused."""
    n = 0
    for cls in CLASSES:
        for mname, m in sorted(methods[cls].items()):
            if mname == "__init__":
                continue
            raises = [(st, ctx) for st, ctx in contexts(m) if isinstance(st, ast.Raise)]
            if not raises:
                continue
            n += 1
            bad = None
            for st, ctx in raises:
                for b in ctx.before:
                    # a mutation executed before the raise on every path to it
                    # ... of the caller's element: padding an unbounded LIST with None up to the index is not a store of the element
                    params = {a.arg for a in m.args.args if a.arg != "self"}
                    muts = [x for x in ([b] if not isinstance(b, (ast.If, ast.For, ast.While, ast.Try, ast.With)) else [])
                            if (container_store(x) is not None and isinstance(container_store(x)[2], ast.Name) and container_store(x)[2].id in params) or
                            (isinstance(x, ast.Expr) and isinstance(x.value, ast.Call) and isinstance(x.value.func, ast.Attribute) and
                             src(x.value.func.value) == "self._container" and x.value.func.attr in ("remove", "pop", "clear"))]
                    if muts and bad is None:
                        bad = (st, muts[0])
            res.add("R9.refusal_before_mutation", "R9|%s|%s.%s" % (REL, cls, mname), "%s:%d" % (REL, bad[0].lineno if bad else m.lineno), bad is None,
                    "every raise of %s.%s comes before the container is changed" % (cls, mname) if bad is None else
                    "%s.%s changes the container at line %d (`%s`) and can still raise at line %d: the refused operation has already taken effect"
                    % (cls, mname, bad[1].lineno, ast.unparse(bad[1])[:60], bad[0].lineno))
    res.floor("R9.refusal_before_mutation", "methods that can refuse", n, 5)


def r8_none_rejected_by_filter(res):
    """The aggregates call check_type(value, base type) as their only filter: no store looks at OPTIONAL before it.  So the filter
    itself must refuse the indeterminate value None for every expected type.  check_type is explored path by path with
    instance := None: `isinstance(instance, X)` is False, `instance in X` is False (enumeration ids are strings), `instance is None`
    is True, an attribute of instance raises; every other test forks.  No path may end in `return True` (or fall off the end after
    an assignment that made the result true)."""
    path = os.path.join(PKG, "TypeChecker.py")
    rel = "src/exp2python/python/stepcode/TypeChecker.py"
    try:
        tree = ast.parse(open(path, encoding="utf-8").read())
    except (OSError, SyntaxError) as e:
        res.broke("cannot parse %s: %s" % (rel, e))
        return
    fn = [n for n in tree.body if isinstance(n, ast.FunctionDef) and n.name == "check_type"]
    if not fn or len(fn[0].args.args) < 2:
        res.broke("anchor vanished: check_type(instance, expected_type) in %s" % rel)
        return
    fn = fn[0]
    inst = fn.args.args[0].arg
    RAISE = object()

    def ev(e, env):
        """-> True / False / None (unknown) / RAISE"""
        if isinstance(e, ast.Constant):
            return bool(e.value) if isinstance(e.value, (bool, int, str, type(None))) else None
        if isinstance(e, ast.Name):
            if e.id == inst:
                return False            # None is falsy
            return env.get(e.id)
        if isinstance(e, ast.UnaryOp) and isinstance(e.op, ast.Not):
            v = ev(e.operand, env)
            return v if v in (None, RAISE) else (not v)
        if isinstance(e, ast.BoolOp):
            vals = []
            for x in e.values:
                v = ev(x, env)
                if v is RAISE:
                    return RAISE if not vals or all(y is not None for y in vals) else None
                if isinstance(e.op, ast.And) and v is False:
                    return False
                if isinstance(e.op, ast.Or) and v is True:
                    return True
                vals.append(v)
            return None if any(v is None for v in vals) else (all(vals) if isinstance(e.op, ast.And) else any(vals))
        if isinstance(e, ast.Call) and isinstance(e.func, ast.Name) and e.func.id == "isinstance" and len(e.args) == 2:
            if isinstance(e.args[0], ast.Name) and e.args[0].id == inst:
                return False
            return None
        if isinstance(e, ast.Compare) and len(e.ops) == 1:
            l, r = e.left, e.comparators[0]
            li = isinstance(l, ast.Name) and l.id == inst
            ri = isinstance(r, ast.Name) and r.id == inst
            rn = isinstance(r, ast.Constant) and r.value is None
            ln = isinstance(l, ast.Constant) and l.value is None
            op = e.ops[0]
            if (li and rn) or (ln and ri):
                if isinstance(op, (ast.Is, ast.Eq)):
                    return True
                if isinstance(op, (ast.IsNot, ast.NotEq)):
                    return False
            if li and isinstance(op, ast.In):
                return False
            if li and isinstance(op, ast.NotIn):
                return True
            for side in (l, r):
                for a in ast.walk(side):
                    if isinstance(a, ast.Attribute) and isinstance(a.value, ast.Name) and a.value.id == inst:
                        return RAISE
            return None
        for a in ast.walk(e):
            if isinstance(a, ast.Attribute) and isinstance(a.value, ast.Name) and a.value.id == inst:
                return RAISE
        return None

    accepted = []
    npaths = [0]

    def run_block(body, env, k):
        """k(env) continues after the block; returns nothing, records accepting paths"""
        if not body:
            return k(env)
        st, rest = body[0], body[1:]
        nxt = lambda e2: run_block(rest, e2, k)
        if isinstance(st, ast.Return):
            npaths[0] += 1
            v = True if st.value is None else ev(st.value, env)
            if st.value is None:
                return
            if v is True or v is None:
                accepted.append((st.lineno, "return %s" % src(st.value)))
            return
        if isinstance(st, ast.Raise):
            npaths[0] += 1
            return
        if isinstance(st, ast.If):
            v = ev(st.test, env)
            if v is RAISE:
                npaths[0] += 1
                return
            if v is not False:
                run_block(st.body, dict(env), nxt)
            if v is not True:
                run_block(st.orelse, dict(env), nxt)
            return
        if isinstance(st, (ast.For, ast.While)):
            # zero or one iteration is enough for a may-analysis of the flags assigned in the body
            run_block(st.body, dict(env), nxt)
            return nxt(env)
        if isinstance(st, ast.Assign) and len(st.targets) == 1 and isinstance(st.targets[0], ast.Name):
            v = ev(st.value, env)
            if v is RAISE:
                npaths[0] += 1
                return
            env = dict(env)
            env[st.targets[0].id] = v
            return nxt(env)
        if isinstance(st, ast.Expr):
            if ev(st.value, env) is RAISE:
                npaths[0] += 1
                return
        return nxt(env)

    def fall_off(env):
        npaths[0] += 1      # implicit `return None`: falsy, the callers treat it as a refusal

    run_block(fn.body, {}, fall_off)
    ok = not accepted
    res.add("R8.none_rejected_by_the_type_filter", "R8|%s|check_type|None" % rel, "%s:%d" % (rel, accepted[0][0] if accepted else fn.lineno), ok,
            "check_type(None, T) raises or returns False on each of its %d paths: the indeterminate value cannot be stored in a non-OPTIONAL "
            "aggregate" % npaths[0] if ok else
            "check_type(None, T) can reach `%s` at line %d: None passes the only filter of BAG.add / SET.add / LIST and ARRAY assignment, is "
            "counted as an element, and un-sets a stored element of a non-OPTIONAL aggregate" % (accepted[0][1], accepted[0][0]))
    if npaths[0] < 1:
        res.broke("R8: no path of check_type explored")
    # premise: the stores do rely on check_type alone - no store is guarded by a test of the value against None
    res.info["r8_paths_of_check_type"] = npaths[0]


def r10_bound_absence_by_identity(res, tree):
    """An upper bound may be absent (`?`, passed as None) or any integer >= 0 - and 0 is an integer: `LIST [0:0]`.  Whether a bound is
    absent must therefore be decided by identity with None, never by truth value.  Every use of a bound (`bound_1`, `bound_2`,
    `self._bound_1`, `self._bound_2`) as a truth value (`not b`, `if b`, `b and ..`, `bool(b)`, `x if b else y`) is refused, and every
    value stored in `self._unbounded` is a Boolean constant or an `is None` / `is not None` comparison of a bound."""
    def is_bound(n):
        return (isinstance(n, ast.Name) and n.id in ("bound_1", "bound_2")) or \
               (isinstance(n, ast.Attribute) and n.attr in ("_bound_1", "_bound_2"))
    n = 0
    for cls in [c for c in tree.body if isinstance(c, ast.ClassDef) and c.name in CLASSES]:
        for fn in [m for m in cls.body if isinstance(m, ast.FunctionDef)]:
            truth = []
            for x in ast.walk(fn):
                if isinstance(x, ast.UnaryOp) and isinstance(x.op, ast.Not):
                    truth.append(x.operand)
                elif isinstance(x, (ast.If, ast.While, ast.IfExp)):
                    truth.append(x.test)
                elif isinstance(x, ast.BoolOp):
                    truth.extend(x.values)
                elif isinstance(x, ast.Assert):
                    truth.append(x.test)
                elif isinstance(x, ast.Call) and isinstance(x.func, ast.Name) and x.func.id == "bool":
                    truth.extend(x.args)
            for t in truth:
                if is_bound(t):
                    n += 1
                    res.add("R10.bound_absence_by_identity", "R10|%s|%s.%s|truth:%s" % (REL, cls.name, fn.name, src(t)), "%s:%d" % (REL, t.lineno), False,
                            "`%s` is used as a truth value in %s.%s: the bound 0 (`%s [0:0]`, `[0:?]`) is taken for an absent bound, so the "
                            "container accepts or refuses elements against the wrong limit" % (src(t), cls.name, fn.name, cls.name))
            for x in ast.walk(fn):
                if isinstance(x, ast.Compare) and len(x.ops) == 1 and isinstance(x.ops[0], (ast.Is, ast.IsNot)) and is_bound(x.left) and \
                        isinstance(x.comparators[0], ast.Constant) and x.comparators[0].value is None:
                    n += 1
                    res.add("R10.bound_absence_by_identity", "R10|%s|%s.%s|%s@%d" % (REL, cls.name, fn.name, src(x), x.lineno), "%s:%d" % (REL, x.lineno), True,
                            "absence of the bound is decided by identity with None")
                if isinstance(x, ast.Assign) and any(isinstance(t, ast.Attribute) and t.attr == "_unbounded" for t in x.targets):
                    v = x.value
                    ok = (isinstance(v, ast.Constant) and isinstance(v.value, bool)) or \
                         (isinstance(v, ast.Compare) and len(v.ops) == 1 and isinstance(v.ops[0], (ast.Is, ast.IsNot)) and is_bound(v.left) and
                          isinstance(v.comparators[0], ast.Constant) and v.comparators[0].value is None)
                    n += 1
                    res.add("R10.bound_absence_by_identity", "R10|%s|%s.%s|_unbounded@%d" % (REL, cls.name, fn.name, x.lineno), "%s:%d" % (REL, x.lineno), ok,
                            "`%s` stores a Boolean constant or an identity test of the bound" % src(x) if ok else
                            "`%s`: whether the aggregate is unbounded is computed from something other than `bound is None`; with a truth "
                            "value the bound 0 counts as no bound" % src(x))
    res.floor("R10.bound_absence_by_identity", "absence tests of a bound and stores into _unbounded", n, 6)


def run(prog, res, tier):
    r8_none_rejected_by_filter(res)
    r7_base_type_resolution(res)
    path = os.path.join(PKG, FILE)
    try:
        text = open(path, encoding="utf-8").read()
        tree = ast.parse(text)
    except (OSError, SyntaxError) as e:
        res.broke("cannot parse %s: %s" % (REL, e))
        return
    classes = {n.name: n for n in tree.body if isinstance(n, ast.ClassDef)}
    missing = [c for c in CLASSES if c not in classes]
    if missing:
        res.broke("anchor vanished: class %s in %s" % (missing, REL))
        return
    methods = {c: {m.name: m for m in classes[c].body if isinstance(m, ast.FunctionDef)} for c in CLASSES}
    r9_refusal_before_mutation(res, classes, methods)
    r10_bound_absence_by_identity(res, tree)
    n_store = 0
    keyn = {}

    def key(rule, cls, meth, what):
        k = "%s|%s|%s.%s|%s" % (rule, REL, cls, meth, what)
        keyn[k] = keyn.get(k, 0) + 1
        return k if keyn[k] == 1 else k + "#%d" % keyn[k]

    for cls in CLASSES:
        has_unique = any("self._unique" in src(m) for m in methods[cls].values())
        for mname, m in methods[cls].items():
            if mname == "__init__":
                continue
            params = [a.arg for a in m.args.args]
            for st, ctx in contexts(m):
                cs = container_store(st)
                if cs is None:
                    continue
                kind, sub, val = cs
                if not (isinstance(val, ast.Name) and val.id in params):
                    continue
                n_store += 1
                where = "%s:%d" % (REL, st.lineno)
                # ---- R1 type guard
                good = []
                bad = []
                for b in ctx.before:
                    for c in calls_in(b, "check_type"):
                        if len(c.args) >= 2 and src(c.args[0]) == val.id:
                            if isinstance(c.args[1], ast.Call) and src(c.args[1]) == "self.get_type()":
                                good.append(c)
                            else:
                                bad.append(c)
                ok = bool(good)
                res.add("R1.type_checked_before_store", key("R1", cls, mname, kind), where, ok,
                        "check_type(%s, self.get_type()) precedes the store on every path" % val.id if ok else
                        ("the value is stored after check_type(%s, %s): the second argument is not the element type (the method is not "
                         "called), so the check cannot work" % (val.id, src(bad[0].args[1])) if bad else
                         "%s.%s stores the caller's value without a dominating check_type(%s, self.get_type())" % (cls, mname, val.id)))
                # ---- R2 index window
                if kind == "setitem":
                    idx = params[1] if len(params) > 1 else "index"
                    want = "%s-self._bound_1" % idx
                    ok = src(sub) == want
                    lower = any((not br) and src(t) == "%s<self._bound_1" % idx for t, br in ctx.tests if br != "loop") or \
                        any(isinstance(b, ast.If) and src(b.test) == "%s<self._bound_1" % idx and always_raises(b.body) for b in ctx.before)
                    bounded_path = any(src(t) == "notself._unbounded" and br is True for t, br in ctx.tests if br != "loop") or cls == "ARRAY"
                    upper = any((not br) and src(t) == "%s>self._bound_2" % idx for t, br in ctx.tests if br != "loop")
                    ok = ok and lower and (upper or not bounded_path)
                    res.add("R2.index_window", key("R2", cls, mname, "store"), where, ok,
                            "the slot written is index - bound_1, behind the index tests that raise" if ok else
                            "%s.%s writes self._container[%s] with lower-bound test: %s, upper-bound test: %s (bounded path: %s); expected "
                            "[%s] behind both" % (cls, mname, src(sub), lower, upper, bounded_path, want))
                # ---- R3 uniqueness
                if has_unique and kind == "setitem":
                    ug = [b for b in ctx.before if isinstance(b, ast.If) and src(b.test) == "self._unique"]
                    ok = False
                    skip_ok = True
                    plain_membership = False
                    detail = "no `if self._unique:` block precedes the store"
                    for b in ug:
                        raisers = [x for x in ast.walk(b) if isinstance(x, ast.Raise)]
                        if not raisers:
                            detail = "the `if self._unique:` block never raises"
                            continue
                        ok = True
                        # membership form
                        for x in ast.walk(b):
                            if isinstance(x, ast.If) and isinstance(x.test, ast.Compare) and len(x.test.ops) == 1 and \
                                    isinstance(x.test.ops[0], ast.In) and src(x.test.comparators[0]) == "self._container" and always_raises(x.body):
                                plain_membership = True
                        # loop form: a position compared with something must be compared with the store's own slot
                        for loop in [x for x in ast.walk(b) if isinstance(x, ast.For)]:
                            it = src(loop.iter)
                            posvars = set()
                            if it.startswith("enumerate(self._container") and isinstance(loop.target, ast.Tuple):
                                posvars.add(src(loop.target.elts[0]))
                            elif it.startswith("range(") and isinstance(loop.target, ast.Name):
                                posvars.add(loop.target.id)
                            for cmp_ in [x for x in ast.walk(loop) if isinstance(x, ast.Compare)]:
                                sides = [cmp_.left] + list(cmp_.comparators)
                                names = [src(s) for s in sides]
                                if any(nm in posvars for nm in names) and isinstance(cmp_.ops[0], (ast.NotEq, ast.Eq)):
                                    other = [nm for nm in names if nm not in posvars]
                                    if other and other[0] != src(sub):
                                        skip_ok = False
                                        detail = "the duplicate scan skips position %s, but the store writes slot %s" % (other[0], src(sub))
                    res.add("R3.unique_checked_before_store", key("R3", cls, mname, "dup-test"), where, ok and skip_ok,
                            "a duplicate test that raises precedes the store" if ok and skip_ok else
                            "%s.%s: %s — a repeated value can enter a UNIQUE %s" % (cls, mname, detail, cls))
                    if ok and plain_membership:
                        res.add("R3.overwrite_same_value", key("R3", cls, mname, "overwrite-same-value"), where, False,
                                "the duplicate test is `value in self._container`, which also sees the element being replaced: writing back "
                                "the value an element already holds is refused although the %s stays duplicate-free" % cls)
                # ---- R4 capacity
                if kind in ("append", "add"):
                    bounded = [(t, br) for t, br in ctx.tests if br != "loop" and src(t) == "self._unbounded" and br is False]
                    if bounded:
                        full = [(t, br) for t, br in ctx.tests if br != "loop" and isinstance(t, ast.Compare) and "len(self._container)" in src(t)]
                        ok = bool(full) and all(br is False for _, br in full)
                        txt = src(full[0][0]) if full else "?"
                        exact = ok and txt in ("len(self._container)==self._bound_2", "len(self._container)>=self._bound_2")
                        res.add("R4.capacity_guard", key("R4", cls, mname, "full-test"), where, ok,
                                "the element is added only when the 'full' test failed" if ok else
                                "%s.%s adds to a bounded aggregate without a capacity test" % (cls, mname))
                        if ok and not exact:
                            res.add("R4.capacity_is_upper_bound", key("R4", cls, mname, "capacity"), where, False,
                                    "the 'full' test is `%s`: the capacity depends on the lower bound; EXPRESS allows up to bound_2 elements "
                                    "(a %s [2:5] must take a fifth element)" % (txt, cls))
    res.floor("R1", "container stores of caller-supplied values", n_store, 6)
    # ---- R4b LIST bounds model
    init = methods["LIST"].get("__init__")
    if init is not None:
        sized = [st for st in ast.walk(init) if isinstance(st, ast.Assign) and "bound_2-bound_1" in src(st.value)]
        res.add("R4.list_bounds_are_sizes", key("R4", "LIST", "__init__", "index-model"), "%s:%d" % (REL, (sized[0].lineno if sized else init.lineno)),
                not sized,
                "the bounds of a LIST limit its size" if not sized else
                "LIST allocates bound_2 - bound_1 + 1 slots and indexes them from bound_1: it treats the size bounds [l:u] as an ARRAY "
                "index range (LIST [2:3] refuses element 1; LIST [0:3] accepts element 0 and holds 4)")
    # ---- R5 queries
    for q in QUERIES:
        have = [c for c in CLASSES if q in methods[c]]
        ok = len(have) == len(CLASSES)
        res.add("R5.same_queries", "R5|%s|%s" % (REL, q), REL + ":1", ok,
                "%s() is answered by ARRAY, LIST, BAG and SET" % q if ok else "%s() is missing from %s" % (q, sorted(set(CLASSES) - set(have))))

    def linear(e):
        """linear form {symbol or 1: coefficient} of an integer expression over b1 = self._bound_1, b2 = self._bound_2,
        n = len(self._container); None when the expression is anything else"""
        if isinstance(e, ast.Call) and isinstance(e.func, ast.Name) and e.func.id == "INTEGER" and len(e.args) == 1:
            return linear(e.args[0])
        if isinstance(e, ast.Constant) and isinstance(e.value, int) and not isinstance(e.value, bool):
            return {1: e.value}
        if isinstance(e, ast.Attribute) and src(e) in ("self._bound_1", "self._bound_2"):
            return {"b1" if e.attr == "_bound_1" else "b2": 1}
        if isinstance(e, ast.Call) and src(e) == "len(self._container)":
            return {"n": 1}
        if isinstance(e, ast.UnaryOp) and isinstance(e.op, (ast.USub, ast.UAdd)):
            v = linear(e.operand)
            return None if v is None else {k: (-c if isinstance(e.op, ast.USub) else c) for k, c in v.items()}
        if isinstance(e, ast.BinOp) and isinstance(e.op, (ast.Add, ast.Sub)):
            l, r = linear(e.left), linear(e.right)
            if l is None or r is None:
                return None
            out = dict(l)
            for k, c in r.items():
                out[k] = out.get(k, 0) + (c if isinstance(e.op, ast.Add) else -c)
            return {k: c for k, c in out.items() if c}
        return None

    def ret_of(cls, name):
        m = methods[cls].get(name)
        if m is None:
            return None
        rets = [x for x in ast.walk(m) if isinstance(x, ast.Return) and x.value is not None]
        return [(linear(r.value), src(r.value)) for r in rets]
    for cls, name, want, why in (
            ("ARRAY", "get_size", {"b2": 1, "b1": -1, 1: 1}, "an array has bound_2 - bound_1 + 1 elements"),
            ("ARRAY", "get_loindex", {"b1": 1}, "array indices start at bound_1"),
            ("ARRAY", "get_hiindex", {"b2": 1}, "array indices end at bound_2"),
            ("LIST", "get_loindex", {1: 1}, "list elements are numbered from 1"),
            ("BAG", "get_loindex", {1: 1}, "LOINDEX of a bag is 1"),
            ("SET", "get_loindex", {1: 1}, "LOINDEX of a set is 1"),
            ("BAG", "get_size", {"n": 1}, "SIZEOF a bag is its number of elements"),
            ("SET", "get_size", {"n": 1}, "SIZEOF a set is its number of elements"),
            ("BAG", "get_hiindex", {"n": 1}, "HIINDEX of a bag is its number of elements"),
            ("SET", "get_hiindex", {"n": 1}, "HIINDEX of a set is its number of elements")):
        got = ret_of(cls, name)
        ok = bool(got) and all(g[0] == want for g in got)
        m = methods[cls].get(name)
        res.add("R5.query_value", "R5|%s|%s.%s" % (REL, cls, name), "%s:%d" % (REL, m.lineno if m else 1), ok,
                "%s.%s() returns %s (%s)" % (cls, name, got[0][1], why) if ok else
                "%s.%s() returns %s; expected the value %s: %s" % (cls, name, [g[1] for g in got] if got else None,
                                                                 " + ".join("%s*%s" % (c, k) for k, c in want.items()), why))
    # ---- R6 optional: the part of __getitem__ after the element has been read is executed for every combination of
    # (array OPTIONAL or not) x (element None / set but falsy (0, 0.0, False, '') / set and truthy); it must raise exactly for
    # (not OPTIONAL, None) and return the element otherwise
    gi = methods["ARRAY"].get("__getitem__")
    ok = False
    why = "no statement reads self._container[index - self._bound_1] into a variable"
    if gi is not None:
        for st, ctx in contexts(gi):
            if not (isinstance(st, ast.Assign) and len(st.targets) == 1 and isinstance(st.targets[0], ast.Name) and
                    "self._container[index-self._bound_1]" in src(st.value)):
                continue
            var = st.targets[0].id
            # the statements that follow the read in the same block
            rest = None
            for body in [n.body for n in ast.walk(gi) if hasattr(n, "body") and isinstance(n.body, list)] + \
                        [n.orelse for n in ast.walk(gi) if getattr(n, "orelse", None)]:
                if st in body:
                    rest = body[body.index(st) + 1:]
            if rest is None:
                continue

            def truth(e, val, opt):
                if isinstance(e, ast.Name) and e.id == var:
                    return val == "truthy"
                if isinstance(e, ast.Attribute) and src(e) == "self._optional":
                    return opt
                if isinstance(e, ast.UnaryOp) and isinstance(e.op, ast.Not):
                    t = truth(e.operand, val, opt)
                    return None if t is None else (not t)
                if isinstance(e, ast.BoolOp):
                    ts = [truth(x, val, opt) for x in e.values]
                    if isinstance(e.op, ast.And):
                        return False if any(t is False for t in ts) else (None if any(t is None for t in ts) else True)
                    return True if any(t is True for t in ts) else (None if any(t is None for t in ts) else False)
                if isinstance(e, ast.Compare) and len(e.ops) == 1 and isinstance(e.left, ast.Name) and e.left.id == var and \
                        isinstance(e.comparators[0], ast.Constant) and e.comparators[0].value is None:
                    if isinstance(e.ops[0], (ast.Is, ast.Eq)):
                        return val == "none"
                    if isinstance(e.ops[0], (ast.IsNot, ast.NotEq)):
                        return val != "none"
                return None

            def run_block(block, val, opt):
                for x in block:
                    if isinstance(x, ast.Raise):
                        return "raise"
                    if isinstance(x, ast.Return):
                        return "return-element" if isinstance(x.value, ast.Name) and x.value.id == var else "return-other"
                    if isinstance(x, ast.If):
                        t = truth(x.test, val, opt)
                        if t is None:
                            return "unknown"
                        r = run_block(x.body if t else x.orelse, val, opt)
                        if r != "fallthrough":
                            return r
                        continue
                    if isinstance(x, (ast.Expr, ast.Pass)):
                        continue
                    return "unknown"
                return "fallthrough"
            table = {}
            for opt in (False, True):
                for val in ("none", "falsy", "truthy"):
                    table[(opt, val)] = run_block(rest, val, opt)
            wrong = [(o, v, r) for (o, v), r in sorted(table.items()) if r != ("raise" if (not o and v == "none") else "return-element")]
            ok = not wrong
            if wrong:
                o, v, r = wrong[0]
                why = "for a%s array and an element that is %s it %s" % (
                    "n OPTIONAL" if o else " non-OPTIONAL", {"none": "unset (None)", "falsy": "set to a false value such as 0, 0.0, False or ''", "truthy": "set"}[v],
                    {"raise": "raises", "return-element": "returns the element", "return-other": "returns something else", "unknown": "does something the rule cannot follow",
                     "fallthrough": "returns nothing"}[r])
    res.add("R6.unset_needs_optional", "R6|%s|ARRAY.__getitem__|optional" % REL, "%s:%d" % (REL, gi.lineno if gi else 1), ok,
            "reading an element raises exactly when the array is not OPTIONAL and the element is unset; any set value, also 0 / False / '', is returned" if ok else
            "ARRAY.__getitem__: %s" % why)
    res.info["classes"] = {c: sorted(methods[c]) for c in CLASSES}
