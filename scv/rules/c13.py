"""C13 — the instance manager stays consistent under any sequence of operations (structural clauses).

 R1 pairing     every structural mutation of the insertion-ordered array (master) is paired, on every path of the same
                function, with the corresponding mutation of the id map (sortedMaster) and vice versa; nobody else mutates them
 R2 indices     MgrNodeArray::Insert/Remove renumber every moved node from the touched position to the end, with the loop
                variable; Append/Insert(node) of the array reach the renumbering Insert
 R3 max id      maxFileId is only ever written -1 (empty manager), maxFileId+1, or an instance id known to be larger
 R4 append      ids in Append: the duplicate-id branch assigns a fresh id; the look-up, the max update and the map key use the
                id the instance carries *at that moment* (no stale copy); NextFileId is max+1
 R5 delete      Delete erases the id and the array slot of the same node, reading both before the node is destroyed
 R6 bounds      GenNodeArray::Insert/Remove/Check: every store into _buf is inside the buffer (difference constraints
                over _bufsize, _count, index)
 R7 count       _count changes by exactly one per Insert/Remove and is zeroed by the clear functions; InstanceCount is _count
 R8 look-ups    FindFileId returns the mapped node of exactly the requested id; name look-ups scan from the start index to
                the count and return the first match
"""
import re
from ir import walk, strip, expr_str

PID = "C13"
UNITS = dict(components={"clstepcore", "clutils", "cleditor", "cllazyfile", "cldai"})
LEVEL_TEXT = "other"
TECHNIQUE = ("static analysis: paired-update (dominance / post-dominance) rules on the two containers of InstMgr, who-may-write "
             "over the whole program, stale-copy dataflow on file ids in Append, renumbering-loop shape, difference-constraint "
             "bounds check of GenNodeArray, writer tables for maxFileId and _count")
EXPLANATION = (
    "Structural necessary conditions of the manager's consistency, decided on the CFG/AST of every function of the five "
    "libraries: (R1) in each function that adds to / removes from / clears InstMgr::master the same class of mutation of "
    "InstMgr::sortedMaster dominates or post-dominates it (and conversely), and no function outside InstMgr touches either "
    "member; (R2) the renumbering loops of MgrNodeArray::Insert/Remove start at the inserted/removed position, run to _count and "
    "store the loop variable; MgrNodeArray::Append/Insert(node) resolve to MgrNodeArray::Insert(node,int); (R3) writers of "
    "maxFileId; (R4) reaching-definition style check that no copy of an instance's file id is used after a later "
    "StepFileId(int) call could have changed the id (look-up argument, max update, map key), the duplicate branch reaches the "
    "insertions only through a fresh id, NextFileId returns maxFileId = maxFileId + 1; (R5) order of reads and destruction in "
    "Delete; (R6) stores into GenNodeArray::_buf are within _bufsize given the guards and Check() calls that dominate them; "
    "(R7) writers of _count; (R8) shape of the look-up functions. "
    "(R3b) NextFileId never returns the value Append() reads as \"no id assigned\" (interval over the constant writers of maxFileId). (R5b) nothing that the id / slot getters read through the node is overwritten on the node before Delete() calls them. Not decided: the invariant over operation histories itself (count/order/look-up exactness after arbitrary sequences) — "
    "that quantifies over run-time histories; these rules only show that each operation keeps the two containers, the cached "
    "indices and the high-water mark in step.")

MASTER = "InstMgr::master"
SORTED = "InstMgr::sortedMaster"
ARRAY_MUT = {"Append": "add", "Insert": "add", "Remove": "remove", "ClearEntries": "clear", "DeleteEntries": "clear"}
MAP_MUT = {"insert": "add", "emplace": "add", "operator[]": "add", "erase": "remove", "clear": "clear"}


def stmt_pos(f, n):
    """CFG position of the first element evaluated inside statement n"""
    for x in walk(n):
        p = f.cfg.pos.get(x["i"])
        if p is not None and x is not n:
            # the earliest element of the statement in its block
            best = p
            for y in walk(n):
                q = f.cfg.pos.get(y["i"])
                if q is not None and q[0] == p[0] and q[1] < best[1]:
                    best = q
            return best
    return f.cfg.locate(n)


def norm(e):
    return re.sub(r"[\s()]|this->|this\.", "", expr_str(strip(e)) if e is not None else "")


def member_of(n, q):
    """does expression n denote (a dereference of) the member q of this?"""
    n = strip(n)
    while n is not None and n["k"] in ("Unary", "Paren") and n.get("ch"):
        n = strip(n["ch"][0])
    return n is not None and n["k"] == "Member" and n.get("q") == q


def mutations(f):
    """[(node, container, class, method)] for the two containers in function f"""
    out = []
    for c in f.walk_all():
        if c["k"] != "Call" or not c.get("ch"):
            continue
        short = (c.get("fn") or "").split("::")[-1]
        obj = c["ch"][0]
        if member_of(obj, MASTER) and short in ARRAY_MUT:
            out.append((c, "master", ARRAY_MUT[short], short))
        elif member_of(obj, SORTED) and short in MAP_MUT:
            if short == "operator[]":
                # only as the target of an assignment
                p = f.parent.get(c["i"])
                while p is not None and p["k"] in ("Cast", "Paren"):
                    p = f.parent.get(p["i"])
                if p is None or not (p["k"] == "Assign" and strip(p["ch"][0]) is c):
                    continue
            out.append((c, "sortedMaster", MAP_MUT[short], short))
    return out


def r1_pairing(prog, res):
    n_fn = 0
    owners = set()
    for f in prog.all_functions():
        muts = mutations(f)
        touches = [x for x in f.walk_all() if x["k"] == "Member" and x.get("q") in (MASTER, SORTED)]
        if touches and f.cls != "InstMgr" and not f.name.startswith("InstMgr::"):
            res.add("R1.who_writes", "R1|%s|%s|touches-containers" % (f.relfile(), f.name), f.where(touches[0]), False,
                    "%s, not a member of InstMgr, reaches into %s" % (f.name, touches[0].get("q")))
        if not muts:
            continue
        n_fn += 1
        owners.add(f.name)
        cfg = f.cfg
        for (node, cont, cls, meth) in muts:
            other = [m for m in muts if m[1] != cont and m[2] == cls]
            pos = cfg.locate(node) if cfg else None
            ok = False
            if cfg and other:
                ids = {m[0]["i"] for m in other}
                ok = any(cfg.dominates(cfg.locate(m[0]), pos) or cfg.postdominates(cfg.locate(m[0]), pos) for m in other)
                if not ok:
                    # collectively: no path from the entry to here, or from here to the exit, avoids all of them
                    before = not cfg.reaches((cfg.entry, -1), pos, lambda e: e["i"] in ids)
                    ends = cfg.paths_avoiding(pos, lambda e: e["i"] in ids)
                    after = cfg.exit not in ends and not any(not cfg.succ[b] for b in ends)
                    ok = before or after
            res.add("R1.dual_update", "R1|%s|%s|%s.%s" % (f.relfile(), f.name, cont, meth), f.where(node), ok,
                    "%s.%s() is paired with %s on every path" % (cont, meth, "/".join(sorted({"%s.%s" % (m[1], m[3]) for m in other}))) if ok else
                    "%s.%s() (%s) has no matching '%s' of the other container on every path through it: the array and the id map go out of step" %
                    (cont, meth, cls, cls))
    res.floor("R1", "functions mutating the containers", n_fn, 5)
    res.info["container_mutators"] = sorted(owners)


def r2_indices(prog, res):
    for name, base_call in (("MgrNodeArray::Insert", "GenNodeArray::Insert"), ("MgrNodeArray::Remove", "GenNodeArray::Remove")):
        cands = [f for f in prog.fn(name) if len(f.params) == (2 if name.endswith("Insert") else 1)]
        if len(cands) != 1:
            res.broke("anchor vanished: %s" % name)
            continue
        f = cands[0]
        base = [c for c in f.calls() if (c.get("fn") or "") == base_call and not c.get("virt")]
        loops = [x for x in f.walk() if x["k"] == "For"]
        if len(base) != 1 or len(loops) != 1:
            res.add("R2.renumber", "R2|%s|%s|shape" % (f.relfile(), name), f.where(), False,
                    "%s must call %s once (non-virtually) and renumber in one loop; found %d calls, %d loops" % (name, base_call, len(base), len(loops)))
            continue
        lp = loops[0]
        init, cond, inc, body = (lp["ch"] + [None] * 4)[:4]
        # position the base call works on
        if name.endswith("Insert"):
            # AssignedIndex = GenNodeArray::Insert(gn, index): start must be the returned index
            par = f.parent.get(base[0]["i"])
            while par is not None and par["k"] == "Cast":
                par = f.parent.get(par["i"])
            start_var = par.get("d") if par is not None and par["k"] == "Var" else None
            touched = "the index returned by GenNodeArray::Insert"
        else:
            a = strip(base[0]["ch"][-1])
            start_var = a.get("d") if a is not None and a["k"] == "Ref" else None
            touched = "the removed index"
        ini = None
        ivar = None
        for x in walk(init) if init is not None else []:
            if x["k"] == "Assign" and x.get("op") == "=":
                ivar = strip(x["ch"][0]).get("d")
                ini = strip(x["ch"][1])
            elif x["k"] == "Var" and x.get("ch"):
                ivar = x["d"]
                ini = strip(x["ch"][0])
        ok_start = ini is not None and ini["k"] == "Ref" and ini.get("d") == start_var and start_var is not None
        c = strip(cond)
        ok_end = c is not None and c["k"] == "Binary" and c.get("op") == "<" and strip(c["ch"][0]).get("d") == ivar and \
            expr_str(strip(c["ch"][1])).endswith("_count")
        ok_inc = inc is not None and any(x["k"] == "Unary" and x.get("op") in ("post++", "pre++") and strip(x["ch"][0]).get("d") == ivar for x in walk(inc))
        sets = [x for x in walk(body) if x["k"] == "Call" and (x.get("fn") or "").endswith("::ArrayIndex") and len(x["ch"]) == 2]
        ok_set = len(sets) == 1 and strip(sets[0]["ch"][1]).get("d") == ivar and \
            re.search(r"_buf\[%s\]" % re.escape(strip(sets[0]["ch"][1]).get("n", "?")), expr_str(sets[0]["ch"][0])) is not None
        after = f.cfg.dominates(f.cfg.locate(base[0]), stmt_pos(f, lp)) if f.cfg else False
        ok = ok_start and ok_end and ok_inc and ok_set and after
        res.add("R2.renumber", "R2|%s|%s|renumber-loop" % (f.relfile(), name), f.where(lp), ok,
                "after the base operation every node from %s to _count-1 is told its new index" % touched if ok else
                "renumbering loop of %s is off: starts at %s [%s], runs to _count [%s], steps by one [%s], stores the loop variable into the node at that slot [%s], after the base call [%s]" %
                (name, touched, ok_start, ok_end, ok_inc, ok_set, after))
        if name.endswith("Remove"):
            # same guard as the base: nothing is renumbered when nothing was removed
            g = [a for a in f.ancestors(lp) if a["k"] == "If"]
            gb = [a for a in f.ancestors(base[0]) if a["k"] == "If"]
            ok = bool(g) and bool(gb) and g[0] is gb[0] and norm(g[0]["ch"][0]) == "0<=index&&index<_count"
            res.add("R2.remove_guard", "R2|%s|%s|guard" % (f.relfile(), name), f.where(lp), ok,
                    "removal and renumbering happen under 0 <= index < _count" if ok else "MgrNodeArray::Remove lost its range guard")
    # Append / Insert(gn) reach the renumbering Insert
    target = [f for f in prog.fn("MgrNodeArray::Insert") if len(f.params) == 2]
    tkey = target[0].key if target else None
    n = 0
    for name in ("MgrNodeArray::Append", "MgrNodeArray::Insert"):
        for f in prog.fn(name):
            if len(f.params) != 1:
                continue
            n += 1
            cs = [c for c in f.calls() if c.get("fk") == tkey]
            ok = bool(cs) and all(expr_str(strip(c["ch"][-1])).endswith("_count") for c in cs)
            res.add("R2.append_reaches_insert", "R2|%s|%s|reaches-renumbering-insert" % (f.relfile(), name), f.where(), ok,
                    "%s(node) calls MgrNodeArray::Insert(node, _count): the appended node learns its index" % name if ok else
                    "%s(node) does not go through MgrNodeArray::Insert(node, _count): the appended node keeps a stale array index" % name)
    res.floor("R2", "one-argument append/insert overrides of MgrNodeArray", n, 2)
    # InstMgr::Append uses the array through its MgrNodeArray type
    f = prog.one("InstMgr::Append")
    if f is not None:
        cs = [c for c in f.calls() if member_of(c["ch"][0], MASTER)] if True else []
        ok = bool(cs) and all((c.get("fn") or "").startswith("MgrNodeArray::") for c in cs)
        res.add("R2.append_reaches_insert", "R2|src/clstepcore/instmgr.cc|InstMgr::Append|array-type", f.where(cs[0]) if cs else f.where(), ok,
                "InstMgr::Append adds the node through MgrNodeArray (the renumbering subclass)" if ok else
                "InstMgr::Append does not add through MgrNodeArray")


def r3_max(prog, res):
    n = 0
    const_writes = []
    for f in prog.all_functions():
        sites = []
        for x in f.walk_all():
            if x["k"] in ("Assign", "CompoundAssign") and strip(x["ch"][0]) is not None and strip(x["ch"][0])["k"] == "Member" and strip(x["ch"][0]).get("q") == "InstMgr::maxFileId":
                sites.append((x, strip(x["ch"][1]), x.get("op")))
            elif x["k"] == "Unary" and x.get("op") in ("post++", "pre++", "post--", "pre--") and strip(x["ch"][0]) is not None and strip(x["ch"][0]).get("q") == "InstMgr::maxFileId":
                sites.append((x, None, x.get("op")))
        for ini in f.raw.get("inits", []):
            if ini.get("member") == "InstMgr::maxFileId":
                for c in ini.get("ch", []):
                    if c is not None:
                        sites.append((c, strip(c), "init"))
        for (x, rhs, op) in sites:
            n += 1
            kind = None
            if rhs is not None and isinstance(rhs.get("val"), int):
                const_writes.append(rhs["val"])
            elif rhs is not None and rhs["k"] == "Unary" and rhs.get("op") == "-" and isinstance((strip(rhs["ch"][0]) or {}).get("val"), int):
                const_writes.append(-strip(rhs["ch"][0])["val"])
            if rhs is not None and rhs.get("val") == -1 or (rhs is not None and rhs["k"] == "Unary" and rhs.get("op") == "-" and strip(rhs["ch"][0]).get("val") == 1):
                kind = "reset to -1 (empty manager)"
                ok = True
            elif rhs is not None and norm(rhs) == "maxFileId+1":
                kind = "next id = max + 1"
                ok = True
            elif op in ("post++", "pre++"):
                kind = "increment"
                ok = True
            elif rhs is not None and rhs["k"] == "Int" and "val" in rhs and any(
                    a["k"] == "If" and any(y is x for y in walk(a["ch"][1])) and strip(a["ch"][0]) is not None and
                    strip(a["ch"][0])["k"] == "Binary" and strip(a["ch"][0]).get("op") == "<" and
                    norm(strip(a["ch"][0])["ch"][0]) == "maxFileId" and "val" in (strip(strip(a["ch"][0])["ch"][1]) or {}) and
                    strip(strip(a["ch"][0])["ch"][1])["val"] - 1 <= rhs["val"] for a in f.ancestors(x)):
                kind = "raised to the constant %s under a guard that it is not above that" % rhs["val"]
                ok = True
            else:
                # an instance id, under a guard that it is larger than the current maximum
                conds = [a for a in f.ancestors(x) if a["k"] == "If"]
                ok = False
                for a in conds:
                    c = strip(a["ch"][0])
                    if c is not None and c["k"] == "Binary" and c.get("op") == ">" and rhs is not None and \
                            expr_str(strip(c["ch"][0])) == expr_str(rhs) and re.search(r"MaxFileId\(\)|maxFileId", expr_str(strip(c["ch"][1]))):
                        # x must be in the true branch
                        if any(y is x for y in walk(a["ch"][1])):
                            ok = True
                kind = "raised to %s under the guard %s > max" % (expr_str(rhs), expr_str(rhs)) if ok else None
            res.add("R3.max_writers", "R3|%s|%s|maxFileId<-%s" % (f.relfile(), f.name, re.sub(r"\s+", "", expr_str(rhs))[:40] if rhs is not None else op), f.where(x), ok,
                    "maxFileId %s" % kind if ok else
                    "maxFileId is assigned %s without a guard that this is larger than the current maximum: the high-water mark can drop below a live id" %
                    (expr_str(rhs) if rhs is not None else op))
    res.floor("R3", "writers of maxFileId", n, 5)
    f = prog.one("InstMgr::NextFileId")
    if f is None:
        res.broke("anchor vanished: InstMgr::NextFileId")
    else:
        rets = [x for x in f.walk() if x["k"] == "Return"]
        ok = len(rets) == 1 and norm(rets[0]["ch"][0]) in ("maxFileId=maxFileId+1", "++maxFileId")
        res.add("R3.next_is_fresh", "R3|include/clstepcore/instmgr.h|InstMgr::NextFileId|max+1", f.where(), ok,
                "NextFileId() raises the high-water mark by one and returns it" if ok else
                "NextFileId() does not return `maxFileId = maxFileId + 1`: %s" % [expr_str(r) for r in rets])
        # the id handed out is never the value Append() reads as "no id assigned"
        lb = min([v for v in const_writes if v is not None] or [0])
        for st in (f.body.get("ch") or []):
            if st is not None and st["k"] == "If":
                c = strip(st["ch"][0])
                if c is not None and c["k"] == "Binary" and c.get("op") == "<" and norm(c["ch"][0]) == "maxFileId" and "val" in (strip(c["ch"][1]) or {}):
                    C = strip(c["ch"][1])["val"]
                    ks = [strip(y["ch"][1]).get("val") for y in walk(st["ch"][1]) if y["k"] == "Assign" and norm(y["ch"][0]) == "maxFileId"
                          and strip(y["ch"][1]) is not None]
                    if ks and all(k is not None for k in ks) and (len(st["ch"]) < 3 or st["ch"][2] is None):
                        lb = max(lb, min(C, min(ks)))
        lb_ret = lb + 1 if ok else None
        app = prog.one("InstMgr::Append")
        sentinels = []
        if app is not None:
            for x in app.walk():
                if x["k"] == "If":
                    c = strip(x["ch"][0])
                    if c is not None and c["k"] == "Binary" and c.get("op") == "==" and is_id_getter(strip(c["ch"][0])) and "val" in (strip(c["ch"][1]) or {}) and \
                            any(is_id_setter(y) for y in walk(x["ch"][1])):
                        sentinels.append(strip(c["ch"][1])["val"])
        if not sentinels:
            res.broke("R3: the `no id assigned` test of InstMgr::Append was not found")
        else:
            okk = lb_ret is not None and all(lb_ret > s_ for s_ in sentinels)
            res.add("R3.next_is_not_the_unset_value", "R3|include/clstepcore/instmgr.h|InstMgr::NextFileId|>unset", f.where(), okk,
                    "ids handed out are >= %s, above the value %s that Append() reads as `no id assigned`" % (lb_ret, sentinels) if okk else
                    "maxFileId can be %s (its smallest constant writer), so NextFileId() can hand out %s, the value InstMgr::Append() reads as `no id "
                    "assigned`: an instance that got it is given a second id and a second node when it is appended again" % (lb, lb_ret))


def r3_increment_always_recomputed(prog, res, rule="R3.increment_always_recomputed"):
    """The id increment belongs to one read: STEPfile::SetFileIdIncrement() is called at the start of every AppendFile and must leave
    `_fileIdIncr` as a function of the manager's state *now* - every path through it assigns the member.  A path that keeps the old
    value (`if( MaxFileId() >= 0 ) _fileIdIncr = ...;` without the reset for an empty manager) shifts every id of a file that is read
    into the cleared manager after an earlier append: a working-session file re-opened in the same session comes back as #2001 ..."""
    g = prog.one("STEPfile::SetFileIdIncrement")
    if g is None or g.cfg is None:
        res.broke("anchor vanished: STEPfile::SetFileIdIncrement")
        return
    cfg = g.cfg
    asg = {x["i"] for x in g.walk() if x["k"] == "Assign" and strip(x["ch"][0]) is not None and strip(x["ch"][0])["k"] == "Member" and
           strip(x["ch"][0]).get("n") == "_fileIdIncr"}
    if not asg:
        res.broke("%s: SetFileIdIncrement no longer assigns _fileIdIncr" % rule)
        return
    ends = cfg.paths_avoiding((cfg.entry, -1), lambda nd: any(y["i"] in asg for y in walk(nd)))
    ok = cfg.exit not in ends
    res.add(rule, "%s|src/cleditor/STEPfile.inline.cc|STEPfile::SetFileIdIncrement|every-path" % rule.split(".")[0], g.where(), ok,
            "every path through SetFileIdIncrement assigns _fileIdIncr (%d assignment(s))" % len(asg) if ok else
            "a path through SetFileIdIncrement leaves _fileIdIncr as an earlier append computed it: the next file read into the (emptied) "
            "manager has every id and reference shifted by that stale increment")


def r3_clear_resets_max(prog, res, rule="R3.cleared_manager_is_recognised_empty"):
    """STEPfile decides whether ids of the next file need an offset by asking `instances().MaxFileId() < K` (empty manager => no
    offset).  Every InstMgr method that empties the master array must therefore leave maxFileId below K - otherwise a file read
    into a manager that was just cleared (ReadWorkingFile / ReadExchangeFile re-opened in one session) gets every id shifted."""
    g = prog.one("STEPfile::SetFileIdIncrement")
    if g is None:
        res.broke("anchor vanished: STEPfile::SetFileIdIncrement")
        return
    K = None
    for x in g.walk():
        if x["k"] == "If":
            c = strip(x["ch"][0])
            if c is not None and c["k"] == "Binary" and c.get("op") in ("<", "<=", ">=", ">") and "MaxFileId" in expr_str(c["ch"][0]) and isinstance((strip(c["ch"][1]) or {}).get("val"), int):
                # `max < K` (empty) or its complement `max >= K` (filled)
                K = strip(c["ch"][1])["val"] + (1 if c["op"] in ("<=", ">") else 0)
    if K is None:
        res.broke("%s: the emptiness test `MaxFileId() < K` of STEPfile::SetFileIdIncrement was not found" % rule)
        return
    n = 0
    for f in prog.all_functions():
        if not f.name.startswith("InstMgr::") or f.cfg is None or f.name.split("::")[-1].startswith("~"):
            continue          # (after the destructor nobody can ask the manager anything)
        clears = [m for m in mutations(f) if m[1] == "master" and m[2] == "clear"]
        if not clears:
            continue
        n += 1
        resets = [x for x in f.walk() if x["k"] == "Assign" and strip(x["ch"][0]) is not None and strip(x["ch"][0]).get("q") == "InstMgr::maxFileId"]
        vals = []
        for x in resets:
            r = strip(x["ch"][1])
            v = r.get("val") if r is not None else None
            if v is None and r is not None and r["k"] == "Unary" and r.get("op") == "-":
                v0 = (strip(r["ch"][0]) or {}).get("val")
                v = -v0 if isinstance(v0, int) else None
            vals.append(v)
        ok = bool(resets) and all(isinstance(v, int) and v < K for v in vals) and \
            all(any(f.cfg.postdominates(f.cfg.locate(x), f.cfg.locate(c[0])) or f.cfg.dominates(f.cfg.locate(x), f.cfg.locate(c[0])) for x in resets) for c in clears)
        res.add(rule, "%s|%s|%s|maxFileId" % (rule.split(".")[0], f.relfile(), f.name), f.where(clears[0][0]), ok,
                "%s empties the manager and sets maxFileId to %s (< %d), which STEPfile::SetFileIdIncrement reads as `empty`" % (f.name, vals, K) if ok else
                "%s empties the manager but leaves maxFileId as it was: STEPfile::SetFileIdIncrement (`MaxFileId() < %d`) takes the cleared manager "
                "for a filled one and shifts every id of the file read next (a working-session file re-opened in the same session comes back as "
                "#2001, #2002, ...)" % (f.name, K))
    res.floor(rule, "InstMgr methods that empty the master array", n, 2)


GETTERS = ("SDAI_Application_instance::StepFileId", "SDAI_Application_instance::GetFileId", "MgrNode::GetFileId")


def is_id_getter(n):
    n = strip(n)
    return n is not None and n["k"] == "Call" and (n.get("fn") or "") in GETTERS and len(n.get("ch") or []) == 1


def is_id_setter(n):
    return n is not None and n["k"] == "Call" and (n.get("fn") or "") in ("SDAI_Application_instance::StepFileId", "SDAI_Application_instance::SetFileId") \
        and len(n.get("ch") or []) == 2


def r4_append(prog, res, fn_name="InstMgr::Append", selftest=False):
    f = prog.one(fn_name)
    if f is None:
        res.broke("anchor vanished: %s" % fn_name)
        return
    cfg = f.cfg
    rel = f.relfile()
    setters = [c for c in f.calls() if is_id_setter(c)]
    # --- (a) stale copies of the id
    copies = {}
    for x in f.walk():
        if x["k"] == "Var" and x.get("ch") and is_id_getter(x["ch"][0]):
            copies.setdefault(x["d"], x["n"])
        if x["k"] == "Assign" and x.get("op") == "=" and strip(x["ch"][0]) is not None and strip(x["ch"][0])["k"] == "Ref" and \
                strip(x["ch"][0]).get("dk") in ("local", "param") and (is_id_getter(x["ch"][1]) or
                                                                        (strip(x["ch"][1]) is not None and strip(x["ch"][1])["k"] == "Call" and (strip(x["ch"][1]).get("fn") or "").endswith("NextFileId"))):
            copies.setdefault(strip(x["ch"][0])["d"], strip(x["ch"][0])["n"])
    n_uses = 0
    for d, name in sorted(copies.items()):
        defs = [x for x in f.walk() if (x["k"] == "Var" and x.get("d") == d and x.get("ch")) or
                (x["k"] == "Assign" and strip(x["ch"][0]) is not None and strip(x["ch"][0]).get("d") == d)]

        def redefines(node, d=d):
            if node["k"] == "DeclStmt":
                return any(v is not None and v["k"] == "Var" and v.get("d") == d for v in node.get("ch") or [])
            return (node["k"] == "Var" and node.get("d") == d) or (node["k"] == "Assign" and strip(node["ch"][0]) is not None and strip(node["ch"][0]).get("d") == d)
        for u in f.walk():
            if u["k"] != "Ref" or u.get("d") != d:
                continue
            par = f.parent.get(u["i"])
            if par is not None and par["k"] == "Assign" and strip(par["ch"][0]) is u:
                continue
            upos = cfg.locate(u)
            for s in setters:
                a = strip(s["ch"][1])
                if a is not None and a["k"] == "Ref" and a.get("d") == d:
                    continue        # the setter installs exactly this copy: it stays current
                if cfg.reaches(cfg.locate(s), upos, redefines):
                    n_uses += 1
                    res.add("R4.stale_id_copy", "R4|%s|%s|copy-%s-used@%s" % (rel, fn_name, name, (par or u)["k"]), f.where(u), False,
                            "'%s' holds the file id read before the instance was renumbered at line %d and is used afterwards without being refreshed: "
                            "the look-up, the high-water mark or the map key then refer to the old id" % (name, s["l"]))
                    break
    res.add("R4.stale_id_copy", "R4|%s|%s|no-stale-copy" % (rel, fn_name), f.where(), n_uses == 0,
            "no copy of the instance's file id survives a later StepFileId(int) call (%d local copies, %d renumbering calls examined)" % (len(copies), len(setters))
            if n_uses == 0 else "%d uses of a stale id copy" % n_uses)
    if selftest:
        return n_uses
    # --- (b) duplicate branch: from a successful look-up the insertions are reached only through a fresh id
    finds = [c for c in f.calls() if (c.get("fn") or "").endswith("::FindFileId")]
    adds = [m for m in mutations(f) if m[2] == "add"]
    if len(finds) != 1 or len(adds) < 2:
        res.broke("%s: expected one FindFileId and two insertions, found %d / %d" % (fn_name, len(finds), len(adds)))
        return
    find = finds[0]
    # the If testing the look-up result
    par = f.parent.get(find["i"])
    while par is not None and par["k"] == "Cast":
        par = f.parent.get(par["i"])
    res_var = strip(par["ch"][0]).get("d") if par is not None and par["k"] == "Assign" else (par.get("d") if par is not None and par["k"] == "Var" else None)
    dup_if = None
    for x in f.walk():
        if x["k"] == "If":
            c = strip(x["ch"][0])
            if c is not None and c["k"] == "Ref" and c.get("d") == res_var and cfg.dominates(cfg.locate(find), cfg.locate(x["ch"][0])):
                dup_if = x
                break
    if dup_if is None:
        res.add("R4.duplicate_gets_fresh_id", "R4|%s|%s|duplicate-branch" % (rel, fn_name), f.where(find), False,
                "the result of the duplicate look-up is not tested")
    else:
        then = dup_if["ch"][1]
        first = None
        for x in walk(then):
            if cfg.pos.get(x["i"]) is not None:
                first = x
                break

        def fresh(node):
            return is_id_setter(node) and strip(node["ch"][1]) is not None and strip(node["ch"][1])["k"] == "Call" and (strip(node["ch"][1]).get("fn") or "").endswith("NextFileId")
        bad = []
        b0 = cfg.locate(first)
        start = (b0[0], b0[1] - 1)
        for (node, cont, cls, meth) in adds:
            if cfg.reaches(start, cfg.locate(node), fresh):
                bad.append("%s.%s" % (cont, meth))
        ok = not bad
        res.add("R4.duplicate_gets_fresh_id", "R4|%s|%s|duplicate-branch" % (rel, fn_name), f.where(dup_if), ok,
                "when the id is already taken by another instance, both insertions are reached only after StepFileId(NextFileId())" if ok else
                "with a duplicate id, %s can be reached without giving the instance a fresh id: two live instances share an id and the map keeps only one" % ", ".join(bad))
    # --- (c) look-up argument / max update / map key are the instance's current id
    def current_id_expr(e, what, where):
        e = strip(e)
        if is_id_getter(e):
            o = strip(e["ch"][0])
            return True, "reads the id at that moment (%s)" % expr_str(e)
        if e is not None and e["k"] == "Ref" and e.get("d") in copies:
            return True, "uses the copy '%s' (checked by the stale-copy rule)" % e["n"]
        return False, "%s uses %s, which is not the instance's file id" % (what, expr_str(e))
    ok, msg = current_id_expr(find["ch"][-1], "the duplicate look-up", find)
    res.add("R4.current_id", "R4|%s|%s|lookup-argument" % (rel, fn_name), f.where(find), ok, "duplicate look-up " + msg if ok else msg)
    keyed = [m for m in adds if m[1] == "sortedMaster"]
    for (node, cont, cls, meth) in keyed:
        key = node["ch"][1] if len(node["ch"]) > 1 else None
        if meth != "operator[]" and key is not None:
            key = None
        ok, msg = current_id_expr(key, "the map key", node) if key is not None else (False, "map insertion without a recognisable key")
        # the node stored is the node appended to the array
        par = f.parent.get(node["i"])
        while par is not None and par["k"] in ("Cast", "Paren"):
            par = f.parent.get(par["i"])
        val = strip(par["ch"][1]) if par is not None and par["k"] == "Assign" else None
        arr = [m for m in adds if m[1] == "master"]
        same = val is not None and arr and strip(arr[0][0]["ch"][-1]) is not None and val.get("d") == strip(arr[0][0]["ch"][-1]).get("d")
        # key read from that node or from the instance it wraps
        if ok and is_id_getter(key):
            o = strip(strip(key)["ch"][0])
            okobj = o is not None and o["k"] == "Ref" and (o.get("d") == (val or {}).get("d") or o.get("dk") == "param")
            ok = ok and okobj
            if not okobj:
                msg = "the map key is read from %s, not from the node being inserted or its instance" % expr_str(o)
        res.add("R4.current_id", "R4|%s|%s|map-key" % (rel, fn_name), f.where(node), ok and same,
                "the node appended to the array is stored in the map under the id its instance carries then: " + msg if ok and same else
                (msg if not ok else "the node stored in the map is not the node appended to the array"))
    # max update happens after the last renumbering
    mx = [x for x in f.walk() if x["k"] == "Assign" and strip(x["ch"][0]) is not None and strip(x["ch"][0]).get("q") == "InstMgr::maxFileId"]
    for x in mx:
        late = [s for s in setters if cfg.reaches(cfg.locate(x), cfg.locate(s))]
        ok = not late
        res.add("R4.max_after_renumbering", "R4|%s|%s|max-update" % (rel, fn_name), f.where(x), ok,
                "the high-water mark is raised after the instance got its final id" if ok else
                "the instance can still be renumbered (line %d) after the high-water mark was raised" % late[0]["l"])
    # same instance twice: returns without touching anything
    rets0 = [x for x in f.walk() if x["k"] == "Return" and cfg.dominates(cfg.locate(find), cfg.locate(x)) and
             not any(cfg.dominates(cfg.locate(m[0]), cfg.locate(x)) for m in adds)]
    for r in rets0:
        conds = [a for a in f.ancestors(r) if a["k"] == "If"]
        p0 = f.params[0]["d"] if f.params else None

        def cmp_with_param(c):
            for x in walk(c):
                if x["k"] == "Binary" and x.get("op") == "==" and any(strip(y) is not None and strip(y)["k"] == "Ref" and strip(y).get("d") == p0 for y in x["ch"]):
                    return True
            return False
        ok = any(cmp_with_param(a["ch"][0]) for a in conds)
        res.add("R4.same_instance_twice", "R4|%s|%s|early-return" % (rel, fn_name), f.where(r), ok,
                "the only early return is for the very instance that already carries the id" if ok else
                "Append can return without inserting under a condition other than 'same instance already present'")


def r5_delete(prog, res):
    cands = [f for f in prog.fn("InstMgr::Delete") if f.params and "MgrNode" in f.tyname(f.params[0]["t"])]
    if len(cands) != 1:
        res.broke("anchor vanished: InstMgr::Delete(MgrNode*)")
        return
    f = cands[0]
    cfg = f.cfg
    p = f.params[0]["d"]
    muts = mutations(f)
    er = [m for m in muts if m[1] == "sortedMaster" and m[2] == "remove"]
    rm = [m for m in muts if m[1] == "master" and m[2] == "remove"]
    dels = [x for x in f.walk() if x["k"] == "Delete" and strip(x["ch"][0]) is not None and strip(x["ch"][0]).get("d") == p]
    if len(er) != 1 or len(rm) != 1 or len(dels) != 1:
        res.add("R5.delete_shape", "R5|src/clstepcore/instmgr.cc|InstMgr::Delete(MgrNode*)|shape", f.where(), False,
                "Delete(node) must erase the id once, remove the slot once and destroy the node once (found %d/%d/%d)" % (len(er), len(rm), len(dels)))
        return
    key = strip(er[0][0]["ch"][1])
    ok = is_id_getter(key) and strip(key["ch"][0]).get("d") == p
    res.add("R5.erases_own_id", "R5|src/clstepcore/instmgr.cc|InstMgr::Delete(MgrNode*)|erase-key", f.where(er[0][0]), ok,
            "the map entry erased is the one of the node's own id" if ok else "the map entry erased (%s) is not keyed by the id of the node being deleted" % expr_str(key))
    idx = strip(rm[0][0]["ch"][1])
    src = None
    if idx is not None and idx["k"] == "Ref":
        for x in f.walk():
            if x["k"] == "Var" and x.get("d") == idx.get("d") and x.get("ch"):
                src = strip(x["ch"][0])
    else:
        src = idx
    ok = src is not None and src["k"] == "Call" and (src.get("fn") or "") == "MgrNode::ArrayIndex" and strip(src["ch"][0]).get("d") == p
    res.add("R5.removes_own_slot", "R5|src/clstepcore/instmgr.cc|InstMgr::Delete(MgrNode*)|slot", f.where(rm[0][0]), ok,
            "the array slot removed is the node's own cached index" if ok else "the array slot removed (%s) is not the cached index of the node being deleted" % expr_str(idx))
    # the id (and the slot) are read through the node: nothing the getters read may have been overwritten on the node before
    def getter_reads(call):
        out = set()
        for g in prog.all_functions():
            if g.key == call.get("fk"):
                for y in g.walk():
                    if y["k"] == "Member" and y.get("q") and y.get("ch") and strip(y["ch"][0]) is not None and strip(y["ch"][0])["k"] == "This":
                        out.add(y["q"])
        return out
    for what, node_ in (("id", key), ("slot", src)):
        if node_ is None or node_["k"] != "Call":
            continue
        reads = getter_reads(node_)
        user = er[0][0] if what == "id" else rm[0][0]
        clobber = [x for x in f.walk() if x["k"] == "Assign" and strip(x["ch"][0]) is not None and strip(x["ch"][0])["k"] == "Member" and
                   strip(x["ch"][0]).get("q") in reads and strip(strip(x["ch"][0])["ch"][0]) is not None and strip(strip(x["ch"][0])["ch"][0]).get("d") == p and
                   cfg.reaches(cfg.locate(x), cfg.locate(node_))]
        ok = not clobber
        res.add("R5.read_before_detach", "R5|src/clstepcore/instmgr.cc|InstMgr::Delete(MgrNode*)|%s-read-intact" % what, f.where(clobber[0]) if clobber else f.where(user), ok,
                "the node's %s is read (%s reads %s) before anything on the node is overwritten" % (what, node_.get("fn"), sorted(q_.split("::")[-1] for q_ in reads)) if ok else
                "`%s` is assigned before %s() reads it to find the %s to remove: the getter then answers for a node without instance (-1), the real "
                "entry stays in the container and points at the node that is about to be freed" % (expr_str(strip(clobber[0]["ch"][0])), node_.get("fn"), what))
    dpos = cfg.locate(dels[0])
    uses_after = [x for x in f.walk() if x["k"] == "Ref" and x.get("d") == p and x is not strip(dels[0]["ch"][0]) and cfg.reaches(dpos, cfg.locate(x))]
    ok = not uses_after and cfg.dominates(cfg.locate(er[0][0]), dpos) and cfg.dominates(cfg.locate(rm[0][0]), dpos)
    res.add("R5.destroy_last", "R5|src/clstepcore/instmgr.cc|InstMgr::Delete(MgrNode*)|destroy-last", f.where(dels[0]), ok,
            "the node is destroyed after its id and slot were read and removed" if ok else
            "the node is destroyed before the containers are updated (or used afterwards)")
    # Delete(instance) goes through the id look-up of that instance
    c2 = [g for g in prog.fn("InstMgr::Delete") if g is not f]
    for g in c2:
        cs = [c for c in g.calls() if (c.get("fn") or "") == "InstMgr::Delete"]
        ok = len(cs) == 1 and norm(cs[0]["ch"][-1]) == "FindFileIdse.StepFileId"
        res.add("R5.delete_by_instance", "R5|src/clstepcore/instmgr.cc|InstMgr::Delete(instance)|via-lookup", g.where(), ok,
                "Delete(instance) deletes the node found under the instance's id" if ok else
                "Delete(instance) no longer deletes FindFileId(se->StepFileId())")


# --------------------------------------------------------------------------- R6 bounds by difference constraints
class Facts:
    """Conjunction of facts  _bufsize >= term + c  with term in {'_count','index','0'}, plus  index <= _count + c  etc.
    Kept tiny on purpose: what GenNodeArray needs and nothing more."""
    def __init__(self):
        self.ge = {}      # term -> c : _bufsize >= term + c
        self.rel = set()  # ('index','<','_count') ...

    def copy(self):
        x = Facts()
        x.ge = dict(self.ge)
        x.rel = set(self.rel)
        return x

    def add_ge(self, term, c):
        self.ge[term] = max(self.ge.get(term, -10**9), c)

    def bufsize_ge(self, term, c):
        """is _bufsize >= term + c entailed?"""
        if self.ge.get(term, -10**9) >= c:
            return True
        # through index < _count / index >= _count relations
        if term == "index" and ("index", "<", "_count") in self.rel and self.ge.get("_count", -10**9) >= c - 1 + 1 - 1:
            # index <= _count - 1  =>  index + c <= _count + c - 1
            return self.ge.get("_count", -10**9) >= c - 1
        if term == "_count" and ("index", ">=", "_count") in self.rel and self.ge.get("index", -10**9) >= c:
            return True
        return False


def r6_bounds(prog, res):
    """Invariant assumed and re-established: _count <= _bufsize at entry of every member (checked for the writers of _count/_bufsize)."""
    chk = prog.one("GenNodeArray::Check")
    ins = [f for f in prog.fn("GenNodeArray::Insert") if len(f.params) == 2]
    rem = prog.one("GenNodeArray::Remove")
    if chk is None or len(ins) != 1 or rem is None:
        res.broke("anchor vanished: GenNodeArray::Check/Insert/Remove")
        return
    ins = ins[0]
    # Check(k): afterwards _bufsize > k.  Shape: if (k >= _bufsize) { _bufsize = (k + 1) * 2; newbuf = new[_bufsize]; copy _count elements; _buf = newbuf }
    ifs = [x for x in chk.walk() if x["k"] == "If"]
    okc = False
    why = "no growth branch"
    if ifs:
        c = norm(ifs[0]["ch"][0])
        grow = [x for x in walk(ifs[0]["ch"][1]) if x["k"] == "Assign" and strip(x["ch"][0]) is not None and strip(x["ch"][0]).get("n") == "_bufsize"]
        news = [x for x in walk(ifs[0]["ch"][1]) if x["k"] == "New"]
        sets = [x for x in walk(ifs[0]["ch"][1]) if x["k"] == "Assign" and strip(x["ch"][0]) is not None and strip(x["ch"][0]).get("n") == "_buf"]
        g = expr_str(strip(grow[0]["ch"][1])) if grow else ""
        big = False
        ge = strip(grow[0]["ch"][1]) if grow else None

        def plus_index(e):
            e = strip(e)
            while e is not None and e["k"] == "Paren":
                e = strip(e["ch"][0])
            return e is not None and e["k"] == "Binary" and e.get("op") == "+" and norm(e["ch"][0]) == "index" and (strip(e["ch"][1]).get("val") or 0) >= 1
        if ge is not None:
            while ge["k"] == "Paren":
                ge = strip(ge["ch"][0])
            if plus_index(ge):
                big = True
            elif ge["k"] == "Binary" and ge.get("op") == "*" and plus_index(ge["ch"][0]) and (strip(ge["ch"][1]).get("val") or 0) >= 1:
                big = True
        sized = bool(news) and any("_bufsize" in expr_str(x) for x in news)
        copies = [x for x in walk(ifs[0]["ch"][1]) if x["k"] == "Call" and (x.get("fn") or "").split("::")[-1] in ("memmove", "memcpy", "__builtin_memmove", "__builtin_memcpy")]
        copy_ok = bool(copies) and all(norm(x["ch"][2]).startswith("_count*sizeof") for x in copies)
        okc = c == "index>=_bufsize" and big and sized and bool(sets) and copy_ok
        why = "guard %s, new size %s, allocation sized by _bufsize: %s, old contents copied (_count elements): %s, _buf replaced: %s" % (c, g, sized, copy_ok, bool(sets))
    res.add("R6.check_grows", "R6|src/clutils/gennodearray.cc|GenNodeArray::Check|postcondition", chk.where(), okc,
            "after Check(k) the buffer holds more than k slots and still holds the first _count nodes" if okc else
            "Check(k) no longer guarantees _bufsize > k with the old contents kept: " + why)
    # ---- Insert: walk the structured body with facts
    def check_arg(call):
        a = re.sub(r"[\s()]|this->", "", expr_str(strip(call["ch"][-1])))
        m = re.fullmatch(r"(_count|index)(?:([+-])(\d+))?", a)
        if not m:
            return None
        c = int(m.group(3) or 0) * (1 if m.group(2) != "-" else -1)
        return m.group(1), c + 1           # _bufsize >= term + c + 1
    n_store = 0

    def visit(fn, stmts, facts, where_rule):
        nonlocal n_store
        for s in stmts:
            if s is None:
                continue
            if s["k"] == "Compound":
                visit(fn, s["ch"], facts, where_rule)
                continue
            if s["k"] == "If":
                c = re.sub(r"[\s()]|this->", "", expr_str(s["ch"][0]))
                ft, ff = facts.copy(), facts.copy()
                if c == "index<_count":
                    ft.rel.add(("index", "<", "_count"))
                    ff.rel.add(("index", ">=", "_count"))
                elif c in ("0<=index&&index<_count",):
                    ft.rel.add(("index", "<", "_count"))
                    ft.rel.add(("index", ">=", "0"))
                visit(fn, [s["ch"][1]], ft, where_rule)
                if len(s["ch"]) > 2 and s["ch"][2] is not None:
                    visit(fn, [s["ch"][2]], ff, where_rule)
                # join: keep only what both branches established
                for t in list(facts.ge):
                    pass
                both = {}
                for t in set(ft.ge) & set(ff.ge):
                    both[t] = min(ft.ge[t], ff.ge[t])
                facts.ge.update({t: max(facts.ge.get(t, -10**9), v) for t, v in both.items()})
                # relations that make the two branch facts comparable: spot index is covered in both
                facts.rel |= {("joined", s["i"], 0)}
                facts.branch_facts = (ft, ff)
                continue
            for x in walk(s):
                if x["k"] == "Call" and (x.get("fn") or "").endswith("GenNodeArray::Check"):
                    a = check_arg(x)
                    if a:
                        facts.add_ge(a[0], a[1])
                if x["k"] == "Call" and (x.get("fn") or "").split("::")[-1] in ("memmove", "__builtin_memmove", "__builtin___memmove_chk"):
                    n_store += 1
                    dst = re.sub(r"[\s()]|this->", "", expr_str(strip(x["ch"][0])))
                    ln = re.sub(r"[\s()]|this->", "", expr_str(strip(x["ch"][2])))
                    # spot == &_buf[index]
                    if dst == "spot+1" and ln.startswith("_count-index*sizeof"):
                        # writes slots index+1 .. _count  => needs _bufsize >= _count + 1
                        ok = facts.bufsize_ge("_count", 1)
                        res.add("R6.store_in_bounds", "R6|%s|%s|memmove-up" % (fn.relfile(), fn.name), fn.where(x), ok,
                                "shifting slots index.._count-1 up by one stays inside the buffer (Check established _bufsize >= _count+%d)" % facts.ge.get("_count", 0) if ok else
                                "shifting the tail up by one writes slot _count, but no dominating Check() guarantees _bufsize > _count")
                    elif dst == "spot" and ln.startswith("_count-index*sizeof"):
                        ok = ("index", "<", "_count") in facts.rel or ("dec", "_count") in facts.rel
                        res.add("R6.store_in_bounds", "R6|%s|%s|memmove-down" % (fn.relfile(), fn.name), fn.where(x), ok,
                                "shifting the tail down by one stays inside the old extent" if ok else "tail shift outside the range guard")
                    else:
                        res.add("R6.store_in_bounds", "R6|%s|%s|memmove-other" % (fn.relfile(), fn.name), fn.where(x), False,
                                "unrecognised block move memmove(%s, ..., %s): cannot bound it" % (dst, ln))
                if x["k"] == "Assign" and strip(x["ch"][0]) is not None:
                    l = strip(x["ch"][0])
                    lt = re.sub(r"[\s()]|this->", "", expr_str(l))
                    if lt == "*spot":
                        n_store += 1
                        ft, ff = getattr(facts, "branch_facts", (facts, facts))
                        ok = ft.bufsize_ge("_count", 1) and ff.bufsize_ge("index", 1)
                        res.add("R6.store_in_bounds", "R6|%s|%s|store-spot" % (fn.relfile(), fn.name), fn.where(x), ok,
                                "the slot written (&_buf[index]) is inside the buffer on both branches" if ok else
                                "the new node is stored at _buf[index] without a dominating Check() that makes the buffer large enough")
                    elif lt == "_buf[_count]":
                        n_store += 1
                        ok = ("dec", "_count") in facts.rel and ("index", "<", "_count") in facts.rel
                        res.add("R6.store_in_bounds", "R6|%s|%s|clear-last" % (fn.relfile(), fn.name), fn.where(x), ok,
                                "the vacated last slot (_buf[_count] after the decrement) is inside the buffer" if ok else
                                "_buf[_count] is written without the range guard / decrement that keeps it inside the buffer")
                if x["k"] == "Unary" and x.get("op") in ("pre--", "post--") and strip(x["ch"][0]) is not None and strip(x["ch"][0]).get("n") == "_count":
                    facts.rel.add(("dec", "_count"))
    f0 = Facts()
    visit(ins, ins.body["ch"], f0, "R6")
    visit(rem, rem.body["ch"], Facts(), "R6")
    res.floor("R6", "stores into _buf examined", n_store, 4)
    # spot really is &_buf[index] in both functions, and index is normalised before use
    for fn in (ins, rem):
        spots = [x for x in fn.walk() if (x["k"] == "Assign" and strip(x["ch"][0]) is not None and strip(x["ch"][0]).get("n") == "spot") or
                 (x["k"] == "Var" and x.get("n") == "spot" and x.get("ch"))]
        ok = bool(spots) and all(re.sub(r"[\s()]|this->|const|GenericNode|\*", "", expr_str(strip(x["ch"][-1]))).endswith("&_buf[index]") for x in spots)
        res.add("R6.spot_is_slot", "R6|%s|%s|spot" % (fn.relfile(), fn.name), fn.where(spots[0]) if spots else fn.where(), ok,
                "spot is &_buf[index]" if ok else "spot is no longer &_buf[index]: %s" % [expr_str(strip(x["ch"][-1])) for x in spots])
    neg = [x for x in ins.walk() if x["k"] == "Assign" and strip(x["ch"][0]) is not None and strip(x["ch"][0]).get("n") == "index"]
    ok = bool(neg) and norm(neg[0]["ch"][1]) == "index<0?_count:index" and \
        all(ins.cfg.dominates(ins.cfg.locate(neg[0]), ins.cfg.locate(x["ch"][0])) for x in ins.walk() if x["k"] == "If")
    res.add("R6.index_normalised", "R6|src/clutils/gennodearray.cc|GenNodeArray::Insert|negative-index", ins.where(neg[0]) if neg else ins.where(), ok,
            "a negative index is turned into 'append' before anything else" if ok else "negative insertion indices are no longer normalised first")


def r7_count(prog, res):
    n = 0
    expected = {"GenNodeArray::Insert": "++", "GenNodeArray::Remove": "--"}
    for f in prog.all_functions():
        if not (f.cls or "").endswith("NodeArray") and "NodeArray::" not in f.name:
            continue
        for x in f.walk_all():
            tgt = None
            kind = None
            if x["k"] == "Unary" and x.get("op") in ("pre++", "post++", "pre--", "post--") and strip(x["ch"][0]) is not None and strip(x["ch"][0]).get("n") == "_count":
                kind = x["op"][-2:]
            elif x["k"] in ("Assign", "CompoundAssign") and strip(x["ch"][0]) is not None and strip(x["ch"][0]).get("n") == "_count" and strip(x["ch"][0])["k"] == "Member":
                v = strip(x["ch"][1])
                kind = "=0" if v is not None and v.get("val") == 0 and x["k"] == "Assign" else "=" + expr_str(v)
            if kind is None:
                continue
            n += 1
            if kind in ("++", "--"):
                ok = expected.get(f.name) == kind
                # exactly once on every path that reaches the end (Insert) / under the guard (Remove)
                if ok and kind == "++":
                    ok = f.cfg.postdominates(f.cfg.locate(x), (f.cfg.entry, -1)) if hasattr(f.cfg, "entry") else True
                res.add("R7.count_writers", "R7|%s|%s|_count%s" % (f.relfile(), f.name, kind), f.where(x), ok,
                        "_count changes by one in %s" % f.name if ok else "_count%s in %s: the element count no longer tracks insertions/removals one for one" % (kind, f.name))
            else:
                ok = kind == "=0" and (f.name.endswith("ClearEntries") or f.name.endswith("DeleteEntries") or f.name.endswith("NodeArray") or "::GenNodeArray" in f.name)
                res.add("R7.count_writers", "R7|%s|%s|_count%s" % (f.relfile(), f.name, kind), f.where(x), ok,
                        "_count is zeroed by %s" % f.name if ok else "_count is assigned %s in %s" % (kind, f.name))
    res.floor("R7", "writers of _count", n, 6)
    # the increment in Insert is unconditional; the decrement in Remove sits under the range guard together with the move
    ins = [f for f in prog.fn("GenNodeArray::Insert") if len(f.params) == 2]
    if ins:
        f = ins[0]
        inc = [x for x in f.walk() if x["k"] == "Unary" and x.get("op") in ("pre++", "post++") and strip(x["ch"][0]).get("n") == "_count"]
        ok = len(inc) == 1 and not [a for a in f.ancestors(inc[0]) if a["k"] in ("If", "While", "For")]
        res.add("R7.one_per_operation", "R7|src/clutils/gennodearray.cc|GenNodeArray::Insert|increment", f.where(inc[0]) if inc else f.where(), ok,
                "every Insert adds exactly one to _count" if ok else "the increment of _count in Insert is conditional, repeated or missing")
    rem = prog.one("GenNodeArray::Remove")
    if rem is not None:
        dec = [x for x in rem.walk() if x["k"] == "Unary" and x.get("op") in ("pre--", "post--") and strip(x["ch"][0]).get("n") == "_count"]
        guards = [a for a in rem.ancestors(dec[0]) if a["k"] == "If"] if dec else []
        ok = len(dec) == 1 and len(guards) == 1 and norm(guards[0]["ch"][0]) == "0<=index&&index<_count" and \
            not [a for a in rem.ancestors(dec[0]) if a["k"] in ("While", "For")]
        res.add("R7.one_per_operation", "R7|src/clutils/gennodearray.cc|GenNodeArray::Remove|decrement", rem.where(dec[0]) if dec else rem.where(), ok,
                "a Remove of a valid index takes exactly one from _count, an invalid index changes nothing" if ok else
                "the decrement of _count in Remove is not exactly once under 0 <= index < _count")
    ic = prog.one("InstMgr::InstanceCount")
    cnt = prog.one("GenNodeArray::Count")
    ok = ic is not None and cnt is not None and "".join(norm(x["ch"][0]) for x in ic.walk() if x["k"] == "Return") == "master.Count" and \
        "".join(norm(x["ch"][0]) for x in cnt.walk() if x["k"] == "Return") == "_count"
    res.add("R7.count_is_count", "R7|include/clstepcore/instmgr.h|InstMgr::InstanceCount|is-_count", ic.where() if ic else "include/clstepcore/instmgr.h:1", ok,
            "InstanceCount() is the array's _count" if ok else "InstanceCount() is no longer master->Count() == _count")


def r8_lookups(prog, res):
    f = prog.one("InstMgr::FindFileId")
    if f is None:
        res.broke("anchor vanished: InstMgr::FindFileId")
    else:
        finds = [c for c in f.calls() if (c.get("fn") or "").endswith("::find") and member_of(c["ch"][0], SORTED)]
        p = f.params[0]["d"]
        ok = len(finds) == 1 and strip(finds[0]["ch"][1]).get("d") == p
        rets = [x for x in f.walk() if x["k"] == "Return"]
        texts = sorted(norm(r["ch"][0]).lstrip("->") for r in rets)
        ok = ok and len(rets) == 2 and texts[0] in ("0", "nullptr", "NULL") and texts[1] == "it->second"
        guard = [a for a in f.ancestors(rets[0]) if a["k"] == "If"] if rets else []
        okg = bool(guard) and norm(guard[0]["ch"][0]) in ("it==sortedMaster.end", "sortedMaster.end==it")
        res.add("R8.find_by_id", "R8|src/clstepcore/instmgr.cc|InstMgr::FindFileId|exact", f.where(), ok and okg,
                "FindFileId(id) returns the node mapped under exactly that id, and null when the map has no such key" if ok and okg else
                "FindFileId no longer is 'find(fileId); end => null; else it->second' (returns: %s)" % texts)
    n = 0
    for name in ("InstMgr::GetApplication_instance", "InstMgr::GetSTEPentity"):
        for f in prog.fn(name):
            if len(f.params) != 2:
                continue
            n += 1
            loops = [x for x in f.walk() if x["k"] == "For"]
            start = f.params[1]["d"]
            ok = False
            why = "no scanning loop"
            if len(loops) == 1:
                init, cond, inc, body = (loops[0]["ch"] + [None] * 4)[:4]
                iv = [x for x in walk(init) if x["k"] == "Var" and x.get("ch")]
                ok_i = len(iv) == 1 and strip(iv[0]["ch"][0]) is not None and strip(iv[0]["ch"][0]).get("d") == start
                j = iv[0]["d"] if iv else None
                c = strip(cond)
                bound = strip(c["ch"][1]) if c is not None and c["k"] == "Binary" and c.get("op") == "<" else None
                ok_c = bound is not None and strip(c["ch"][0]).get("d") == j
                if ok_c and bound["k"] == "Ref":
                    src = [x for x in f.walk() if x["k"] == "Var" and x.get("d") == bound.get("d") and x.get("ch")]
                    ok_c = bool(src) and norm(src[0]["ch"][0]) == "InstanceCount"
                elif ok_c:
                    ok_c = norm(bound) == "InstanceCount"
                ok_s = inc is not None and any(x["k"] == "Unary" and x.get("op") in ("pre++", "post++") and strip(x["ch"][0]).get("d") == j for x in walk(inc))
                rets = [x for x in walk(body) if x["k"] == "Return"]
                ok_r = len(rets) == 1
                if ok_r:
                    g = [a for a in f.ancestors(rets[0]) if a["k"] == "If" and any(y is a for y in walk(body))]
                    rv = strip(rets[0]["ch"][0])
                    gc = strip(g[0]["ch"][0]) if len(g) == 1 else None
                    ok_r = False
                    if gc is not None and gc["k"] == "Unary" and gc.get("op") == "!" and rv is not None and rv["k"] == "Ref":
                        sc = strip(gc["ch"][0])
                        if sc is not None and sc["k"] == "Call" and (sc.get("fn") or "").split("::")[-1] in ("strcmp", "__builtin_strcmp"):
                            a0 = strip(sc["ch"][0])
                            ok_r = a0 is not None and a0["k"] == "Call" and (a0.get("fn") or "").endswith("::EntityName") and \
                                strip(a0["ch"][0]) is not None and strip(a0["ch"][0]).get("d") == rv.get("d")
                    nodes = [x for x in walk(body) if x["k"] == "Call" and (x.get("fn") or "").endswith("GetMgrNode")]
                    ok_r = ok_r and len(nodes) == 1 and strip(nodes[0]["ch"][-1]).get("d") == j
                ok = ok_i and ok_c and ok_s and ok_r
                why = "starts at the start index [%s], runs to InstanceCount() [%s], steps by one [%s], returns the instance at the loop position on the first name match [%s]" % (ok_i, ok_c, ok_s, ok_r)
            res.add("R8.find_by_name", "R8|src/clstepcore/instmgr.cc|%s(name,start)|first-match" % name, f.where(), ok,
                    "scans positions start..count-1 in order and returns the first instance whose entity name matches" if ok else
                    "name look-up lost its shape: " + why)
    res.floor("R8", "name look-up functions", n, 2)
    f = prog.one("InstMgr::GetIndex")
    if f is not None:
        ok = "".join(norm(x["ch"][0]) for x in f.walk() if x["k"] == "Return") == "mn.ArrayIndex"
        res.add("R8.index_is_cached", "R8|src/clstepcore/instmgr.cc|InstMgr::GetIndex|cached-index", f.where(), ok,
                "GetIndex(node) is the node's cached array index (kept right by R2)" if ok else "GetIndex no longer returns the cached array index")


def selftest(res):
    """Positive example for the stale-copy rule (zero instances on the real tree): a tiny Append with a cached id."""
    import selftest as st
    st.run_c13(res, r4_append)


def run(prog, res, tier):
    r1_pairing(prog, res)
    r2_indices(prog, res)
    r3_max(prog, res)
    r4_append(prog, res)
    r5_delete(prog, res)
    r6_bounds(prog, res)
    r7_count(prog, res)
    r8_lookups(prog, res)
