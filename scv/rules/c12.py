"""C12 — generators, pretty printer and scanner are deterministic functions of their input (structural clauses).

 R1 format is code    the format of every printf-like call in the four output-producing programs is a literal (or a
                      constant initialised from one, or text whose alphabet cannot contain '%': schema identifiers,
                      formatted numbers) — never text copied from the schema
 R2 arguments         the conversions of each literal format agree with the arguments in the ways that matter for
                      determinism: nothing missing (garbage read), no pointer printed through an integer conversion
                      (address), no integer read as a string
 R3 tagged union      every read of a member of Expression_::u (expr_union) is control-dependent on a test that makes
                      that member the active one (kind switch / kind comparison / identity with a literal singleton)
 R4 sources           no clock, random, pid, environment (except EXPRESS_PATH) or %p reaches the code of these programs
 R5 addresses         no pointer is converted to an integer or ordered against another pointer outside the frozen
                      cursor/limit idioms of one buffer (so neither hashes nor sort orders can depend on addresses)
 R6 path              the name/path of the input file and the working directory reach generated text only at frozen sites
 R7 append            every file-name template exp2cxx appends to is also created (truncated) by the same run (shared with C17)
 R8 discriminated     `Rename::object` (void *) is dereferenced as a scope only after `Rename::type` was tested on every path
"""
import re
from ir import walk, strip, expr_str
from engines import check_format_args, parse_format, type_class, call_args, known_facts, flatten_switch

PID = "C12"
UNITS = dict(components={"exp2cxx", "exp2python", "exppp", "scanner", "express"})
LEVEL_TEXT = "other"
TECHNIQUE = ("static analysis: format/argument agreement and format-provenance over every printf-like call site, tagged-union "
             "(active member) typestate on expr_union reads, source/sink effect rules for nondeterministic inputs, "
             "pointer-to-integer and pointer-ordering lint with a frozen idiom table, path-taint at output sinks")
EXPLANATION = (
    "Necessary conditions of run-to-run determinism, decided on the type-resolved AST of libexpress, exppp, exp2cxx, "
    "exp2python and the schema scanner. (R1) every call of fprintf/printf/sprintf/snprintf and of the user formatters that "
    "forward a parameter to v*printf (raw, wrap; discovered, not listed) has a format that is a literal, a constant "
    "initialised from a literal, or text that cannot contain a conversion (schema identifiers, real2exp output); a format "
    "copied from schema text makes printf read arguments that were never passed. (R2) for literal formats the conversions "
    "are compared with the promoted argument types: missing arguments, a pointer for an integer conversion, an integer for "
    "%s are violations ('*' receiving size_t and surplus arguments are tolerated and counted: same register class on LP64, "
    "no observable effect). (R3) each read of integer/real/binary/logical/boolean/query/funcall/list of Expression_::u "
    "must sit in an arm of a switch on the kind of the same expression's type, or under an equality test of that kind, or "
    "behind the literal-singleton tests, whose kinds make that member active (table from include/express/expr.h and the "
    "parser actions). (R4) calls of time/clock/rand/getpid/getenv/... and %p. (R5) pointer-to-integer casts and relational "
    "pointer comparisons only in the functions frozen as 'cursor and limit of one buffer'. (R6) input_filename, "
    "Symbol_::filename, getcwd and __FILE__ as arguments of output sinks. (R7) every file-name template that exp2cxx opens in "
    "append mode is also opened for writing under the same template in the same run (templates from the string-template "
    "interpreter of C17), so no output file carries text over from an earlier run. (R8) every dereference of a cast `Rename::object` in the generators is "
    "preceded on every CFG path from the definition of the Rename variable by a test of its `type`. "
    "Not decided: nondeterminism through undefined behaviour elsewhere (C05/C06 cover memory safety), locale, reads of "
    "uninitialised locals, and the iteration order of the hash tables beyond 'hashes and comparators see characters only'."
    " (R9, engine shared with C18 R1) every unit of libexpress, exppp and exp2cxx re-parses without an incompatible-pointer, int/pointer or implicit-declaration diagnostic: no object reaches a sorting or printing helper under the wrong struct type (what such a helper takes for a name would be the bytes of a heap address)."
    " (R10, engine of C18 R1 with the flow-sensitive -Wuninitialized / -Wsometimes-uninitialized diagnostics) no local of libexpress, exppp, exp2cxx or exp2python is read before it is assigned.")

OUT_COMPONENTS = ("exp2cxx", "exp2python", "exppp", "scanner")
LIBC_FMT = {"fprintf": 1, "printf": 0, "sprintf": 1, "snprintf": 2, "dprintf": 1,
            "__builtin___sprintf_chk": 3, "__builtin___snprintf_chk": 4, "__fprintf_chk": 2, "__printf_chk": 1}
V_FMT = {"vfprintf": 1, "vprintf": 0, "vsprintf": 1, "vsnprintf": 2}
# text whose alphabet has no '%'
NUMTEXT_FNS = {"real2exp": "digits, sign, '.', 'E' only"}
SOURCES = {"time", "clock", "rand", "random", "srand", "srandom", "getpid", "getppid", "getenv", "secure_getenv", "gettimeofday",
           "clock_gettime", "localtime", "gmtime", "ctime", "asctime", "strftime", "tmpnam", "tempnam", "mkstemp", "mktemp",
           "drand48", "lrand48", "getuid", "gethostname", "uname", "getcwd", "realpath", "getlogin", "ttyname"}
SOURCE_OK = {
    ("src/express/express.c", "EXPRESS_PATHinit", "getenv"):
        "EXPRESS_PATH decides where referenced schema files are looked for, not what is generated from them",
    ("cmake/schema_scanner/schemaScanner.cc", "writeLists", "getcwd"):
        "the scanner prints the absolute directory of the CMakeLists.txt it wrote; reported under R6 (known finding), not a hidden source",
}
PTR_IDIOM = {
    "real2exp": "cursor within the local digit buffer",
    "nextBreakpoint": "cursor/limit of the string being wrapped",
    "breakLongStr": "cursor/limit of the string being wrapped",
    "create_freelist": "arena bounds of the allocator's own block",
    "ALLOC_new": "arena bounds of the allocator's own block",
    "ERRORvreport_with_symbol": "cursor/limit of the diagnostic message buffer",
    "bufferFill": "generated lexer: cursor/limit and rebasing of its input buffer",
    "PERPLEX_LEXER_private": "generated lexer: cursor/limit of its input buffer",
}
# member -> kinds (type_enum names) for which it is the active member
UNION_KINDS = {
    "integer": {"integer_", "enumeration_"},     # enumeration items carry their ordinal (expparse.y enumeration_type)
    "real": {"real_"},
    "binary": {"binary_"},
    "logical": {"logical_", "boolean_"},
    "boolean": {"boolean_"},
    "query": {"query_"},
    "funcall": {"funcall_"},
    "list": {"aggregate_", "oneof_", "array_", "bag_", "set_", "list_"},
}
SINGLETONS = {"LITERAL_INFINITY": "integer", "LITERAL_ZERO": "integer", "LITERAL_ONE": "integer", "LITERAL_PI": "real", "LITERAL_E": "real"}
UNION_SITE_OK = {
    ("src/exppp/pretty_type.c", "TYPE_body_out", "integer"):
        "expr iterates the symbol table of an enumeration type: every OBJ_EXPRESSION there is an enumeration item whose u.integer "
        "is its ordinal (expparse.y, enumeration_type)",
    ("src/exp2cxx/expressbuild.cc", "MultList::processSubExp", "list"):
        "called only on the operand of a ONEOF/AND/ANDOR supertype expression, whose u.list holds the operands",
}
PATH_OK = {
    ("src/exppp/exppp.c", "exppp_ref_info"):
        "--info comment lines are printed only when the user asks for reference information (exppp_reference_info)",
}
PATH_KNOWN = {
    # key suffix -> reported as violation (listed in known_findings.json)
}


def comp_of(f):
    return f.component or ""


def user_formatters(prog):
    """functions that forward one of their parameters as the format of a v*printf call: name -> format index.
    A helper that itself takes a va_list (e.g. format_fragment( buf, size, fmt, args )) is one more v*printf: the relation is closed
    under such helpers (least fixed point), and V_FMT is extended by them so that their callers' forwarding is recognised."""
    out = {}
    changed = True
    while changed:
        changed = False
        for f in prog.all_functions():
            for c in f.calls():
                nm = c.get("fn") or ""
                if nm in V_FMT:
                    args = call_args(c)
                    fi = V_FMT[nm]
                    if fi < len(args):
                        a = strip(args[fi])
                        if a is not None and a["k"] == "Ref" and a.get("dk") == "param":
                            idx = [i for i, p in enumerate(f.params) if p["d"] == a.get("d")]
                            if idx and out.get(f.name) != idx[0]:
                                out[f.name] = idx[0]
                                changed = True
                            takes_va = any("va_list" in (f.tyname(p["t"]) if isinstance(p.get("t"), int) else "") or
                                           "__va_list_tag" in (f.tyname(p["t"]) if isinstance(p.get("t"), int) else "") for p in f.params)
                            if idx and takes_va and f.name not in V_FMT:
                                V_FMT[f.name] = idx[0]
                                changed = True
    for k in [k for k in out if k in V_FMT and k not in ("vfprintf", "vprintf", "vsprintf", "vsnprintf")]:
        del out[k]          # a va_list helper is not called with a literal format by users; its callers are the formatters
    return out


def const_literal(prog, f, n):
    """a variable that is only ever a string literal: its text, else None"""
    n = strip(n)
    if n is None or n["k"] != "Ref":
        return None
    if n.get("dk") in ("local", "staticlocal"):
        vals = []
        for x in f.walk():
            if x["k"] == "Var" and x.get("d") == n.get("d"):
                ini = strip(x["ch"][0]) if x.get("ch") else None
                if ini is not None and ini["k"] == "InitList" and ini.get("ch"):
                    ini = strip(ini["ch"][0])
                vals.append(ini)
            elif x["k"] in ("Assign", "CompoundAssign") and strip(x["ch"][0]) is not None and strip(x["ch"][0]).get("d") == n.get("d"):
                vals.append(strip(x["ch"][1]))
            elif x["k"] == "Unary" and x.get("op") == "&" and strip(x["ch"][0]) is not None and strip(x["ch"][0]).get("d") == n.get("d"):
                return None
        if vals and all(v is not None and v["k"] == "Str" for v in vals) and len({v.get("s") for v in vals}) == 1:
            return vals[0].get("s")
        return None
    if n.get("dk") == "global":
        g = prog.global_init(n["n"])
        if g is not None:
            ini = strip(g["init"][0]) if g.get("init") else None
            if ini is not None and ini["k"] == "InitList" and ini.get("ch"):
                ini = strip(ini["ch"][0])
            writers = 0
            for h in prog.all_functions():
                for x in h.walk():
                    if x["k"] in ("Assign", "CompoundAssign") and strip(x["ch"][0]) is not None and strip(x["ch"][0])["k"] == "Ref" and \
                            strip(x["ch"][0]).get("dk") == "global" and strip(x["ch"][0])["n"] == n["n"]:
                        writers += 1
            if ini is not None and ini["k"] == "Str" and writers == 0:
                return ini.get("s")
    return None


FORMAT_SITE_OK = {
    ("src/exppp/pretty_entity.c", "ENTITY_out", "s->name"):
        "s walks Entity_::supertype_symbols, the Symbol* of the supertype *identifiers* of the SUBTYPE OF clause",
    ("src/exppp/pretty_type.c", "TYPE_body_out", "names[i]"):
        "names[] is filled from the OBJ_EXPRESSION entries of an enumeration's symbol table: enumeration item identifiers",
}


def percent_free(prog, f, n, depth=0):
    """-> reason string if the text denoted by n cannot contain '%', else None.
    Only names of *named objects* qualify: the symbol of a Scope_ (schema, entity, type, function ...) and the name
    expression of a Variable_ (attribute / constant / local).  The symbol of an arbitrary Expression_ does not: for a
    string or binary literal it holds the literal's text."""
    n = strip(n)
    if n is None or depth > 4:
        return None
    if (f.relfile(), f.name, expr_str(n)) in FORMAT_SITE_OK:
        return "frozen: " + FORMAT_SITE_OK[(f.relfile(), f.name, expr_str(n))]
    if n["k"] == "Member" and n["n"] == "name" and "Symbol_" in (n.get("q") or ""):
        b = strip(n["ch"][0]) if n.get("ch") else None
        if b is not None and b["k"] == "Member" and b["n"] == "symbol":
            q = b.get("q") or ""
            if q.startswith("Scope_::"):
                return "the identifier of a named schema object (%s)" % expr_str(n)
            if q.startswith("Expression_::"):
                x = strip(b["ch"][0]) if b.get("ch") else None
                if x is not None and x["k"] == "Member" and (x.get("q") or "") == "Variable_::name":
                    return "the name expression of an attribute/variable (%s)" % expr_str(n)
        if b is not None and b["k"] == "Member" and "Symbol_ *" in f.ty(b) and not (b.get("q") or "").startswith("Expression_::"):
            # a Symbol* stored in a field of a schema object (WHERE label, renamed identifier, ...): the grammar only
            # ever stores the symbol of a TOK_IDENTIFIER (or a fixed placeholder) there
            return "the identifier stored in %s" % (b.get("q") or expr_str(b))
        return None
    if n["k"] == "Call" and (n.get("fn") or "") in NUMTEXT_FNS:
        return "%s(): %s" % (n["fn"], NUMTEXT_FNS[n["fn"]])
    if n["k"] == "Cond":
        def side(e):
            e = strip(e)
            return (e is not None and e["k"] == "Str" and "%" not in e.get("s", "")) or percent_free(prog, f, e, depth + 1)
        if side(n["ch"][1]) and side(n["ch"][2]):
            return "either branch is percent-free"
    return None


def sink_kind(f, c, nm, fi):
    """'diag' for stderr, 'mem' for buffer writers, else 'out'"""
    args = call_args(c)
    if nm in ("fprintf", "__fprintf_chk", "dprintf") and args:
        a = strip(args[0])
        if a is not None and a["k"] == "Ref" and a["n"] in ("stderr",):
            return "diag"
        return "out"
    if nm in ("sprintf", "snprintf", "__builtin___sprintf_chk", "__builtin___snprintf_chk"):
        return "mem"
    if nm in ("printf", "__printf_chk"):
        return "stdout"
    return "out"


def r1_r2_formats(prog, res):
    fm = dict(LIBC_FMT)
    uf = user_formatters(prog)
    fm.update(uf)
    res.info["user_formatters"] = uf
    n = 0
    nlit = 0
    tolerated = {"star_width_long": 0, "surplus_arguments": 0}
    by_kind = {}
    seen_keys = {}
    for f in prog.all_functions():
        if comp_of(f) not in OUT_COMPONENTS:
            continue
        for c in f.calls():
            nm = c.get("fn") or ""
            if nm not in fm:
                continue
            args = call_args(c)
            fi = fm[nm]
            if fi >= len(args):
                continue
            n += 1
            sk = sink_kind(f, c, nm, fi)
            by_kind[sk] = by_kind.get(sk, 0) + 1
            fa = strip(args[fi])
            text = fa.get("s") if fa is not None and fa["k"] == "Str" else None
            how = "literal"
            if text is None:
                text = const_literal(prog, f, fa)
                how = "constant initialised from a literal"
            base = "%s|%s|%s" % (f.relfile(), f.name, nm)
            if text is None:
                nlit += 1
                why = percent_free(prog, f, fa)
                k = "R1|%s|format=%s" % (base, re.sub(r"\s+", "", expr_str(fa))[:50])
                seen_keys[k] = seen_keys.get(k, 0) + 1
                if seen_keys[k] > 1:
                    k += "#%d" % seen_keys[k]
                # a formatter forwarding its own format parameter is checked at its callers
                if fa is not None and fa["k"] == "Ref" and fa.get("dk") == "param" and f.name in uf:
                    continue
                res.add("R1.format_is_code", k, f.where(c), why is not None,
                        "%s() is given %s as its format: %s, cannot hold a conversion" % (nm, expr_str(fa), why) if why else
                        "%s() uses %s as its format string: text that is not a literal and may come from the schema; a '%%' in it makes "
                        "the call read arguments that were never passed (addresses and stack garbage end up in the output)" % (nm, expr_str(fa)))
                continue
            convs = parse_format(text)
            va = args[fi + 1:]
            if convs is None:
                res.add("R2.arguments", "R2|%s|malformed" % base, f.where(c), False, "malformed conversion in format %r" % text[:60])
                continue
            probs = []
            if len(convs) > len(va):
                probs.append("format %r has %d conversions but only %d arguments: the rest is read from whatever the registers/stack hold" %
                             (text[:50], len(convs), len(va)))
            elif len(convs) < len(va):
                tolerated["surplus_arguments"] += 1
            for i, (cv, a) in enumerate(zip(convs, va)):
                cls = type_class(f.ty(a))
                cc = cv["conv"]
                if cc == "p":
                    probs.append("%%p prints an address (argument %d, %s)" % (i + 1, expr_str(a)))
                elif cc in "dioxXuc*" and cls in ("ptr", "cstr"):
                    probs.append("conversion %s (argument %d) prints the pointer %s as a number: an address in the output" % (cv["text"], i + 1, expr_str(a)))
                elif cc == "s" and cls not in ("cstr", "ptr"):
                    probs.append("conversion %s (argument %d) receives the non-string %s (%s)" % (cv["text"], i + 1, expr_str(a), f.ty(a)))
                elif cc in "eEfFgGaA" and cls not in ("double", "ldouble"):
                    probs.append("conversion %s (argument %d) receives %s of type %s: a floating-point register that was never loaded is read" %
                                 (cv["text"], i + 1, expr_str(a), f.ty(a)))
                elif cc in "dioxXuc" and cls in ("double", "ldouble"):
                    probs.append("conversion %s (argument %d) receives the floating value %s" % (cv["text"], i + 1, expr_str(a)))
                elif cc == "*" and cls == "long":
                    tolerated["star_width_long"] += 1
            if probs:
                k = "R2|%s|%s" % (base, re.sub(r"\s+", " ", text)[:40])
                seen_keys[k] = seen_keys.get(k, 0) + 1
                if seen_keys[k] > 1:
                    k += "#%d" % seen_keys[k]
                res.add("R2.arguments", k, f.where(c), False, "; ".join(probs))
    res.add("R2.arguments", "R2|summary", "src/", True,
            "%d printf-like call sites in exppp/exp2cxx/exp2python/scanner examined (%s); tolerated: %s" % (n, by_kind, tolerated))
    res.floor("R1", "printf-like call sites examined", n, 1500)
    res.floor("R1", "non-literal formats classified", nlit, 5)
    res.info["format_sites"] = n
    res.info["format_sites_by_sink"] = by_kind
    res.info["tolerated"] = tolerated


# --------------------------------------------------------------------------- R3
def kind_of_test(n, te):
    """(root d, kind name set, polarity-insensitive) for  <root>->type->u.type->body->type == kind_ ; else None"""
    n = strip(n)
    if n is None or n["k"] != "Binary" or n.get("op") not in ("==", "!="):
        return None
    for a, b in ((n["ch"][0], n["ch"][1]), (n["ch"][1], n["ch"][0])):
        r = kind_path_root(a)
        v = strip(b)
        if r is not None and v is not None and "val" in v:
            names = {k for k, val in te.items() if val == v["val"]}
            return r, names, n["op"]
    return None


def kind_path_root(n):
    """root variable d of  X->type->u.type->body->type   (TYPEis(X->type), TYPEget_body(X->type)->type)"""
    names = []
    n = strip(n)
    while n is not None and n["k"] == "Member":
        names.append(n["n"])
        n = strip(n["ch"][0]) if n.get("ch") else None
        while n is not None and n["k"] == "Paren":
            n = strip(n["ch"][0])
    names.reverse()
    if n is not None and n["k"] == "Ref" and names == ["type", "u", "type", "body", "type"]:
        return n.get("d")
    return None


def switch_arm_labels(f, node):
    """[(switch cond node, set of case values that can reach node)] for every enclosing switch"""
    out = []
    child = node
    chain = [node] + list(f.ancestors(node))
    for i, p in enumerate(chain):
        if p["k"] != "Switch":
            continue
        items = flatten_switch(p)
        inside = chain[:i]
        idx = None
        for j, (labs, stmt) in enumerate(items):
            if stmt is not None and any(stmt is a for a in inside):
                idx = j
        if idx is None:
            continue
        labs = set(items[idx][0])
        j = idx - 1
        while j >= 0:
            st = items[j][1]
            falls = True
            if st is not None:
                last = st
                while last["k"] == "Compound" and last.get("ch"):
                    last = [c for c in last["ch"] if c is not None][-1]
                if last["k"] in ("Break", "Return", "Continue", "Goto") or (last["k"] == "Call" and last.get("noreturn")):
                    falls = False
            if not falls:
                break
            labs |= set(items[j][0])
            j -= 1
        out.append((p["ch"][0], labs))
    return out


def r3_union(prog, res):
    te = prog.enums.get("type_enum")
    if not te:
        res.broke("anchor vanished: enum type_enum")
        return
    n = 0
    keys = {}
    for f in prog.all_functions():
        if comp_of(f) not in OUT_COMPONENTS:
            continue
        for x in f.walk():
            if x["k"] != "Member" or "expr_union" not in (x.get("q") or ""):
                continue
            m = x["n"]
            # writes are not reads
            par = f.parent.get(x["i"])
            if par is not None and par["k"] == "Assign" and strip(par["ch"][0]) is x:
                continue
            root = strip(x["ch"][0])
            while root is not None and root["k"] == "Member":
                root = strip(root["ch"][0])
            rd = root.get("d") if root is not None and root["k"] == "Ref" else None
            n += 1
            k = "R3|%s|%s|u.%s" % (f.relfile(), f.name, m)
            keys[k] = keys.get(k, 0) + 1
            if keys[k] > 1:
                k += "#%d" % keys[k]
            allowed = UNION_KINDS.get(m)
            if (f.relfile(), f.name, m) in UNION_SITE_OK:
                res.add("R3.active_member", k, f.where(x), True, "frozen: " + UNION_SITE_OK[(f.relfile(), f.name, m)])
                continue
            if allowed is None or rd is None:
                res.add("R3.active_member", k, f.where(x), False,
                        "read of u.%s: no rule says for which expression kinds this member is the active one" % m)
                continue
            ok = False
            how = ""
            for cond, labs in switch_arm_labels(f, x):
                if kind_path_root(cond) == rd:
                    names = {kn for kn, v in te.items() if v in labs}
                    if "default" in labs:
                        names.add("default")
                    if names and names <= allowed:
                        ok = True
                        how = "in the %s arm(s) of the switch on the kind of %s" % ("/".join(sorted(names)), root["n"])
                    elif names:
                        how = "in the arm(s) %s of the kind switch, where u.%s is not the active member" % ("/".join(sorted(names)), m)
            if not ok:
                for (c, pol) in known_facts(f, x):
                    t = kind_of_test(c, te)
                    if t and t[0] == rd and ((t[2] == "==" and pol) or (t[2] == "!=" and not pol)) and t[1] and t[1] <= allowed:
                        ok = True
                        how = "under the test that %s is of kind %s" % (root["n"], "/".join(sorted(t[1])))
                    cs = strip(c)
                    if cs is not None and cs["k"] == "Binary" and cs.get("op") in ("==", "!=") and ((cs["op"] == "==") == pol):
                        a, b = strip(cs["ch"][0]), strip(cs["ch"][1])
                        for u, v in ((a, b), (b, a)):
                            if u is not None and v is not None and u["k"] == "Ref" and u.get("d") == rd and v["k"] == "Ref" and SINGLETONS.get(v["n"]) == m:
                                ok = True
                                how = "%s is the literal singleton %s" % (root["n"], v["n"])
            res.add("R3.active_member", k, f.where(x), ok,
                    "u.%s of %s is read %s" % (m, root["n"], how) if ok else
                    "u.%s of %s is read %s: for a named constant, an operator expression or a function call the bytes of that "
                    "member belong to another member (a pointer), so an address-dependent number is printed" %
                    (m, root["n"], how or "without any test that %s is a %s expression" % (root["n"], "/".join(sorted(allowed)))))
    res.floor("R3", "reads of expr_union members in the output-producing programs", n, 40)


# --------------------------------------------------------------------------- R4 / R5
def _cursor_of_same_array(prog, f, a, b):
    """`P <op> A + k` where A is a global array and P a global pointer that is only ever set to A, &A[i], P+-1: both operands point
    into the one object A, so their order is the order of two indices - no allocation address is involved.  -> reason or None"""
    for p_, lim in ((a, b), (b, a)):
        if p_ is None or lim is None or p_["k"] != "Ref" or p_.get("dk") != "global" or "*" not in f.ty(p_):
            continue
        arr = None
        for y in walk(lim):
            if y["k"] == "Ref" and y.get("dk") == "global" and "[" in f.ty(y):
                arr = y
        if arr is None:
            continue
        ok = True
        nw = 0
        for g in prog.all_functions():
            for y in g.walk():
                tgt = None
                if y["k"] in ("Assign", "CompoundAssign"):
                    tgt, rhs = strip(y["ch"][0]), strip(y["ch"][1])
                    if tgt is not None and tgt["k"] == "Ref" and tgt.get("n") == p_["n"] and tgt.get("dk") == "global":
                        nw += 1
                        if y["k"] == "Assign" and not any(z["k"] == "Ref" and z.get("n") == arr["n"] for z in walk(rhs)):
                            ok = False
                        if y["k"] == "CompoundAssign" and not isinstance((rhs or {}).get("val"), int):
                            ok = False
                elif y["k"] == "Unary" and ("++" in (y.get("op") or "") or "--" in (y.get("op") or "")):
                    tgt = strip(y["ch"][0])
                    if tgt is not None and tgt["k"] == "Ref" and tgt.get("n") == p_["n"] and tgt.get("dk") == "global":
                        nw += 1
        if ok and nw:
            return "`%s` is a cursor into the array `%s` (every assignment sets it to the array, an element of it or one step further): both operands lie in one object" % (p_["n"], arr["n"])
    return None


def r4_r5_sources(prog, res):
    n_src = 0
    ncmp = 0
    for f in prog.all_functions():
        rel = f.relfile()
        for x in f.walk():
            if x["k"] == "Call" and (x.get("fn") or "") in SOURCES:
                n_src += 1
                why = SOURCE_OK.get((rel, f.name, x["fn"]))
                res.add("R4.no_ambient_source", "R4|%s|%s|%s" % (rel, f.name, x["fn"]), f.where(x), why is not None,
                        "frozen: " + why if why else
                        "%s() brings the %s into a program whose output must be a function of the schema text" %
                        (x["fn"], "clock/randomness/process identity/environment"))
            if x["k"] == "Str" and x.get("m") in ("__DATE__", "__TIME__", "__TIMESTAMP__"):
                res.add("R4.no_ambient_source", "R4|%s|%s|%s" % (rel, f.name, x["m"]), f.where(x), False, "%s is compiled into the program" % x["m"])
            if x["k"] == "Cast" and x.get("ck") == "PointerToIntegral":
                ncmp += 1
                why = PTR_IDIOM.get(f.name)
                res.add("R5.no_address_arithmetic", "R5|%s|%s|ptr-to-int" % (rel, f.name), f.where(x), why is not None,
                        "frozen idiom: " + why if why else
                        "%s converts the pointer %s to an integer: hashes, orders or printed numbers derived from it change with the address-space layout" %
                        (f.name, expr_str(strip(x["ch"][0]))[:40]))
            if x["k"] == "Binary" and x.get("op") in ("<", ">", "<=", ">="):
                ta, tb = f.ty(strip(x["ch"][0])), f.ty(strip(x["ch"][1]))
                if ("*" in ta or "[" in ta) and ("*" in tb or "[" in tb):
                    ncmp += 1
                    why = PTR_IDIOM.get(f.name)
                    if why is None:
                        why = _cursor_of_same_array(prog, f, strip(x["ch"][0]), strip(x["ch"][1]))
                    res.add("R5.no_address_arithmetic", "R5|%s|%s|ptr-order" % (rel, f.name), f.where(x), why is not None,
                            "frozen idiom: " + why if why else
                            "%s orders two pointers (%s): an order that depends on where objects were allocated" % (f.name, expr_str(x)[:60]))
    res.floor("R5", "pointer comparisons / pointer-to-integer casts classified", ncmp, 20)
    res.floor("R4", "ambient-source calls classified", n_src, 2)
    # the hash and the alphabetic inserters look at characters only
    h = prog.one("HASHhash")
    if h is None:
        res.broke("anchor vanished: HASHhash")
    else:
        bad = []
        for x in h.walk():
            if x["k"] == "Ref" and x.get("dk") in ("param", "local") and "*" in h.ty(x):
                p = h.parent.get(x["i"])
                while p is not None and p["k"] in ("Cast", "Paren"):
                    if p["k"] == "Cast" and p.get("ck") == "PointerToIntegral":
                        break
                    p = h.parent.get(p["i"])
                if p is None:
                    continue
                if p["k"] == "Cast" and p.get("ck") == "PointerToIntegral":
                    bad.append(expr_str(x))
                if p["k"] == "Binary" and p.get("op") in ("+", "-", "*", "^", "%", "&", "|", "<<", ">>") and "*" not in h.ty(p):
                    bad.append(expr_str(p))
        res.add("R5.hash_reads_characters", "R5|src/express/hash.c|HASHhash|characters-only", h.where(), not bad,
                "the bucket of a key is computed from its characters and the table geometry only" if not bad else
                "HASHhash mixes a pointer value into the hash: %s" % bad[:2])
    n = 0
    for name in ("SCOPEadd_inorder", "SCOPEaddvars_inorder"):
        for f in prog.fn(name):
            n += 1
            cmps = [x for x in f.walk() if x["k"] == "Binary" and x.get("op") in ("<", ">", "<=", ">=")]
            ok = bool(cmps) and all(any(y["k"] == "Call" and (y.get("fn") or "").split("::")[-1] in ("strcmp", "__builtin_strcmp", "strcasecmp") for y in walk(c)) for c in cmps)
            res.add("R5.order_by_name", "R5|%s|%s|strcmp" % (f.relfile(), name), f.where(), ok,
                    "the alphabetic order is decided by strcmp on names" if ok else "%s no longer orders by strcmp on names" % name)
    res.floor("R5", "alphabetic inserters", n, 2)


# --------------------------------------------------------------------------- R6
def path_source(x):
    if x["k"] == "Ref" and x.get("dk") == "global" and x["n"] == "input_filename":
        return "input_filename"
    if x["k"] == "Member" and x["n"] == "filename" and "Symbol_" in (x.get("q") or ""):
        return "Symbol_::filename"
    if x["k"] == "Str" and x.get("m") == "__FILE__":
        return "__FILE__"
    return None


def r6_path(prog, res):
    fm = dict(LIBC_FMT)
    fm.update(user_formatters(prog))
    n = 0
    keys = {}
    for f in prog.all_functions():
        if comp_of(f) not in OUT_COMPONENTS:
            continue
        rel = f.relfile()
        for c in f.calls():
            nm = c.get("fn") or ""
            sinks = []
            if nm in fm:
                sk = sink_kind(f, c, nm, fm[nm])
                if sk in ("diag", "stdout"):
                    continue
                sinks = call_args(c)[fm[nm] + 1:]
            elif c.get("opcall") == "<<" and len(c["ch"]) == 2:
                # stream insertion: skip cerr chains
                base = c
                while base is not None and base["k"] == "Call" and base.get("opcall") == "<<":
                    base = strip(base["ch"][0])
                if base is not None and base["k"] == "Ref" and base["n"] in ("cerr", "clog"):
                    continue
                sinks = [c["ch"][1]]
            for a in sinks:
                for x in walk(a):
                    src = path_source(x)
                    if not src:
                        continue
                    n += 1
                    k = "R6|%s|%s|%s" % (rel, f.name, src)
                    keys[k] = keys.get(k, 0) + 1
                    if keys[k] > 1:
                        k += "#%d" % keys[k]
                    if src == "__FILE__":
                        res.add("R6.path_free_output", k, f.where(c), True,
                                "__FILE__ is a constant of the built program: the same on every run, cwd and input path")
                    elif (rel, f.name) in PATH_OK:
                        res.add("R6.path_free_output", k, f.where(c), True, "frozen: " + PATH_OK[(rel, f.name)])
                    else:
                        res.add("R6.path_free_output", k, f.where(c), False,
                                "%s (the path by which the input was named) is written into generated output: the same schema "
                                "named by another path gives different bytes" % src)
    # values derived from input_filename that name output: the scanner's directory
    f = prog.one("makeShortName")
    if f is not None:
        uses = [x for x in f.walk() if path_source(x) == "input_filename"]
        res.add("R6.path_free_output", "R6|cmake/schema_scanner/schemaScanner.cc|makeShortName|input_filename", f.where(uses[0]) if uses else f.where(),
                not uses,
                "the directory name does not depend on the input path" if not uses else
                "the name of the output directory (and of the library) is derived from the path of the input file: "
                "data/ap203/x.exp and ./x.exp give differently named trees for the same schema")
    f = prog.one("writeLists")
    if f is not None:
        cw = [c for c in f.calls() if (c.get("fn") or "") == "getcwd"]
        for c in cw:
            res.add("R6.path_free_output", "R6|cmake/schema_scanner/schemaScanner.cc|writeLists|getcwd", f.where(c), False,
                    "the scanner prints the absolute working directory: its standard output depends on where it is run")
    res.floor("R6", "path-carrying operands at output sinks", n, 5)


def r7_append_only_to_created(prog, res):
    """A file that a run only ever opens for appending keeps what earlier runs left in it: the output tree then depends on
    the state of the output directory, not only on the schema.  Every file-name template exp2cxx opens in append mode must
    also be opened for writing (truncating) under the same template (templates computed by C17's string-template engine)."""
    from rules import c17
    import facts
    import ir as _ir
    # the template engine resolves callees by name: give it exp2cxx alone (exp2python defines functions of the same names)
    units, _route = facts.compile_db()
    prog17 = _ir.Program(facts.extract(facts.select(units, c17.UNITS["components"], None)))
    gen = c17.generator_files(prog17, res)
    if gen is None:
        return
    n = 0
    for t, e in sorted(gen.items()):
        if "a" not in e["modes"]:
            continue
        n += 1
        ok = "w" in e["modes"]
        res.add("R7.append_only_to_created", "R7|appended|%s" % t, sorted(e["sites"])[0], ok,
                "%s is appended to only after the same run has created (truncated) it" % t if ok else
                "%s is opened for appending but no open of that name truncates it: text left by an earlier run stays in the file, "
                "so regenerating into a used directory gives a different tree than generating into an empty one" % t)
    res.info["r7_file_templates"] = len(gen)
    res.floor("R7.append_only_to_created", "file-name templates opened for appending", n, 1)
    res.floor("R7.append_only_to_created", "file-name templates of the generator", len(gen), 10)


def site_key(fn, rule, desc, counters):
    base = "%s|%s|%s|%s" % (rule, fn.relfile(), fn.name, desc)
    c = counters.get(base, 0)
    counters[base] = c + 1
    return base if c == 0 else "%s#%d" % (base, c)


def r8_discriminated_object(prog, res):
    """`Rename::object` is a `void *` whose kind is recorded in `Rename::type` (entity, type, constant, function, ...).  Casting it
    to a Scope/Entity/Type and dereferencing it without having looked at `type` reads a Variable_ (a constant) as if it were a
    scope: pointer bytes end up as `names` in the generated text, different on every run.  On every path from the point where
    the Rename variable gets its value to such a dereference a test of its `type` must have been passed."""
    n = 0
    counters = {}
    for f in prog.all_functions():
        if f.component not in OUT_COMPONENTS or f.cfg is None:
            continue
        for x in f.walk():
            if x["k"] != "Member" or not x.get("arrow") or not x.get("ch"):
                continue
            b = x["ch"][0]
            inner = strip(b)
            if b is None or b["k"] != "Cast" or inner is None or inner["k"] != "Member" or inner.get("q") != "Rename::object":
                continue
            rv = strip(inner["ch"][0]) if inner.get("ch") else None
            if rv is None or rv["k"] != "Ref":
                continue
            n += 1
            d = rv["d"]

            def is_test(e, d=d):
                for y in walk(e):
                    if y["k"] == "Member" and y.get("q") == "Rename::type" and y.get("ch") and strip(y["ch"][0]) is not None and strip(y["ch"][0]).get("d") == d:
                        par = f.parent.get(y["i"])
                        # a read inside a condition / comparison, not a use as a printf argument
                        while par is not None and par["k"] == "Cast":
                            par = f.parent.get(par["i"])
                        if par is not None and (par["k"] in ("Binary", "Switch", "If") or par["k"] == "Unary"):
                            return True
                return False
            defs = []
            for y in f.walk():
                if y["k"] == "Assign" and strip(y["ch"][0]) is not None and strip(y["ch"][0])["k"] == "Ref" and strip(y["ch"][0]).get("d") == d:
                    defs.append(f.cfg.locate(y))
                elif y["k"] == "Var" and y.get("d") == d and y.get("ch") and y["ch"][0] is not None:
                    defs.append(f.cfg.locate(y))
            if rv.get("dk") == "param" or not defs:
                defs.append((f.cfg.entry, -1))
            pos = f.cfg.locate(x)
            bad = [p_ for p_ in defs if p_ is not None and f.cfg.reaches(p_, pos, is_test)]
            ok = not bad
            res.add("R8.object_kind_tested", site_key(f, "R8", "(%s)%s->object" % (f.ty(b).replace("struct ", "").replace(" *", ""), rv["n"]), counters), f.where(x), ok,
                    "`%s->type` is tested on every path before `%s->object` is used as a %s" % (rv["n"], rv["n"], f.ty(b)) if ok else
                    "`%s->object` is cast to %s and dereferenced on a path that never looked at `%s->type`: for a CONSTANT brought in by USE / "
                    "REFERENCE the object is a Variable_, whose first word is a pointer - pointer bytes are printed as a name" % (rv["n"], f.ty(b), rv["n"]))
    res.floor("R8.object_kind_tested", "dereferences of a cast Rename::object in the generators", n, 10)


def run(prog, res, tier):
    # an object handed to a helper under the wrong struct type is read through the wrong layout: what the helper takes for a name is
    # then the bytes of a heap pointer, and anything ordered or printed by it changes with the address-space layout of the run
    # (rule and engine shared with C18 R1: the units are re-parsed with the conversion diagnostics switched on)
    from rules import c18
    c18.r1_decls(res, tier, rule="R9.no_type_confusion", components={"express", "exppp", "exp2cxx"}, min_units=60,
                 tail=" — the callee reads the object through the wrong layout; a name taken from it is made of pointer bytes, which differ from run to run")
    # a local that is read before anything was stored in it holds whatever the stack held: a counter printed into generated code then
    # differs from run to run (clang's flow-sensitive -Wuninitialized / -Wsometimes-uninitialized over the generator units)
    c18.r1_decls(res, tier, rule="R10.no_uninitialised_local", components={"express", "exppp", "exp2cxx", "exp2python"}, min_units=70,
                 wflags=("-Wno-everything", "-Wuninitialized", "-Wsometimes-uninitialized"), groups=("uninitialized", "sometimes-uninitialized"),
                 tail=" — the value is whatever the stack held; printed or used as a number in generated text it differs between runs")
    r8_discriminated_object(prog, res)
    r7_append_only_to_created(prog, res)
    r1_r2_formats(prog, res)
    r3_union(prog, res)
    r4_r5_sources(prog, res)
    r6_path(prog, res)
