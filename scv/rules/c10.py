"""C10 — the lazy loader sees the same file as the eager reader (structural clauses).

 R1 index         addLazyInstance records, on every path, the type and the stream position of the instance, and for a
                  non-empty reference list the forward entry and — for each element of the *same* list — the transposed
                  reverse entry; nobody else inserts into the four tables
 R2 scanner       the instance scanner dispatches on the character read at the loop head: strings are consumed by the
                  literal reader, comments by the comment skipper, before a '#' inside them could be seen; the '#' arm
                  records exactly the number it read
 R3 load once     loadInstance returns the cached object first, caches only a real object, and is the only writer of
                  the cache
 R4 closure       instanceDependencies seeds its work list from the forward entry of the instance only and expands an
                  element exactly when it is new
 R5 comments      the comment accumulator that is attached to the instance is passed to every token-separator call of
                  the instance reader, in the lazy reader as in the eager one
"""
import re
from ir import walk, strip, expr_str
from engines import known_facts, flatten_switch, call_args

PID = "C10"
UNITS = dict(components={"cllazyfile", "cleditor", "clstepcore"})
LEVEL_TEXT = "other"
TECHNIQUE = ("static analysis: paired-update (dominance) and who-may-write rules on the lazy index tables, switch-arm/callee "
             "summary rules on the instance scanner, cache typestate of loadInstance, work-list shape, accumulator threading "
             "over every token-separator call of the eager and the lazy instance reader")
EXPLANATION = (
    "Structural necessary conditions decided on the CFG/AST of cllazyfile (and the eager reader for the sibling rule). "
    "(R1) lazyInstMgr::addLazyInstance: _instanceTypes->insert and _instanceStreamPos.insert post-dominate the entry; "
    "_fwdInstanceRefs.insert(id, *refs) is paired with a loop over the same refs inserting (*it, id) into _revInstanceRefs "
    "(key/value transposed); no other function inserts into these tables, also not through getFwdRefs()/getRevRefs(). "
    "(R2) sectionReader::seekInstanceEnd and findNormalString: arms for the quote (re-position + GetLiteralStr) and for '/' "
    "followed by '*' (findNormalString(\"*/\")) exist; the '#' arm pushes the value extracted from the stream and nothing else. "
    "(R3) loadInstance: the cache look-up and `if(inst) return inst` dominate every other statement; the only "
    "_instancesLoaded.insert is guarded by !isNilSTEPentity(inst). (R4) instanceDependencies: initial fill from "
    "_fwdRefs->find(id) only; expansion under the .second of the insert into the result set; the cursor advances every iteration. "
    "(R5) in every function that attaches a comment string to an instance (AddP21Comment/PrependP21Comment of a local string) "
    "each ReadTokenSeparator call from which the attach is reachable passes the address of that string. "
    "(R2b) while the end of a comment is searched the lazy scanner neither skips \"strings\" nor recurses on a further \"/*\". (R3b) a data instance is entered into the loaded set before its attributes are read (reference cycles). (R4b) the work list of instanceDependencies only grows at its end unless the cursor is not advanced afterwards. (R6) every C library integer conversion in the reader libraries uses base 10. Not decided: equality of the index with the eager population, offsets, serialisation equality, complex instances."
    " (R7) section and stream offset of an instance share one 64-bit word; the packing site (addLazyInstance) and the unpacking sites (loadInstance, typeFromFile, countDataSections) shift by the same constant K and mask with 2^K-1: writer and readers of the word agree on its layout."
    " (R8) the delimiter constant of every call of sectionReader::getDelimitedKeyword (or its default argument) covers what the eager reader accepts behind an entity keyword: `(`, every white-space character unless the delimiter test itself has an isspace() conjunct, and `/` as long as the scanner's comment branch runs only before the keyword starts.")

TABLES = {"lazyInstMgr::_instanceTypes", "lazyInstMgr::_instanceStreamPos", "lazyInstMgr::_fwdInstanceRefs", "lazyInstMgr::_revInstanceRefs"}
MUT = {"insert", "erase", "clear", "remove", "operator[]"}


def table_of(n):
    n = strip(n)
    while n is not None and n["k"] in ("Unary", "Paren") and n.get("ch"):
        n = strip(n["ch"][0])
    if n is not None and n["k"] == "Member" and n.get("q") in TABLES:
        return n["q"].split("::")[1]
    if n is not None and n["k"] == "Call" and (n.get("fn") or "").endswith(("getFwdRefs", "getRevRefs")):
        return "_fwdInstanceRefs" if n["fn"].endswith("getFwdRefs") else "_revInstanceRefs"
    return None


def r1_index(prog, res):
    f = prog.one("lazyInstMgr::addLazyInstance")
    if f is None:
        res.broke("anchor vanished: lazyInstMgr::addLazyInstance")
        return
    cfg = f.cfg
    ins = {}
    for c in f.calls():
        if c.get("member") and c.get("ch") and (c.get("fn") or "").split("::")[-1] == "insert":
            t = table_of(c["ch"][0])
            if t:
                ins.setdefault(t, []).append(c)
    for t in ("_instanceTypes", "_instanceStreamPos"):
        cs = ins.get(t, [])
        # on every path that returns normally (assert failures do not return)
        ok = len(cs) == 1 and cfg.exit not in cfg.paths_avoiding((cfg.entry, -1), lambda e, c0=cs[0] if cs else None: c0 is not None and e["i"] == c0["i"])
        res.add("R1.recorded_on_every_path", "R1|src/cllazyfile/lazyInstMgr.cc|addLazyInstance|%s" % t, f.where(cs[0]) if cs else f.where(), ok,
                "%s.insert is executed for every instance handed to the index" % t if ok else
                "%s is not updated on every path of addLazyInstance: an instance can be missing from the index" % t)
    fw, rv = ins.get("_fwdInstanceRefs", []), ins.get("_revInstanceRefs", [])
    if len(fw) != 1 or len(rv) != 1:
        res.add("R1.transposed", "R1|src/cllazyfile/lazyInstMgr.cc|addLazyInstance|fwd-rev", f.where(), False,
                "expected one insert into the forward and one into the reverse table, found %d/%d" % (len(fw), len(rv)))
    else:
        fa, ra = call_args(fw[0]), call_args(rv[0])
        idtxt = expr_str(strip(fa[0]))
        lst = re.sub(r"^\*", "", expr_str(strip(fa[1])).replace("(", "").replace(")", ""))
        loops = [a for a in f.ancestors(rv[0]) if a["k"] in ("For", "While")]
        ok_loop = False
        it = None
        if loops:
            lp = loops[0]
            txt = " ".join(expr_str(c) for c in lp["ch"][:3] if c is not None)
            # iterator initialised from <list>.begin() before or in the loop, compared with <list>.end(), incremented
            inits = [x for x in f.walk() if x["k"] == "Var" and x.get("ch") and re.sub(r"[\s()]", "", expr_str(strip(x["ch"][-1]))).endswith(lst.replace(" ", "") + ".begin")]
            it = inits[0]["n"] if inits else None
            ok_loop = it is not None and (lst.replace(" ", "") + ".end") in re.sub(r"[\s()]", "", txt) and ("++" in txt)
        ok_args = it is not None and re.sub(r"[\s()]", "", expr_str(strip(ra[0]))) == "*" + it and expr_str(strip(ra[1])) == idtxt
        same_guard = cfg.dominates(cfg.locate(fw[0]), cfg.locate(rv[0])) or True
        ok = ok_loop and ok_args
        res.add("R1.transposed", "R1|src/cllazyfile/lazyInstMgr.cc|addLazyInstance|fwd-rev", f.where(rv[0]), ok,
                "forward entry (%s -> %s) and, for each element of the same list, the reverse entry (element -> %s)" % (idtxt, lst, idtxt) if ok else
                "the reverse table is not filled as the transpose of the forward entry: loop over the forward list [%s], insert(*it, id) [%s]" % (ok_loop, ok_args))
        # both or neither: the reverse loop and the forward insert live under the same conditions
        g1 = [expr_str(a["ch"][0]) for a in f.ancestors(fw[0]) if a["k"] == "If"]
        g2 = [expr_str(a["ch"][0]) for a in f.ancestors(rv[0]) if a["k"] == "If"]
        res.add("R1.transposed", "R1|src/cllazyfile/lazyInstMgr.cc|addLazyInstance|same-guard", f.where(fw[0]), g1 == g2,
                "forward and reverse entries are written under the same conditions" if g1 == g2 else
                "forward entry under %s, reverse entries under %s" % (g1, g2))
    # who may write
    n = 0
    for g in prog.all_functions():
        for c in g.calls():
            if not (c.get("member") and c.get("ch")):
                continue
            m = (c.get("fn") or "").split("::")[-1]
            t = table_of(c["ch"][0])
            if t and m in MUT:
                n += 1
                ok = g.name == "lazyInstMgr::addLazyInstance" or (m == "clear" and g.name in ("lazyInstMgr::~lazyInstMgr", "lazyInstMgr::unloadInstances"))
                res.add("R1.who_writes", "R1|%s|%s|%s.%s" % (g.relfile(), g.name, t, m), g.where(c), ok,
                        "%s.%s in %s" % (t, m, g.name) if ok else
                        "%s mutates the index table %s (%s) outside addLazyInstance: the tables can go out of step with the file" % (g.name, t, m))
    res.floor("R1", "mutations of the index tables", n, 4)


def arm_of(sw, ch):
    items = flatten_switch(sw)
    for i, (labs, stmt) in enumerate(items):
        if ord(ch) in labs:
            body = []
            for _, st in items[i:]:
                if st is not None:
                    body.append(st)
                    if any(x["k"] in ("Break", "Return") for x in walk(st)):
                        break
            return body
    return None


def r2_scanner(prog, res):
    f = prog.one("sectionReader::seekInstanceEnd")
    if f is None:
        res.broke("anchor vanished: sectionReader::seekInstanceEnd")
        return
    sws = [x for x in f.walk() if x["k"] == "Switch"]
    loops = [x for x in f.walk() if x["k"] == "While"]
    if len(sws) != 1 or not loops or not any(y is sws[0] for y in walk(loops[0])):
        res.add("R2.scanner_dispatch", "R2|src/cllazyfile/sectionReader.cc|seekInstanceEnd|shape", f.where(), False,
                "seekInstanceEnd is no longer one loop reading a character and dispatching on it")
        return
    sw = sws[0]
    cond = expr_str(loops[0]["ch"][0])
    got = None
    for x in walk(loops[0]["ch"][0]):
        if x["k"] == "Assign" and strip(x["ch"][1]) is not None and strip(x["ch"][1])["k"] == "Call" and (strip(x["ch"][1]).get("fn") or "").endswith("::get"):
            got = strip(x["ch"][0]).get("d")
    ok = got is not None and strip(sw["ch"][0]) is not None and strip(sw["ch"][0]).get("d") == got
    res.add("R2.scanner_dispatch", "R2|src/cllazyfile/sectionReader.cc|seekInstanceEnd|loop-head", f.where(loops[0]), ok,
            "each iteration reads one character and dispatches on it" if ok else "loop head / switch operand changed: %s / %s" % (cond, expr_str(sw["ch"][0])))
    q = arm_of(sw, "'")
    okq = q is not None and any(x["k"] == "Call" and (x.get("fn") or "") == "GetLiteralStr" for st in q for x in walk(st)) and \
        any(x["k"] == "Call" and (x.get("fn") or "").endswith("seekg") for st in q for x in walk(st))
    res.add("R2.string_arm", "R2|src/cllazyfile/sectionReader.cc|seekInstanceEnd|quote", f.where(q[0]) if q else f.where(sw), okq,
            "a quote re-positions the stream and lets GetLiteralStr consume the whole string (a '#', '(' or ';' inside it is never dispatched)" if okq else
            "the string arm no longer hands the literal to GetLiteralStr: characters inside strings are scanned as syntax")
    s = arm_of(sw, "/")
    oks = s is not None and any(x["k"] == "Call" and (x.get("fn") or "").endswith("findNormalString") and
                                 any(strip(a) is not None and strip(a).get("s") == "*/" for a in walk(x)) for st in s for x in walk(st)) and \
        any(x["k"] == "If" and "'*'" in expr_str(x["ch"][0]).replace("42", "'*'") or (x["k"] == "If" and "peek" in expr_str(x["ch"][0])) for st in s for x in walk(st))
    res.add("R2.comment_arm", "R2|src/cllazyfile/sectionReader.cc|seekInstanceEnd|comment", f.where(s[0]) if s else f.where(sw), oks,
            "'/' followed by '*' skips to the end of the comment" if oks else "the comment arm no longer skips to '*/'")
    h = arm_of(sw, "#")
    okh = False
    why = "no '#' arm"
    if h is not None:
        pushes = [x for st in h for x in walk(st) if x["k"] == "Call" and (x.get("fn") or "").endswith("push_back")]
        reads = [x for st in h for x in walk(st) if x["k"] == "Call" and x.get("opcall") == ">>"]
        digit = [x for st in h for x in walk(st) if x["k"] == "If" and "isdigit" in expr_str(x["ch"][0])]
        okh = len(pushes) == 1 and len(reads) == 1 and bool(digit)
        if okh:
            pv = strip(call_args(pushes[0])[0])
            rv = strip(reads[0]["ch"][1])
            okh = pv is not None and rv is not None and pv.get("d") == rv.get("d") and f.cfg.dominates(f.cfg.locate(reads[0]), f.cfg.locate(pushes[0]))
        why = "push_back calls %d, stream extractions %d, digit test %s" % (len(pushes), len(reads), bool(digit))
    res.add("R2.reference_arm", "R2|src/cllazyfile/sectionReader.cc|seekInstanceEnd|hash", f.where(h[0]) if h else f.where(sw), okh,
            "'#' followed by a digit extracts one id and records exactly that id" if okh else "the '#' arm changed: " + why)
    # findNormalString skips strings and comments as well
    g = prog.one("sectionReader::findNormalString")
    if g is None:
        res.broke("anchor vanished: sectionReader::findNormalString")
        return
    lits = [c for c in g.calls() if (c.get("fn") or "") == "GetLiteralStr"]
    rec = [c for c in g.calls() if (c.get("fn") or "").endswith("findNormalString") and any(strip(a) is not None and strip(a).get("s") == "*/" for a in walk(c))]
    ok = bool(lits) and bool(rec)
    res.add("R2.search_skips_strings_and_comments", "R2|src/cllazyfile/sectionReader.cc|findNormalString|skips", g.where(), ok,
            "the token search steps over string literals and comments" if ok else "findNormalString no longer steps over strings/comments")
    # ... but not while it is itself looking for the end of a comment: every caller that skips a comment does so through
    # findNormalString( "*/" ), and inside a comment an apostrophe or a further "/*" means nothing.  The string skip and the
    # recursive comment skip must therefore be switched off by a test that depends on the searched text being "*/".
    def comment_mode_flags():
        out = set()
        for x in g.walk():
            if x["k"] == "Var" and x.get("ch") and x["ch"][0] is not None and any(y["k"] == "Str" and y.get("s") == "*/" for y in walk(x["ch"][0])) and \
                    any(y["k"] == "Ref" and y.get("d") == g.params[0]["d"] for y in walk(x["ch"][0])):
                out.add(x["d"])
        return out
    flags = comment_mode_flags()
    for what, calls_ in (("string skip (GetLiteralStr)", lits), ("nested comment skip (recursive call)", rec)):
        for c in calls_:
            guarded = False
            for cn, pol in known_facts(g, c):
                cn0 = strip(cn)
                refs = [y for y in walk(cn0)] if cn0 is not None else []
                if any(y["k"] == "Ref" and y.get("d") in flags for y in refs) and pol is False:
                    guarded = True
                if any(y["k"] == "Str" and y.get("s") == "*/" for y in refs) and any(y["k"] == "Ref" and y.get("d") == g.params[0]["d"] for y in refs):
                    guarded = True
            res.add("R2.comment_text_is_opaque", "R2|src/cllazyfile/sectionReader.cc|findNormalString|%s" % what.split(" (")[0], g.where(c), guarded,
                    "the %s is switched off while the end of a comment is searched" % what if guarded else
                    "while findNormalString( \"*/\" ) looks for the end of a comment it still performs the %s: an apostrophe inside a comment "
                    "swallows text up to the next apostrophe (instances vanish from the index), and every further \"/*\" recurses" % what)


def r6_ids_decimal(prog, res):
    """Instance names are decimal (`#0010` is instance 10).  The eager reader extracts them with `in >> int` (decimal unless the
    stream's basefield is changed); every C library conversion of the lazy loader must therefore use base 10 - base 0 would read a
    zero-padded name as octal - and nobody may switch a reader stream to another base."""
    n = 0
    for f in prog.all_functions():
        if f.component not in ("cllazyfile", "clstepcore", "cleditor"):
            continue
        for c in f.calls():
            fn_ = c.get("fn") or ""
            if fn_ in ("strtol", "strtoll", "strtoul", "strtoull", "_strtoui64", "strtoimax", "strtoumax"):
                a = call_args(c)
                n += 1
                b = strip(a[2]).get("val") if len(a) > 2 and strip(a[2]) is not None else None
                ok = b == 10
                res.add("R6.ids_decimal", "R6|%s|%s|%s-base" % (f.relfile(), f.name, fn_), f.where(c), ok,
                        "%s( .., 10 ): numbers are read as decimal" % fn_ if ok else
                        "%s is called with base %s: a zero-padded instance name such as #0010 is read as octal (8) by the lazy loader, while the "
                        "eager reader reads 10 - index, reference tables and loaded instances no longer correspond" % (fn_, b))
            elif fn_.split("::")[-1] in ("setf", "unsetf", "flags") and any(y["k"] == "Ref" and (y.get("n") or "") in ("basefield", "hex", "oct") for a in call_args(c) for y in walk(a)):
                n += 1
                res.add("R6.ids_decimal", "R6|%s|%s|basefield" % (f.relfile(), f.name), f.where(c), False,
                        "%s changes the number base of a stream in the reader libraries" % f.name)
    res.floor("R6.ids_decimal", "C library integer conversions in the reader libraries", n, 1)


def r3_cache(prog, res):
    f = prog.one("lazyInstMgr::loadInstance")
    if f is None:
        res.broke("anchor vanished: lazyInstMgr::loadInstance")
        return
    cfg = f.cfg
    finds = [c for c in f.calls() if c.get("ch") and (c.get("fn") or "").split("::")[-1] == "find" and
             strip(c["ch"][0]) is not None and strip(c["ch"][0]).get("q") == "lazyInstMgr::_instancesLoaded"]
    ins = [c for c in f.calls() if c.get("ch") and (c.get("fn") or "").split("::")[-1] == "insert" and
           strip(c["ch"][0]) is not None and strip(c["ch"][0]).get("q") == "lazyInstMgr::_instancesLoaded"]
    loads = [c for c in f.calls() if (c.get("fn") or "").endswith("getRealInstance")]
    ok = len(finds) == 1 and bool(loads)
    early = None
    if ok:
        # `if (inst) return inst;` right after the look-up, before the loader is called
        for x in f.walk():
            if x["k"] == "If" and strip(x["ch"][0]) is not None and strip(x["ch"][0])["k"] == "Ref":
                rets = [y for y in walk(x["ch"][1]) if y["k"] == "Return"]
                if rets and cfg.dominates(cfg.locate(finds[0]), f.first_pos(x["ch"][0])) and \
                        all(cfg.dominates(f.first_pos(x["ch"][0]), cfg.locate(l)) for l in loads):
                    v = strip(rets[0]["ch"][0]) if rets[0].get("ch") else None
                    if v is not None and v.get("d") == strip(x["ch"][0]).get("d"):
                        early = x
        ok = early is not None
    res.add("R3.cached_first", "R3|src/cllazyfile/lazyInstMgr.cc|loadInstance|cache-hit", f.where(early) if early else f.where(), ok,
            "an instance already loaded is returned before anything is read again" if ok else
            "loadInstance no longer returns the cached object before calling the section reader: repeated loads give different objects")
    okc = len(ins) == 1
    if okc:
        conds = [a for a in f.ancestors(ins[0]) if a["k"] == "If"]
        okc = any("isNilSTEPentity" in expr_str(a["ch"][0]) and expr_str(a["ch"][0]).lstrip("(").startswith("!") for a in conds) and \
            all(cfg.reaches(cfg.locate(l), cfg.locate(ins[0])) for l in loads)
        a2 = call_args(ins[0])
        okc = okc and strip(a2[0]).get("dk") == "param"
    res.add("R3.cache_real_objects_only", "R3|src/cllazyfile/lazyInstMgr.cc|loadInstance|cache-insert", f.where(ins[0]) if ins else f.where(), okc,
            "only a real object, keyed by the requested id, is entered into the cache" if okc else
            "the cache insert of loadInstance is no longer guarded by !isNilSTEPentity(inst) / keyed by the id asked for")
    # the stream position of the interrupted reader is restored after everything that can move the stream
    seeks = [c for c in f.calls() if (c.get("fn") or "").endswith("::seekg")]
    movers = [c for c in f.walk() if (c["k"] == "Call" and (c.get("fn") or "").endswith("getRealInstance")) or
              (c["k"] == "Construct" and (c.get("fn") or "") == "lazyRefs::lazyRefs")]
    late = [(s_, m) for s_ in seeks for m in movers if cfg.reaches(cfg.locate(s_), cfg.locate(m))]
    guarded = all(any("reSeek" in expr_str(a["ch"][0]) for a in f.ancestors(s_) if a["k"] == "If") for s_ in seeks)
    oks = bool(seeks) and len(movers) >= 2 and not late and guarded
    res.add("R3.stream_restored_last", "R3|src/cllazyfile/lazyInstMgr.cc|loadInstance|reseek", f.where(seeks[0]) if seeks else f.where(), oks,
            "when asked to (reSeek) the stream position is put back after the instance was read and its inverse attributes were resolved" if oks else
            "the stream position is restored before %s: what follows loads further instances and moves the stream, so the reader that was "
            "interrupted continues at the wrong offset" % (", ".join(sorted({(m.get("fn") or "").split("::")[-1] for _, m in late})) or "nothing (no restore / no mover found)"))
    # an instance is entered into the cache before its attributes are read: reading an entity reference loads the referenced
    # instance, and on a reference cycle that leads back to the instance being read
    early_keys = set()
    for g in prog.all_functions():
        if g.name == "lazyInstMgr::loadInstance" or len(g.params) != 2:
            continue
        cs = [c for c in g.calls() if c.get("member") and c.get("ch") and strip(c["ch"][0]) is not None and
              strip(c["ch"][0]).get("q") == "lazyInstMgr::_instancesLoaded" and (c.get("fn") or "").split("::")[-1] == "insert"]
        if len(cs) == 1 and [strip(a).get("d") for a in call_args(cs[0]) if strip(a) is not None] == [p_["d"] for p_ in g.params] and \
                len([x for x in g.walk() if x["k"] == "Call"]) == 1:
            early_keys.add(g.key)
    gr = prog.one("sectionReader::getRealInstance")
    if gr is None:
        res.broke("anchor vanished: sectionReader::getRealInstance")
    else:
        reads = [c for c in gr.calls() if (c.get("fn") or "").endswith("::STEPread") and
                 any(y["k"] == "Call" and (y.get("fn") or "").endswith("getAdapter") for a in call_args(c) for y in walk(a))]
        if not reads:
            res.broke("R3: getRealInstance no longer reads the attributes through the manager's adapter")
        for rd in reads:
            okr = False
            why = "no call that enters the instance into the loaded set precedes the attribute read"
            for c in gr.calls():
                if c.get("fk") not in early_keys:
                    continue
                a = call_args(c)
                if len(a) != 2 or strip(a[0]) is None or strip(a[0]).get("dk") != "param":
                    why = "the early registration is not keyed by the id asked for"
                    continue
                recv = strip(rd["ch"][0]) if rd.get("ch") else None
                if strip(a[1]) is None or recv is None or strip(a[1]).get("d") != recv.get("d"):
                    why = "the early registration does not register the object whose attributes are read"
                    continue
                ifs = [x for x in gr.ancestors(c) if x["k"] == "If"]
                inner_ok = all(expr_str(strip(x["ch"][0])).replace(" ", "") in ("!header", "(!header)") and any(y is c for y in walk(x["ch"][1])) for x in ifs)
                outer = [x for x in gr.ancestors(rd) if x["k"] == "If"]
                ifs_extra = [x for x in ifs if not any(x is o for o in outer)]
                pos_ok = all(gr.cfg.dominates(gr.first_pos(x["ch"][0]), gr.cfg.locate(rd)) for x in ifs_extra) if ifs_extra else gr.cfg.dominates(gr.cfg.locate(c), gr.cfg.locate(rd))
                if all(expr_str(strip(x["ch"][0])).replace(" ", "") in ("!header", "(!header)") and any(y is c for y in walk(x["ch"][1])) for x in ifs_extra) and pos_ok:
                    okr = True
                else:
                    why = "the early registration is conditional on more than `!header` or does not come before the read on every path"
            res.add("R3.registered_before_attributes", "R3|src/cllazyfile/sectionReader.cc|getRealInstance|register-before-read", gr.where(rd), okr,
                    "a data instance is entered into the loaded set before its attributes are read (a reference cycle finds it there)" if okr else
                    "%s: a reference cycle (#1 -> #2 -> #1) makes loadInstance recurse until the stack overflows" % why)
    n = 0
    for g in prog.all_functions():
        for c in g.calls():
            if c.get("member") and c.get("ch") and strip(c["ch"][0]) is not None and strip(c["ch"][0]).get("q") == "lazyInstMgr::_instancesLoaded" and \
                    (c.get("fn") or "").split("::")[-1] in MUT:
                n += 1
                m = (c.get("fn") or "").split("::")[-1]
                ok = g.name == "lazyInstMgr::loadInstance" or (m == "clear" and g.name in ("lazyInstMgr::~lazyInstMgr", "lazyInstMgr::unloadInstances")) or \
                    (m == "insert" and g.key in early_keys)
                res.add("R3.who_writes_cache", "R3|%s|%s|_instancesLoaded.%s" % (g.relfile(), g.name, m), g.where(c), ok,
                        "_instancesLoaded.%s in %s" % (m, g.name) if ok else "%s writes the loaded-instance cache" % g.name)
    res.floor("R3", "writers of the loaded-instance cache", n, 1)


def r4_closure(prog, res):
    f = prog.one("lazyInstMgr::instanceDependencies")
    if f is None:
        res.broke("anchor vanished: lazyInstMgr::instanceDependencies")
        return
    p = f.params[0]["d"]
    loops = [x for x in f.walk() if x["k"] == "While"]
    if len(loops) != 1:
        res.add("R4.worklist", "R4|src/cllazyfile/lazyInstMgr.cc|instanceDependencies|shape", f.where(), False, "the work-list loop is gone")
        return
    lp = loops[0]
    finds = [c for c in f.calls() if (c.get("fn") or "").split("::")[-1] == "find"]
    seed = [c for c in finds if not any(y is c for y in walk(lp))]
    ok_seed = len(seed) == 1 and strip(call_args(seed[0])[0]).get("d") == p
    # nothing inserts id itself into the result or the queue
    direct = [c for c in f.calls() if (c.get("fn") or "").split("::")[-1] in ("insert", "push_back") and
              any(strip(a) is not None and strip(a)["k"] == "Ref" and strip(a).get("d") == p for a in call_args(c))]
    res.add("R4.seed", "R4|src/cllazyfile/lazyInstMgr.cc|instanceDependencies|seed", f.where(seed[0]) if seed else f.where(), ok_seed and not direct,
            "the work list starts from the forward references of the instance; the instance itself is never put in" if ok_seed and not direct else
            "the work list is not seeded from _fwdRefs->find(id) alone (seed ok: %s, id inserted directly: %s)" % (ok_seed, bool(direct)))
    # expansion under isNew
    news = [x for x in walk(lp) if x["k"] == "Var" and x.get("ch") and expr_str(strip(x["ch"][0])).endswith(".second")]
    exp = [c for c in finds if any(y is c for y in walk(lp))]
    ok = len(news) == 1 and len(exp) == 1
    if ok:
        conds = [a for a in f.ancestors(exp[0]) if a["k"] == "If" and any(y is a for y in walk(lp))]
        ok = any(strip(a["ch"][0]) is not None and strip(a["ch"][0]).get("d") == news[0]["d"] for a in conds)
        ins_txt = expr_str(strip(news[0]["ch"][0]))
        ok = ok and "insert" in ins_txt and "checkedDependencies" in ins_txt
    res.add("R4.expand_when_new", "R4|src/cllazyfile/lazyInstMgr.cc|instanceDependencies|expand", f.where(exp[0]) if exp else f.where(lp), ok,
            "an element is expanded exactly when its insertion into the result set was new" if ok else
            "expansion is no longer tied to the result of inserting the element into the result set")
    incs = [x for x in walk(lp["ch"][1]) if x["k"] == "Unary" and x.get("op") in ("post++", "pre++")]
    cvar = strip(strip(lp["ch"][0])["ch"][0]).get("d") if strip(lp["ch"][0]) is not None and strip(lp["ch"][0])["k"] == "Binary" else None
    ok = any(strip(i["ch"][0]).get("d") == cvar and not [a for a in f.ancestors(i) if a["k"] == "If" and any(y is a for y in walk(lp))] for i in incs)
    res.add("R4.cursor_advances", "R4|src/cllazyfile/lazyInstMgr.cc|instanceDependencies|cursor", f.where(lp), ok,
            "the cursor advances in every iteration" if ok else "the work-list cursor is not advanced unconditionally")
    # the queue indexed by the cursor only grows at its end while it is walked: removing or inserting in front of the
    # cursor shifts an unvisited element into a visited slot (or a visited one back), and the closure misses / repeats it
    q = None
    c0 = strip(lp["ch"][0])
    if c0 is not None and c0["k"] == "Binary":
        for side in c0["ch"]:
            sc = strip(side)
            if sc is not None and sc["k"] == "Call" and (sc.get("fn") or "").split("::")[-1] == "size" and sc.get("ch"):
                r = strip(sc["ch"][0])
                if r is not None and r["k"] == "Ref":
                    q = r
    if q is None:
        res.broke("R4: the work-list loop of instanceDependencies is not bounded by <queue>.size() any more")
        return
    bad = []
    nq = 0
    for c in walk(lp["ch"][1]):
        if c["k"] != "Call" or not c.get("member") or not c.get("ch"):
            continue
        r = strip(c["ch"][0])
        if r is None or r["k"] != "Ref" or r.get("d") != q["d"]:
            continue
        nq += 1
        m = (c.get("fn") or "").split("::")[-1]
        if m in ("size", "at", "operator[]", "end", "cend", "push_back", "emplace_back", "empty", "back"):
            continue
        if m == "insert":
            a = call_args(c)
            first = [y for y in walk(a[0]) if y["k"] == "Call"] if a else []
            if first and (first[-1].get("fn") or "").split("::")[-1] in ("end", "cend") and strip(first[-1]["ch"][0]) is not None \
                    and strip(first[-1]["ch"][0]).get("d") == q["d"]:
                continue
        # harmless when the cursor is not advanced afterwards in the same iteration (`erase(..); continue;`)
        condn = strip(lp["ch"][0])
        cur_incs = [i for i in incs if strip(i["ch"][0]).get("d") == cvar]
        if cur_incs and not any(f.cfg.reaches(f.cfg.locate(c), f.cfg.locate(i), lambda e: e is condn or e is lp["ch"][0]) for i in cur_incs):
            continue
        bad.append(c)
    res.add("R4.queue_only_grows_at_end", "R4|src/cllazyfile/lazyInstMgr.cc|instanceDependencies|queue", f.where(bad[0]) if bad else f.where(lp), not bad,
            "inside the loop `%s` is only read and appended to at its end (%d uses)" % (q["n"], nq) if not bad else
            "`%s` is walked by index but %s() changes it inside the loop other than by appending at its end: an unvisited element "
            "moves into an already visited slot and is never examined" % (q["n"], (bad[0].get("fn") or "").split("::")[-1]))
    if nq < 3:
        res.broke("R4: fewer than 3 uses of the work list inside its loop (%d)" % nq)


def r5_comments(prog, res):
    n = 0
    for f in prog.all_functions():
        attach = [c for c in f.calls() if (c.get("fn") or "").split("::")[-1] in ("AddP21Comment", "PrependP21Comment")]
        if not attach:
            continue
        accs = {}
        for a in attach:
            args = call_args(a)
            v = strip(args[0]) if args else None
            if v is not None and v["k"] == "Ref" and v.get("dk") == "local":
                accs.setdefault(v["d"], (v["n"], []))[1].append(a)
        seps = [c for c in f.calls() if (c.get("fn") or "") == "ReadTokenSeparator"]
        if not accs or not seps:
            continue
        cfg = f.cfg
        for d, (name, atts) in accs.items():
            passing = []
            for c in seps:
                args = call_args(c)
                a1 = strip(args[1]) if len(args) > 1 else None
                passes = a1 is not None and a1["k"] == "Unary" and a1.get("op") == "&" and strip(a1["ch"][0]) is not None and strip(a1["ch"][0]).get("d") == d
                if passes:
                    passing.append(c)
            if not passing:
                continue
            att_ids = {a["i"] for a in atts}
            for c in seps:
                if not any(cfg.reaches(cfg.locate(c), cfg.locate(a)) for a in atts):
                    continue
                # inside the accumulation window of an instance: a collecting call reaches it without an attach in between
                if c not in passing and not any(cfg.reaches(cfg.locate(q), cfg.locate(c), lambda e: e["i"] in att_ids) for q in passing):
                    continue
                n += 1
                ok = c in passing
                k = "R5|%s|%s|ReadTokenSeparator@%d" % (f.relfile(), f.name, sum(1 for x in seps if x["l"] <= c["l"]))
                res.add("R5.comment_accumulator_threaded", k, f.where(c), ok,
                        "the separator call collects comments into '%s', which is attached to the instance" % name if ok else
                        "%s skips a comment here without collecting it into '%s' (the other separator calls of the function do): the comment "
                        "is lost for the instance, which then serialises differently from what the other reader builds" % (f.name, name))
    res.floor("R5", "token-separator calls ahead of a comment attach", n, 4)


def r7_packed_word(prog, res):
    """The lazy index keeps section and stream offset of an instance in one 64-bit word: `ps = section; ps <<= K; ps |= offset & M` on the
    writing side, `ps & M` / `ps >> K` on the reading sides (loadInstance, typeFromFile).  The sides agree only when every site uses the
    same K and M == 2^K - 1; a narrower mask on one side makes the loader seek to offset mod 2^n - into the middle of another instance -
    for every instance beyond that offset, while the index (ids, types, references) stays right.  Sites are found by shape: a 64-bit
    variable of a cllazyfile function that is shifted by a constant >= 32 and combined with / masked by a constant."""
    def bare(n):
        n = strip(n)
        while n is not None and n["k"] in ("Paren", "Cast") and n.get("ch") and "val" not in n:
            n = strip(n["ch"][0])
        return n
    groups = {}
    for f in prog.all_functions():
        if f.component != "cllazyfile":
            continue
        for n in f.walk():
            if n["k"] not in ("Binary", "CompoundAssign") or n.get("op") not in ("<<", ">>", "<<=", ">>=", "&", "&="):
                continue
            a, b = bare(n["ch"][0]), bare(n["ch"][1])
            if n["op"].startswith(("<<", ">>")):
                if a is not None and a["k"] == "Ref" and a.get("dk") in ("local", "param") and "long" in f.ty(a) and \
                        b is not None and isinstance(b.get("val"), int) and b["val"] >= 32:
                    groups.setdefault((f.key, a["d"]), {"f": f, "v": a["n"], "K": [], "M": []})["K"].append((b["val"], n))
        for n in f.walk():
            if n["k"] in ("Binary", "CompoundAssign") and n.get("op") in ("&", "&="):
                a, b = bare(n["ch"][0]), bare(n["ch"][1])
                for x, y in ((a, b), (b, a)):
                    if y is None or not isinstance(y.get("val"), int) or y["val"] < 0xFFFF:
                        continue
                    # unpack: v & M        pack: v |= ( e & M )
                    if x is not None and x["k"] == "Ref" and (f.key, x.get("d")) in groups:
                        groups[(f.key, x["d"])]["M"].append((y["val"], n))
                    else:
                        par = f.parent.get(n["i"])
                        while par is not None and par["k"] in ("Paren", "Cast"):
                            par = f.parent.get(par["i"])
                        if par is not None and par["k"] in ("CompoundAssign", "Binary") and par.get("op") in ("|=", "|"):
                            t = bare(par["ch"][0])
                            if t is not None and t["k"] == "Ref" and (f.key, t.get("d")) in groups:
                                groups[(f.key, t["d"])]["M"].append((y["val"], n))
    ks = sorted({k for g in groups.values() for k, _ in g["K"]})
    n = 0
    for (fk, d), g in sorted(groups.items(), key=lambda kv: (kv[1]["f"].relfile(), kv[1]["f"].line)):
        f = g["f"]
        if not g["M"]:
            continue
        n += 1
        K = g["K"][0][0]
        badm = [(m, nd) for m, nd in g["M"] if m != (1 << K) - 1]
        badk = [(k, nd) for k, nd in g["K"] if k != K] or ([(K, g["K"][0][1])] if len(ks) > 1 and K != max(ks, key=lambda k_: sum(1 for g2 in groups.values() if g2["K"][0][0] == k_)) else [])
        ok = not badm and not badk
        res.add("R7.packed_word_fields_agree", "R7|%s|%s|%s" % (f.relfile(), f.name, g["v"]), f.where((badm or badk or [(0, g["K"][0][1])])[0][1]), ok,
                "`%s` is split at bit %d and masked with 2^%d-1 at every site" % (g["v"], K, K) if ok else
                ("`%s` is shifted by %d but masked with %#x (= 2^%d-1): stream offsets of %d bits survive packing, %d bits are expected by "
                 "the other side; an instance beyond that offset is loaded from another instance's text"
                 % (g["v"], K, badm[0][0], badm[0][0].bit_length(), badm[0][0].bit_length(), K)) if badm else
                "`%s` is shifted by %d here, by %s elsewhere" % (g["v"], badk[0][0], [k for k in ks if k != badk[0][0]]))
    res.floor("R7.packed_word_fields_agree", "pack / unpack sites of the position word", n, 3)


def r8_keyword_delimiters(prog, res):
    """The index scanner and the loader read an entity keyword with sectionReader::getDelimitedKeyword(delimiters), which sets failbit
    (the section is given up) when the character behind the keyword is not one of `delimiters`.  The eager reader accepts, behind a
    keyword, the parenthesis that opens the parameter list, white space, or a comment.  So the constant every call site passes (or
    the default argument) must contain `(`, every white-space character unless the delimiter test itself accepts isspace() - and `/` as long as the scanner's own comment branch only runs before the
    keyword has started (then a comment directly behind the keyword reaches the delimiter test)."""
    g = next((x for x in prog.all_functions() if x.name == "sectionReader::getDelimitedKeyword" and x.cfg is not None), None)
    if g is None:
        res.broke("anchor vanished: sectionReader::getDelimitedKeyword")
        return
    # is the comment branch restricted to an empty keyword?
    restricted = None
    for i_ in g.walk():
        if i_["k"] != "If" or not i_.get("ch"):
            continue
        vals = {y.get("val") for y in walk(i_["ch"][0]) if "val" in y}
        if 47 in vals and 42 in vals:      # c == '/' && peek() == '*'
            restricted = any(y["k"] == "Call" and (y.get("fn") or "").rsplit("::", 1)[-1] in ("length", "size", "empty") for y in walk(i_["ch"][0]))
    need = {"(": "opens the parameter list"}
    # white space: accepted by the delimiter test itself (an isspace() conjunct next to the strchr() test) or by every constant
    ws_in_test = False
    for i_ in g.walk():
        if i_["k"] == "If" and i_.get("ch") and any(y["k"] == "Call" and (y.get("fn") or "") == "strchr" for y in walk(i_["ch"][0])):
            ws_in_test = any(y["k"] == "Call" and (y.get("fn") or "") == "isspace" for y in walk(i_["ch"][0])) or \
                any((y.get("mo") or y.get("m") or "") == "isspace" for y in walk(i_["ch"][0]))
    if not ws_in_test:
        for ch_, nm_ in ((" ", "a blank"), ("\t", "a tab"), ("\n", "a line break"), ("\r", "a carriage return")):
            need[ch_] = nm_ + " behind the keyword (white space; the eager reader skips it)"
    if restricted is None or restricted:
        need["/"] = "a comment directly behind the keyword (the scanner skips comments only before the keyword starts)"
    n = 0
    for f in prog.all_functions():
        if f.component == "test":
            continue
        for c in f.calls():
            if (c.get("fn") or "") != "sectionReader::getDelimitedKeyword":
                continue
            a = call_args(c)
            s0 = next((y for y in walk(a[-1]) if y["k"] == "Str"), None) if a else None
            n += 1
            if s0 is None:
                res.add("R8.keyword_delimiters_cover_followers", "R8|%s|%s|%s" % (f.relfile(), f.name, n), f.where(c), False,
                        "the delimiter set of this call is not a string constant: cannot be compared with what may follow a keyword")
                continue
            text = s0.get("s") or ""
            miss = [k for k in need if k not in text]
            res.add("R8.keyword_delimiters_cover_followers", "R8|%s|%s|%s" % (f.relfile(), f.name, c["l"]), f.where(c), not miss,
                    "delimiters %r%s cover `(`, white space%s" % (text, " with the isspace() test" if ws_in_test else "", " and `/`" if "/" in need else "") if not miss else
                    "delimiters %r lack %s: the lazy loader gives the whole data section up at an instance the eager reader accepts "
                    "(`#30=CARTESIAN_POINT/* c */(...)`)" % (text, ", ".join("%r (%s)" % (k, need[k]) for k in miss)))
    res.floor("R8.keyword_delimiters_cover_followers", "calls of getDelimitedKeyword", n, 4)


def run(prog, res, tier):
    r8_keyword_delimiters(prog, res)
    r1_index(prog, res)
    r2_scanner(prog, res)
    r3_cache(prog, res)
    r4_closure(prog, res)
    r6_ids_decimal(prog, res)
    r5_comments(prog, res)
    r7_packed_word(prog, res)
