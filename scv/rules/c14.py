"""C14 — appending a file keeps both populations whole and their references separate.

 R1 threading  the id offset (addFileId / idIncr) is threaded to every reference reader on the file path
 R2 passes     in both passes (CreateInstance, ReadInstance) the id parsed from the stream is shifted
               before any look-up or creation uses it; ReadInstance hands FileIdIncr() to the attribute readers
 R3 order      SetFileIdIncrement() precedes pass 1 in AppendFile; Read{Exchange,Working}File clear the
               instance manager before AppendFile; _fileIdIncr has no other writer; the offset expression
               exceeds MaxFileId (bounded exhaustive evaluation of the expression tree)
 R4 refs       ReadEntityRef shifts the parsed id by addFileId before FindFileId
"""
import math

from engines import threading, call_args, peval
from ir import walk, strip, expr_str, access_path
from rules.c15 import entry_keys

PID = "C14"
UNITS = dict(components={"clstepcore", "cldai", "cleditor", "clutils", "cllazyfile"})
EXPLANATION = (
    "(R1) E8 parameter threading of the id offset family (addFileId / idIncr*) over the resolved call graph from the "
    "file entry points with class-hierarchy expansion: every call from a function that owns the offset to a function "
    "that accepts it must pass the caller's own offset, never a literal or a defaulted omission. (R2) In "
    "STEPfile::CreateInstance and ::ReadInstance the variable extracted from the stream is re-assigned through "
    "IncrementFileId before any other use (dominance on the CFG), and IncrementFileId returns id + FileIdIncr(). "
    "(R3) SetFileIdIncrement() dominates ReadData1 in AppendFile, ClearInstances() dominates AppendFile in the Read* "
    "entry points, _fileIdIncr is written only by the constructor and SetFileIdIncrement, whose offset expression is "
    "evaluated from its expression tree for every MaxFileId in [0,200000] and powers of two up to 2^30 and must exceed "
    "it. (R4) In ReadEntityRef `id += addFileId` dominates FindFileId(id). (R5) maxFileId, from which the offset is computed, is a high-water mark: "
    "it is only written -1, max+1 or an instance id under the guard `id > MaxFileId()` (writer rule shared with C13). (R5) writers of maxFileId (shared with C13 R3). (R6) every InstMgr method that empties the master array leaves maxFileId below the threshold of STEPfile::SetFileIdIncrement's emptiness test. Not decided: that earlier instances keep "
    "their values; behaviour for ids near INT_MAX."
    " (R7, shared with C03 R9) an instance id read from the file is never converted to a narrower integer type."
    " (R6i) every path through STEPfile::SetFileIdIncrement assigns _fileIdIncr.")

FAMILY = r"^(addFileId|idIncr\w*|fileIdIncr)$"
# header-section instances live in the separate _headerInstances manager, are numbered by the reader
# itself and contain no instance references: offset 0 is correct there (confirmed by reading STEPfile.cc)
_H = "header section: own instance manager, no references, ids assigned by the reader"
HEADER_EXEMPT = {"STEPfile::ReadHeader": _H, "STEPfile::HeaderDefaultFileName": _H,
                 "STEPfile::HeaderDefaultFileDescription": _H, "STEPfile::HeaderDefaultFileSchema": _H}


def shift_before_use(prog, res, fname, file_suffix, rule, is_shift_expr, what):
    """The id extracted from the stream (`in >> V`) may reach look-ups / readers only after the file id
    offset has been added: every use of V as a call argument must be dominated by `V = shift(V)`;
    uses inside a shift expression (e.g. `X = IncrementFileId(V)`) and diagnostics are not uses."""
    fs = [f for f in prog.by_name.get(fname, []) if f.file.endswith(file_suffix)]
    done = 0
    for f in fs:
        cfg = f.cfg
        extracted = {}
        for n in f.walk():
            if n["k"] == "Call" and n.get("opcall") == ">>" and len(n["ch"]) == 2:
                v = strip(n["ch"][1])
                if v["k"] == "Ref" and v.get("dk") == "local" and f.ty(v) in ("int", "unsigned int", "long", "unsigned long", "long long", "unsigned long long", "short", "unsigned short"):
                    extracted.setdefault(v["d"], n)
        for d, ext in extracted.items():
            shift_nodes = [n for n in f.walk() if is_shift_expr(f, n, d)]
            in_shift = set()
            for sn in shift_nodes:
                for x in walk(sn):
                    in_shift.add(x["i"])
            self_shifts = []
            for n in f.walk():
                if n["k"] in ("Assign", "CompoundAssign"):
                    lhs = strip(n["ch"][0])
                    if lhs["k"] == "Ref" and lhs.get("d") == d and (n["i"] in in_shift or any(x["i"] in in_shift for x in walk(n["ch"][1]))):
                        self_shifts.append(n)
            uses = []
            for n in f.walk():
                if n["k"] != "Call" or n["i"] in in_shift and not any(s is n for s in shift_nodes) and False:
                    continue
                if n.get("opcall") or n.get("fn") in ("sprintf", "snprintf", "printf", "fprintf"):
                    continue
                if n["i"] in in_shift:
                    continue
                for a in call_args(n):
                    if any(x["k"] == "Ref" and x.get("d") == d and x["i"] not in in_shift for x in walk(a)):
                        uses.append(n)
                        break
            if not uses and not shift_nodes:
                continue
            done += 1
            key = "%s|%s|%s|shift(%s)" % (rule, f.relfile(), f.name, d.split(":")[-1])
            if not shift_nodes:
                res.add(rule, key, f.where(ext), False,
                        "%s: id `%s` read from the stream is used (%s) without adding the file id offset" %
                        (f.name, d.split(":")[-1], expr_str(uses[0])[:60]))
                continue
            bad = [u for u in uses if not any(cfg.dominates(cfg.locate(s), cfg.locate(u)) and cfg.locate(s) != cfg.locate(u)
                                              for s in self_shifts)]
            res.add(rule, key, f.where(shift_nodes[0]), not bad,
                    "%s: all %d call uses of the parsed id `%s` see the shifted value" % (what, len(uses), d.split(":")[-1]) if not bad else
                    "%s: `%s` (line %s) receives the id as parsed from the file, without the file id offset" %
                    (f.name, expr_str(bad[0])[:70], bad[0]["l"]))
    return done


def r1(prog, res):
    n = threading(prog, res, "R1.offset_threading", FAMILY,
                  {"STEPfile": {"_fileIdIncr", "FileIdIncr"}}, entry_keys(prog), why="file id offset",
                  exempt=HEADER_EXEMPT, no_constant_alternative=True)
    res.floor("R1.offset_threading", "call sites that accept the offset", n, 15)


def r2(prog, res):
    def is_incr(f, n, d):
        return n["k"] == "Call" and (n.get("fn") or "").endswith("IncrementFileId") and \
            any(x["k"] == "Ref" and x.get("d") == d for x in walk(n))
    n = 0
    for fn in ("STEPfile::CreateInstance", "STEPfile::ReadInstance"):
        n += shift_before_use(prog, res, fn, "cleditor/STEPfile.cc", "R2.shift_in_both_passes", is_incr, fn)
    res.floor("R2.shift_in_both_passes", "passes with a parsed instance id", n, 2)
    inc = prog.one("STEPfile::IncrementFileId")
    if inc is None:
        res.broke("anchor vanished: STEPfile::IncrementFileId")
    else:
        rets = [r for r in inc.walk() if r["k"] == "Return" and r.get("ch") and r["ch"][0]]
        ok = False
        why = "no return"
        if len(rets) == 1:
            e = strip(rets[0]["ch"][0])
            pd = inc.params[0]["d"] if inc.params else None
            if e["k"] == "Binary" and e["op"] == "+":
                sides = [strip(e["ch"][0]), strip(e["ch"][1])]
                has_p = any(s["k"] == "Ref" and s.get("d") == pd for s in sides)
                has_i = any((s["k"] == "Call" and (s.get("fn") or "").endswith("FileIdIncr")) or
                            (s["k"] == "Member" and s["n"] == "_fileIdIncr") for s in sides)
                ok = has_p and has_i
            why = "returns `%s`" % expr_str(e)
        res.add("R2.increment_fn", "R2|src/cleditor/STEPfile.inline.cc|STEPfile::IncrementFileId|return", inc.where(), ok,
                "IncrementFileId returns its argument plus the current offset" if ok else "IncrementFileId %s" % why)
    # ReadInstance takes FileIdIncr() (threading rule checks the argument expression is derived from it)


def eval_num(n, env):
    """float partial evaluator for the offset expression (ceil/floor/casts/arithmetic)."""
    n0 = n
    if n is None:
        return None
    k = n["k"]
    if k in ("Int", "Char", "Bool"):
        return n["val"]
    if k == "Float":
        try:
            return float(n["fval"])
        except ValueError:
            return None
    ch = n.get("ch") or []
    if k == "Cast":
        v = eval_num(ch[0], env)
        if v is None:
            return None
        t = n.get("ck", "")
        if t == "FloatingToIntegral":
            return int(v)
        if t == "IntegralToFloating":
            return float(v)
        return v
    if k == "Call":
        fn = (n.get("fn") or "").split("::")[-1]
        if fn in env:
            return env[fn]
        if fn in ("ceil", "floor") and len(ch) == 1:
            v = eval_num(ch[0], env)
            return None if v is None else float(math.ceil(v) if fn == "ceil" else math.floor(v))
        return None
    if k == "Unary" and n["op"] == "-":
        v = eval_num(ch[0], env)
        return None if v is None else -v
    if k == "Binary":
        a, b = eval_num(ch[0], env), eval_num(ch[1], env)
        if a is None or b is None:
            return None
        op = n["op"]
        if op == "+":
            return a + b
        if op == "-":
            return a - b
        if op == "*":
            return a * b
        if op == "/":
            if b == 0:
                return None
            if isinstance(a, int) and isinstance(b, int):
                return int(a / b)
            return a / b
        if op == "%":
            return a % b if b else None
        if op in ("<", "<=", ">", ">=", "==", "!="):
            return int(eval("a %s b" % op))
    if k in ("Ref", "Member") and n.get("n") in env:
        return env[n["n"]]
    return None


def r3(prog, res):
    app = prog.one("STEPfile::AppendFile")
    if app is None:
        res.broke("anchor vanished: STEPfile::AppendFile")
        return
    cfg = app.cfg
    setc = [c for c in app.calls() if (c.get("fn") or "").endswith("SetFileIdIncrement")]
    p1 = [c for c in app.calls() if (c.get("fn") or "").endswith("ReadData1")]
    p2 = [c for c in app.calls() if (c.get("fn") or "").endswith("ReadData2")]
    if not p1 or not p2:
        res.broke("AppendFile: ReadData1/ReadData2 calls not found")
    for i, c in enumerate(p1 + p2):
        ok = any(cfg.dominates(cfg.locate(s), cfg.locate(c)) for s in setc)
        res.add("R3.increment_before_pass1", "R3|src/cleditor/STEPfile.cc|STEPfile::AppendFile|%s#%d" % (c["fn"].split("::")[-1], i),
                app.where(c), ok, "SetFileIdIncrement() dominates %s" % c["fn"].split("::")[-1] if ok else
                "%s is reachable without SetFileIdIncrement()" % c["fn"].split("::")[-1])
    # no SetFileIdIncrement between the two passes (the offset of pass 2 must equal that of pass 1)
    for s in setc:
        for a in p1:
            for b in p2:
                between = cfg.dominates(cfg.locate(a), cfg.locate(s)) and cfg.dominates(cfg.locate(s), cfg.locate(b))
                if between:
                    res.add("R3.increment_before_pass1", "R3|src/cleditor/STEPfile.cc|STEPfile::AppendFile|reset-between-passes",
                            app.where(s), False, "SetFileIdIncrement() is called again between pass 1 and pass 2")
    for name in ("STEPfile::ReadExchangeFile", "STEPfile::ReadWorkingFile"):
        f = prog.one(name)
        if f is None:
            res.broke("anchor vanished: " + name)
            continue
        clr = [c for c in f.calls() if (c.get("fn") or "").endswith("InstMgr::ClearInstances") or
               ((c.get("fn") or "").endswith("ClearInstances") and "instances()" in expr_str(c))]
        apps = [c for c in f.calls() if (c.get("fn") or "").endswith("AppendFile")]
        for c in apps:
            ok = any(f.cfg.dominates(f.cfg.locate(s), f.cfg.locate(c)) for s in clr)
            res.add("R3.clear_before_read", "R3|%s|%s|ClearInstances->AppendFile" % (f.relfile(), f.name), f.where(c), ok,
                    "instances().ClearInstances() dominates AppendFile" if ok else
                    "%s calls AppendFile without clearing the instance manager first" % name)
    # writers of _fileIdIncr
    for f in prog.all_functions():
        if f.component == "test":
            continue
        for n in f.walk():
            if n["k"] in ("Assign", "CompoundAssign") or (n["k"] == "Unary" and ("++" in n["op"] or "--" in n["op"])):
                lhs = strip(n["ch"][0])
                if lhs["k"] == "Member" and lhs["n"] == "_fileIdIncr":
                    ok = f.name == "STEPfile::SetFileIdIncrement"
                    idx = len([o for o in res.obs if o.rule == "R3.offset_writers"])
                    res.add("R3.offset_writers", "R3|%s|%s|_fileIdIncr=#%d" % (f.relfile(), f.name, idx), f.where(n), ok,
                            "_fileIdIncr written by SetFileIdIncrement" if ok else "_fileIdIncr written in %s" % f.name)
    # the offset expression
    s = prog.one("STEPfile::SetFileIdIncrement")
    if s is None:
        res.broke("anchor vanished: STEPfile::SetFileIdIncrement")
        return
    assigns = [n for n in s.walk() if n["k"] == "Assign" and strip(n["ch"][0]).get("n") == "_fileIdIncr"]
    ifs = [n for n in s.walk() if n["k"] == "If"]
    if len(assigns) != 2 or len(ifs) != 1:
        res.broke("SetFileIdIncrement: shape not understood (%d assignments, %d ifs)" % (len(assigns), len(ifs)))
        return
    cond = ifs[0]["ch"][0]
    then, els = ifs[0]["ch"][1], ifs[0]["ch"][2]

    def value_for(m):
        env = {"MaxFileId": m}
        c = eval_num(strip(cond), env)
        if c is None:
            return None
        br = then if c else els
        for n in walk(br):
            if n["k"] == "Assign" and strip(n["ch"][0]).get("n") == "_fileIdIncr":
                return eval_num(n["ch"][1], env)
        return None
    samples = list(range(-1, 200001)) + [2 ** k for k in range(18, 31)] + [2 ** k - 1 for k in range(18, 31)]
    bad = None
    unknown = 0
    for m in samples:
        v = value_for(m)
        if v is None:
            unknown += 1
            continue
        if m < 0:
            if v != 0:
                bad = (m, v, "empty manager must give offset 0")
                break
        elif not (v > m):
            bad = (m, v, "offset does not exceed the largest existing id")
            break
    if unknown:
        res.broke("SetFileIdIncrement: offset expression not evaluable (%d samples)" % unknown)
    res.add("R3.offset_exceeds_max", "R3|src/cleditor/STEPfile.inline.cc|STEPfile::SetFileIdIncrement|offset>max", s.where(), bad is None,
            "offset(MaxFileId) > MaxFileId for all %d evaluated MaxFileId values; offset(-1) = 0" % len(samples) if bad is None else
            "MaxFileId=%s gives offset %s: %s" % bad, {"expression": expr_str(assigns[1]["ch"][1]), "samples": len(samples)})


def r4(prog, res):
    def is_add(f, n, d):
        import re as _re
        pd = [p["d"] for p in f.params if p["n"] and _re.match(FAMILY, p["n"])]
        if n["k"] == "CompoundAssign" and n["op"] == "+=":
            lhs = strip(n["ch"][0])
            return lhs["k"] == "Ref" and lhs.get("d") == d and any(x["k"] == "Ref" and x.get("d") in pd for x in walk(n["ch"][1]))
        if n["k"] == "Binary" and n["op"] == "+":
            refs = [x.get("d") for x in walk(n) if x["k"] == "Ref"]
            return d in refs and any(p in refs for p in pd)
        return False
    fs = [f for f in prog.by_name.get("ReadEntityRef", []) if "istream" in f.key]
    if not fs:
        res.broke("anchor vanished: ReadEntityRef(istream&,...)")
        return
    n = 0
    for f in fs:
        n += shift_before_use(prog, res, "ReadEntityRef", f.file[-30:], "R4.reference_shift", is_add, "ReadEntityRef")
    res.floor("R4.reference_shift", "reference readers", n, 1)


def r5(prog, res):
    """The offset is computed from MaxFileId(): it exceeds every earlier id only if maxFileId really is a high-water mark.
    Same writer rule as C13 R3 (only -1, max+1, or an id under the guard `id > max`), reported here under C14."""
    import report
    from rules import c13
    sub = report.Result("C14")
    c13.r3_max(prog, sub)
    n = 0
    for o in sub.obs:
        n += 1
        res.add(o.rule.replace("R3.", "R5."), "R5|" + "|".join(o.key.split("|")[1:]), o.where, o.ok,
                o.msg if o.ok else o.msg + " — the append offset is derived from it, so instances of an appended file can collide with earlier ones")
    res.broken.extend(sub.broken)
    res.floor("R5", "writers of maxFileId (incl. NextFileId)", n, 5)
    # the offset really is computed from MaxFileId()
    f = prog.one("STEPfile::SetFileIdIncrement")
    ok = f is not None and any((c.get("fn") or "").endswith("MaxFileId") for c in f.calls())
    res.add("R5.offset_from_high_water", "R5|src/cleditor/STEPfile.cc|STEPfile::SetFileIdIncrement|MaxFileId", f.where() if f else "src/cleditor/STEPfile.cc:1", ok,
            "the increment is derived from InstMgr::MaxFileId()" if ok else "SetFileIdIncrement no longer reads MaxFileId()")


def run(prog, res, tier):
    from rules import c13 as _c13
    from rules import c03_more as _c03m
    _c03m.r9_parsed_number_not_narrowed(prog, res, rule="R7.parsed_id_not_narrowed")
    _c13.r3_clear_resets_max(prog, res, rule="R6.cleared_manager_is_recognised_empty")
    _c13.r3_increment_always_recomputed(prog, res, rule="R6.increment_always_recomputed")
    r1(prog, res)
    r2(prog, res)
    r3(prog, res)
    r4(prog, res)
    r5(prog, res)
