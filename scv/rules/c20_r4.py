"""C20 R4 — provenance of the quoted text.

 R4.lookup_scope  at the same sites, a further %s argument that names a scope (`Y->symbol.name`): "in <scope>" is the scope the look-up
                  searched; "for <declaration>" is that declaration or the one whose enclosing scope was searched

 R4.lookup_name   at a report site guarded by a failed look-up (`x = LOOKUP(scope, NAME, ..); if(!x) report(CODE, sym, ARG..)`)
                  the first %s argument is the same access path as NAME
 R4.dup_key       in the dictionary insert functions the quoted name is the key that collided and the quoted line /
                  file are the *old* element's
 R4.lexical       at lexical report sites the quoted character / count is the expression the guarding test examined,
                  or the token text itself
Sites where neither shape applies are listed in the evidence (`r4_unclassified`) and carry no obligation.
"""
import re
from engines import known_facts, parse_format
from ir import walk, strip, expr_str, access_path

REPORTERS = {"ERRORreport": 1, "ERRORreport_with_symbol": 2, "ERRORreport_with_line": 2}
# look-up function -> index of the NAME argument (confirmed by reading the declarations)
LOOKUPS = {
    "SCOPEfind": 1, "SCOPE_find": 1, "SCOPEfind_for_rename": 1, "DICTlookup": 1, "DICTlookup_symbol": 1,
    "VARfind": 1, "ENTITYfind_inherited_attribute": 1, "ENTITYfind_inherited_entity": 1,
    "ENTITY_find_inherited_attribute": 1, "ENTITY_find_inherited_entity": 1, "ENTITYget_named_attribute": 1,
    "fopen": 0, "EXPRESSfind_schema": 1, "ENUM_TYPEget_item": None,
}
# index (among the %s conversions) of the conversion that carries the looked-up name; default 0
NAME_CONV = {"ENUM_NO_SUCH_ITEM": 1}
LEX_FILES = ("generated/expscan.c", "express/lexact.c", "express/expscan.l")
# frozen floors (sites confirmed by reading on the pinned tree)
# diagnostics whose arguments do not quote the input at all (one line of reason each)
NOT_INPUT_QUOTES = {
    "WARN_UNSUPPORTED_LANG_FEAT": "`Unsupported language feature (%s) at %s:%d` names the feature and the tool's own source location (__FILE__, __LINE__)",
}
FLOOR_LOOKUP = 10
FLOOR_LEX = 4


def null_tested_vars(fn, call):
    """variables known to be null at `call` by the enclosing conditions: {decl id: cond node}"""
    out = {}
    for c, pol in known_facts(fn, call):
        c0 = strip(c)
        target = None
        if c0["k"] == "Ref" and not pol:
            target = c0
        elif c0["k"] == "Binary" and c0["op"] in ("==", "!="):
            l, r = strip(c0["ch"][0]), strip(c0["ch"][1])
            isnull = lambda x: x is not None and (x.get("val") == 0 or x["k"] == "Null0")
            want = (c0["op"] == "==") == pol
            if want and isnull(r):
                target = l
            elif want and isnull(l):
                target = r
        if target is None:
            continue
        # embedded assignment  (x = LOOKUP(..)) == 0
        if target["k"] == "Assign":
            lhs = strip(target["ch"][0])
            if lhs["k"] == "Ref":
                out[lhs["d"]] = ("embedded", target)
            continue
        if target["k"] == "Ref" and target.get("dk") in ("local", "param"):
            out.setdefault(target["d"], ("var", c0))
    return out


def last_def(fn, d, site):
    """the assignment / initialiser of local `d` that dominates `site` and is dominated by every other such def"""
    cfg = fn.cfg
    spos = cfg.locate(site)
    defs = []
    for n in fn.walk():
        if n["k"] == "Assign":
            lhs = strip(n["ch"][0])
            if lhs["k"] == "Ref" and lhs.get("d") == d:
                defs.append((n, n["ch"][1]))
        elif n["k"] == "Var" and n.get("d") == d and n.get("ch") and n["ch"][0] is not None:
            defs.append((n, n["ch"][0]))
    dom = [(n, rhs) for n, rhs in defs if cfg.locate(n) is not None and cfg.dominates(cfg.locate(n), spos)]
    if not dom:
        return None, len(defs)
    best = dom[0]
    for cand in dom[1:]:
        if cfg.dominates(cfg.locate(best[0]), cfg.locate(cand[0])):
            best = cand
    # any non-dominating def in between makes the value ambiguous
    return best, len(defs)


def lookup_call(rhs):
    r = strip(rhs)
    while r is not None and r["k"] == "Cast":
        r = strip(r["ch"][0])
    if r is not None and r["k"] == "Call" and r.get("fn") in LOOKUPS:
        return r
    return None


def first_s_arg(ent, var, which=0):
    convs = parse_format(ent["message"] or "") or []
    i = 0
    for c, a in zip(convs, var):
        if c["conv"] == "s":
            if i == which:
                return a
            i += 1
    return None


def all_defs_agree(fn, d):
    """every assignment of local `d` is either a null constant or a look-up with one common NAME path"""
    names = set()
    lcs = []
    for n in fn.walk():
        rhs = None
        if n["k"] == "Assign":
            lhs = strip(n["ch"][0])
            if lhs["k"] == "Ref" and lhs.get("d") == d:
                rhs = n["ch"][1]
        elif n["k"] == "Var" and n.get("d") == d and n.get("ch") and n["ch"][0] is not None:
            rhs = n["ch"][0]
        if rhs is None:
            continue
        r = strip(rhs)
        if r.get("val") == 0 or r["k"] == "Null0":
            continue
        lc = lookup_call(rhs)
        if lc is None or LOOKUPS[lc["fn"]] is None:
            return None
        names.add(access_path(lc["ch"][LOOKUPS[lc["fn"]]]))
        lcs.append(lc)
    if len(names) == 1 and None not in names and lcs:
        return lcs[0]
    return None


def sym_base(a):
    """base object path of a Symbol argument (`&X->symbol` / `X` of type Symbol*) or of a name (`X->symbol.name`)"""
    p = access_path(a)
    if p is None:
        return None
    p = p.lstrip("&")
    for suf in (".symbol.name", ".symbol", ".name"):
        if p.endswith(suf):
            return p[:-len(suf)]
    return p


SAME_SYMBOL_SITES = None


def same_symbol(fn, call, ent, var, key, res):
    """R4.same_symbol (frozen instances): the quoted name and the reported position come from the same symbol"""
    global SAME_SYMBOL_SITES
    import json, os
    if SAME_SYMBOL_SITES is None:
        p = os.path.join(os.path.dirname(__file__), "..", "tables", "c20_same_symbol.json")
        SAME_SYMBOL_SITES = set(json.load(open(p))["sites"]) if os.path.exists(p) else set()
    if call["fn"] != "ERRORreport_with_symbol":
        return False
    sb = sym_base(call["ch"][1])
    convs = parse_format(ent["message"] or "") or []
    sargs = [a for c, a in zip(convs, var) if c["conv"] == "s"]
    holds = sb is not None and any(sym_base(a) == sb and (access_path(a) or "").endswith("name") for a in sargs)
    res.info.setdefault("r4_same_symbol_candidates", []).append(key) if holds else None
    if key in SAME_SYMBOL_SITES:
        res.add("R4.same_symbol", key, fn.where(call), holds,
                "quoted name and reported position belong to the same symbol `%s`" % sb if holds else
                "diagnostic is positioned at `%s` but quotes %s" % (expr_str(call["ch"][1]), [expr_str(a) for a in sargs]))
        return True
    return False


def run(prog, res, tab):
    n_lookup = 0
    n_scope = [0]
    n_lex = 0
    unclassified = []
    counters = {}
    for fn in prog.all_functions():
        if fn.component == "test":
            continue
        for call in fn.calls():
            if call.get("fn") not in REPORTERS:
                continue
            code = strip(call["ch"][0])
            if "val" not in code or code["val"] not in tab:
                continue
            ent = tab[code["val"]]
            var = call["ch"][REPORTERS[call["fn"]]:]
            if not var:
                continue
            cname = ent["code"]
            base = "R4|%s|%s|%s" % (fn.relfile(), fn.name, cname)
            idx = counters.get(base, 0)
            counters[base] = idx + 1
            key = base if idx == 0 else "%s#%d" % (base, idx)
            # ---- dictionary insert: quoted name = colliding key, quoted position = old element's
            if cname in ("DUPLICATE_DECL", "DUPLICATE_DECL_DIFF_FILE"):
                ins = [c for c in fn.calls("HASHsearch")]
                if not ins:
                    unclassified.append(fn.where(call))
                    continue
                hs = ins[0]
                elem = strip(hs["ch"][1])
                elem_path = access_path(elem)   # &new
                keysrc = None
                for n in fn.walk():
                    if n["k"] == "Assign":
                        lhs = strip(n["ch"][0])
                        if lhs["k"] == "Member" and lhs["n"] == "key" and elem_path and access_path(lhs["ch"][0]) == elem_path.lstrip("&"):
                            keysrc = n["ch"][1]
                # the variable holding the old element
                oldvar = None
                for n in fn.walk():
                    if n["k"] == "Assign" and any(x is hs for x in walk(n["ch"][1])):
                        oldvar = access_path(n["ch"][0])
                a0 = first_s_arg(ent, var)
                ok_name = keysrc is not None and a0 is not None and access_path(a0) == access_path(keysrc)
                rest = [a for a in var if a is not a0]
                ok_old = oldvar is not None and all((access_path(a) or "").startswith(oldvar + ".") for a in rest)
                n_lookup += 1
                res.add("R4.dup_key", key, fn.where(call), ok_name and ok_old,
                        "quotes the colliding key `%s` and the old element's position" % expr_str(a0) if ok_name and ok_old else
                        ("quoted name `%s` is not the dictionary key `%s` that collided" % (expr_str(a0), expr_str(keysrc)) if not ok_name else
                         "quoted line/file `%s` is not taken from the previously defined element `%s`" %
                         (", ".join(expr_str(a) for a in rest), oldvar)))
                continue
            # ---- lexical sites: the quoted character / count is what the guard examined
            if fn.file.endswith(LEX_FILES):
                convs = parse_format(ent["message"] or "") or []
                facts = known_facts(fn, call)
                for c, a in zip(convs, var):
                    ap = access_path(a)
                    inner = strip(a)
                    # strip masks / casts:  255 & buffer[0]
                    cands = {access_path(x) for x in walk(a)} - {None}
                    tokenish = any(x["k"] == "Call" and (x.get("fn") or "") in ("getTokenText",) for x in walk(a)) or \
                        any(x["k"] == "Ref" and x["n"] in ("yytext",) for x in walk(a))
                    in_guard = False
                    for cn, pol in facts[:3]:
                        gp = {access_path(x) for x in walk(cn)} - {None}
                        if cands & gp:
                            in_guard = True
                    isfile = any(x["k"] == "Ref" and x.get("dk") == "param" for x in walk(a)) and cname == "INCLUDE_FILE"
                    if cname == "INCLUDE_FILE":
                        break   # handled by the look-up rule below (fopen)
                    if cname in NOT_INPUT_QUOTES and inner is not None and (inner["k"] in ("Str", "Int") or "val" in inner):
                        continue
                    n_lex += 1
                    ok = tokenish or in_guard
                    res.add("R4.lexical", key + "|" + c["text"], fn.where(call), ok,
                            "quoted `%s` is %s" % (expr_str(a), "the token text" if tokenish else "the expression the guard examined") if ok else
                            "quoted `%s` is neither the token text nor examined by the guarding test" % expr_str(a))
                if cname != "INCLUDE_FILE":
                    continue
            # ---- failed look-up
            a0 = first_s_arg(ent, var, NAME_CONV.get(cname, 0))
            if a0 is None:
                continue
            nulls = null_tested_vars(fn, call)
            found = None
            for d, (kind, node) in nulls.items():
                if kind == "embedded":
                    lc = lookup_call(node["ch"][1])
                    if lc:
                        found = (d, lc)
                        break
                else:
                    best, ndefs = last_def(fn, d, call)
                    lc = lookup_call(best[1]) if best is not None else None
                    if lc is None:
                        lc = all_defs_agree(fn, d)
                    if lc:
                        found = (d, lc)
                        break
            if not found:
                if not same_symbol(fn, call, ent, var, key, res):
                    unclassified.append("%s %s" % (fn.where(call), cname))
                continue
            d, lc = found
            ni = LOOKUPS[lc["fn"]]
            if ni is None or ni >= len(lc["ch"]):
                unclassified.append("%s %s" % (fn.where(call), cname))
                continue
            name_arg = lc["ch"][ni]
            n_lookup += 1
            pa, pn = access_path(a0), access_path(name_arg)
            ok = pa is not None and pa == pn
            res.add("R4.lookup_name", key, fn.where(call), ok,
                    "quotes `%s`, the name %s failed to find" % (expr_str(a0), lc["fn"]) if ok else
                    "%s(.., %s, ..) failed but the message quotes `%s`" % (lc["fn"], expr_str(name_arg), expr_str(a0)),
                    {"lookup": expr_str(lc)[:100]})
            # the scope the message names ("Unknown attribute %s in entity %s") is the one that was searched
            if lc["fn"] not in ("fopen", "EXPRESSfind_schema") and lc.get("ch"):
                sp = access_path(lc["ch"][0])
                if sp is not None:
                    if sp.endswith(".symbol_table"):
                        sp = sp[:-len(".symbol_table")]
                    convs = parse_format(ent["message"] or "") or []
                    for c_, a_ in zip(convs, var):
                        if c_["conv"] != "s" or a_ is a0:
                            continue
                        pa_ = access_path(a_)
                        if pa_ is None or not pa_.endswith(".symbol.name"):
                            continue
                        owner = strip(a_)
                        while owner is not None and owner["k"] == "Member" and owner.get("ch"):
                            owner = strip(owner["ch"][0])
                        if owner is None or "Scope_" not in (fn.ty(owner) or ""):
                            continue
                        n_scope[0] += 1
                        named = pa_[:-len(".symbol.name")]
                        # role of the named scope, from the repository's own message template: "... in entity %s" is the scope that
                        # was searched; "... for entity %s" is the declaration the reference stands in (the search starts in it or
                        # in the scope that contains it)
                        before = (ent["message"] or "").split(c_["text"])[0] if c_.get("text") else ""
                        pre = (ent["message"] or "")
                        idx_ = [i_ for i_, cc in enumerate(convs) if cc is c_][0]
                        parts_ = re.split(r"%[-0-9.]*[a-zA-Z]", pre)
                        lead = parts_[idx_].rstrip().lower() if idx_ < len(parts_) else ""
                        exact = re.search(r"\bin( \w+)?$", lead) is not None
                        oks = named == sp or (not exact and sp == named + ".superscope")
                        res.add("R4.lookup_scope", key + "|scope", fn.where(call), oks,
                                "names `%s`, the scope %s searched" % (expr_str(a_), lc["fn"]) if oks else
                                "%s searched `%s` but the message names `%s`: the diagnostic points the reader at a declaration that is "
                                "not the one at fault (it may even declare the name)" % (lc["fn"], expr_str(lc["ch"][0])[:50], expr_str(a_)))
    res.floor("R4.lookup_scope", "diagnostics of a failed look-up that also name a scope", n_scope[0], 3)
    res.floor("R4.lookup_name", "look-up / dictionary guarded report sites", n_lookup, FLOOR_LOOKUP)
    res.floor("R4.lexical", "lexical report arguments", n_lex, FLOOR_LEX)
    res.info["r4_unclassified"] = unclassified
