"""C03 R3-R5: merges, exit gate, dropped error information."""
from engines import known_facts, call_args, peval
from ir import walk, strip, expr_str, access_path
from absint import param_types

ED = "ErrorDescriptor::"
READ_METHODS = {"severity", "UserMsg", "DetailMsg", "severityString", "PrintContents"}
WRITE_METHODS = {"GreaterSeverity", "AppendToDetailMsg", "AppendToUserMsg", "PrependToUserMsg", "PrependToDetailMsg",
                 "AppendFromErrorArg", "ClearErrorMsg"}


SCRATCH = {
    "R5|src/cleditor/STEPfile.cc|STEPfile::FindDataSection|errs<-passed to STEPread": "scratch descriptor: the string is read only to be skipped while searching for DATA;",
    "R5|src/clstepcore/read_func.cc|FindStartOfInstance|errs<-passed to STEPread": "scratch descriptor: a string literal is read only to be skipped during recovery",
    "R5|src/clstepcore/read_func.cc|SkipInstance|errs<-passed to STEPread": "scratch descriptor: a string literal is read only to be skipped during recovery",
    "R5|src/cleditor/STEPfile.cc|STEPfile::CreateSubSuperInstance|err<-passed to SkipSimpleRecord": "pass 1 only collects the part names; the records are read (and their errors reported) in pass 2",
    "R5|src/cllazyfile/sectionReader.cc|sectionReader::CreateSubSuperInstance|err<-passed to SkipSimpleRecord": "only collects the part names; the records are read later by STEPread",
    "R5|src/clstepcore/sdaiApplication_instance.cc|SDAI_Application_instance::ValidLevel|err<-passed to ValidLevel": "editor validation API: the per-attribute severity is returned by the call and merged into *error",
    "R5|src/cleditor/STEPfile.cc|STEPfile::ReadData1|e<-GreaterSeverity": "working-session files only (invalid editing-state letter): outside the exchange-file property; see C16",
}


def r5_dropped(prog, res, sev):
    """(a) local descriptors that may have received a severity are read before they die"""
    n = 0
    counters = {}
    for f in prog.all_functions():
        if f.component in ("test",) or f.cfg is None:
            continue
        locals_ = {}
        for v in f.walk():
            if v["k"] == "Var" and f.tyname(v.get("t")) in ("class ErrorDescriptor", "ErrorDescriptor"):
                locals_[v["d"]] = v
        if not locals_:
            continue
        cfg = f.cfg
        for d, var in locals_.items():
            writes = []   # (node, what)
            reads = []
            for c in f.walk():
                if c["k"] != "Call":
                    continue
                fn = c.get("fn") or ""
                args = call_args(c)
                recv = strip(c["ch"][0]) if c.get("member") and c.get("ch") else None
                is_recv = recv is not None and recv["k"] == "Ref" and recv.get("d") == d
                if fn.startswith(ED) and is_recv:
                    short = fn[len(ED):]
                    if short in READ_METHODS and not (short in ("severity", "UserMsg", "DetailMsg") and len(args) == 1):
                        reads.append(c)
                    elif short == "severity" and len(args) == 1:
                        v = strip(args[0]).get("val")
                        if v is None or v < sev["SEVERITY_USERMSG"]:
                            writes.append((c, "severity(..)"))
                    elif short in ("GreaterSeverity", "AppendFromErrorArg"):
                        writes.append((c, short))
                    continue
                # passed to a callee: by pointer / reference => may be written; AppendFromErrorArg(&L) => read
                for ai, a in enumerate(args):
                    s = strip(a)
                    hit = False
                    if s is not None and s["k"] == "Unary" and s["op"] == "&":
                        t = strip(s["ch"][0])
                        hit = t is not None and t["k"] == "Ref" and t.get("d") == d
                    elif s is not None and s["k"] == "Ref" and s.get("d") == d:
                        hit = True
                    if not hit:
                        continue
                    if fn == ED + "AppendFromErrorArg":
                        reads.append(c)
                    else:
                        pts = param_types(c.get("fk") or "")
                        t = pts[ai] if ai < len(pts) else ""
                        if "ErrorDescriptor" in t and not t.startswith("const "):
                            writes.append((c, "passed to %s" % (fn.split("::")[-1])))
                        else:
                            reads.append(c)
            # returning the object or its members also counts as a read
            for r in f.walk():
                if r["k"] == "Return" and any(x["k"] == "Ref" and x.get("d") == d for x in walk(r)):
                    reads.append(r)
            for w, what in writes:
                n += 1
                wpos = cfg.locate(w)
                ok = False
                for r in reads:
                    rpos = cfg.locate(r)
                    if rpos is None or wpos is None:
                        continue
                    if rpos[0] == wpos[0]:
                        if rpos[1] > wpos[1]:
                            ok = True
                            break
                        # same block earlier: only reachable through a cycle
                    if rpos[0] in cfg.reachable_blocks(wpos[0]) and (rpos[0] != wpos[0] or wpos[0] in _succ_reach(cfg, wpos[0])):
                        ok = True
                        break
                base = "R5|%s|%s|%s<-%s" % (f.relfile(), f.name, var["n"], what)
                k0 = counters.get(base, 0)
                counters[base] = k0 + 1
                key = base if k0 == 0 else "%s#%d" % (base, k0)
                if not ok and key in SCRATCH:
                    res.add("R5.dropped_error", key, f.where(w), True, "accepted: " + SCRATCH[key], assume=SCRATCH[key])
                    continue
                res.add("R5.dropped_error", key, f.where(w), ok,
                        "the severity the local descriptor `%s` may receive here is read or merged afterwards" % var["n"] if ok else
                        "local ErrorDescriptor `%s` may receive an error here (%s) but nothing reads or merges it afterwards: "
                        "the error is dropped when the function returns" % (var["n"], what))
    res.floor("R5.dropped_error", "writes into local error descriptors", n, 20)


def _succ_reach(cfg, b):
    out = set()
    for s in cfg.succ[b]:
        out |= cfg.reachable_blocks(s)
    return out


def r5_part_results(prog, res, sev):
    """(b) a reader called on another object (not `this`) records its errors in that object: the caller must use
    the returned Severity or consult the object's Error() afterwards"""
    n = 0
    counters = {}
    for f in prog.all_functions():
        if f.component in ("test",) or f.cfg is None:
            continue
        cfg = f.cfg
        for c in f.calls():
            fn = c.get("fn") or ""
            short = fn.split("::")[-1]
            if short not in ("STEPread",) or not c.get("member") or not c.get("ch"):
                continue
            if f.ty(c) not in ("enum Severity", "Severity"):
                continue
            recv = strip(c["ch"][0])
            if recv is None or recv["k"] == "This":
                continue
            # does the callee take the caller's descriptor? (then errors flow through it)
            takes_desc = any("ErrorDescriptor" in t for t in param_types(c.get("fk") or ""))
            if takes_desc:
                continue
            parent = f.parent.get(c["i"])
            used = parent is not None and parent["k"] not in ("Compound", "If", "While", "For", "Do", "Case", "Default", "Label") \
                or (parent is not None and parent["k"] in ("If", "While") and parent["ch"][0] is c)
            rp = access_path(recv) or expr_str(recv)
            rp = rp.lstrip("*&")
            # Error() consulted on the same object afterwards?
            consulted = False
            cpos = cfg.locate(c)
            for x in f.calls():
                if (x.get("fn") or "").endswith("::Error") and x.get("ch"):
                    op = (access_path(x["ch"][0]) or expr_str(x["ch"][0])).lstrip("*&")
                    if op == rp:
                        xpos = cfg.locate(x)
                        if xpos and cpos and (xpos[0] in cfg.reachable_blocks(cpos[0])):
                            consulted = True
            n += 1
            base = "R5|%s|%s|%s.STEPread-result" % (f.relfile(), f.name, rp.split(":")[-1])
            k0 = counters.get(base, 0)
            counters[base] = k0 + 1
            key = base if k0 == 0 else "%s#%d" % (base, k0)
            ok = used or consulted
            res.add("R5.part_result_used", key, f.where(c), ok,
                    "the Severity returned by %s.STEPread is used or the object's Error() is consulted" % rp.split(":")[-1] if ok else
                    "`%s->STEPread(..)` records its errors in that object; its Severity result is discarded and the object's "
                    "Error() is never consulted: errors of this part cannot reach the instance or the file" % rp.split(":")[-1])
    res.floor("R5.part_result_used", "reader calls on other objects", n, 3)


def r4_exit_gate(prog, res, sev):
    main = prog.one("main", "p21read/p21read.cc")
    if main is None:
        res.broke("anchor vanished: p21read main")
        return
    cfg = main.cfg
    reads = [c for c in main.calls() if (c.get("fn") or "").endswith("STEPfile::ReadExchangeFile")]
    if not reads:
        res.broke("p21read main no longer calls ReadExchangeFile")
        return
    # gates: if( <sev expr> <= SEVERITY_INCOMPLETE ...) exit(non-zero)
    gates = []
    for n in main.walk():
        if n["k"] != "If":
            continue
        cond = n["ch"][0]
        mentions = False
        for x in walk(cond):
            if x["k"] == "Binary" and x["op"] in ("<=", "<"):
                r = strip(x["ch"][1])
                lim = r.get("val")
                if lim is not None and ((x["op"] == "<=" and lim == sev["SEVERITY_INCOMPLETE"]) or
                                        (x["op"] == "<" and lim == sev["SEVERITY_USERMSG"])):
                    mentions = True
        if not mentions:
            continue
        exits = [c for c in walk(n["ch"][1]) if c["k"] == "Call" and c.get("fn") == "exit"]
        good = exits and all((peval(strip(c["ch"][0]), {}) or 0) != 0 for c in exits)
        gates.append((n, good))
    ok_shape = [g for g, good in gates if good]
    res.add("R4.exit_gate", "R4|src/test/p21read/p21read.cc|main|gates", main.where(), len(ok_shape) >= 2,
            "%d gates `severity <= SEVERITY_INCOMPLETE => exit(non-zero)`" % len(ok_shape) if len(ok_shape) >= 2 else
            "p21read has %d well-formed severity gates (expected one after the read and one after the write)" % len(ok_shape))
    # every path from ReadExchangeFile to a normal return passes a gate
    for rd in reads:
        pos = cfg.locate(rd)
        gate_blocks = set()
        for g in ok_shape:
            p = cfg.locate(g["ch"][0])
            if p:
                gate_blocks.add(p[0])
        # BFS: stop at gate blocks; reaching exit without a gate = violation
        from collections import deque
        seen = set()
        dq = deque([pos[0]])
        leak = False
        first = True
        while dq:
            b = dq.popleft()
            if b in gate_blocks and not first:
                continue
            first = False
            if b == cfg.exit:
                leak = True
                break
            for s in cfg.succ[b]:
                if s not in seen:
                    seen.add(s)
                    dq.append(s)
        res.add("R4.exit_gate", "R4|src/test/p21read/p21read.cc|main|read->gate", main.where(rd), not leak,
                "every path from ReadExchangeFile to the end of main passes a severity gate" if not leak else
                "a path from ReadExchangeFile reaches the end of main without passing a severity gate")
    # the severity read before the write is saved and tested after it
    saved = [v for v in main.walk() if v["k"] == "Var" and v.get("ch") and v["ch"][0] is not None and
             any(x["k"] == "Call" and (x.get("fn") or "").endswith("ErrorDescriptor::severity") for x in walk(v["ch"][0]))]
    wr = [c for c in main.calls() if (c.get("fn") or "").endswith("STEPfile::WriteExchangeFile")]
    ok = False
    for v in saved:
        for w in wr:
            if cfg.dominates(cfg.locate(v), cfg.locate(w)):
                # tested in a gate after the write
                for g in ok_shape:
                    gp = None
                    for x in walk(g["ch"][0]):
                        if cfg.pos.get(x["i"]) is not None:
                            gp = cfg.pos[x["i"]]
                            break
                    if any(x["k"] == "Ref" and x.get("d") == v["d"] for x in walk(g["ch"][0])) and \
                            cfg.dominates(cfg.locate(w), gp):
                        ok = True
    res.add("R4.exit_gate", "R4|src/test/p21read/p21read.cc|main|saved-read-severity", main.where(), ok,
            "the read severity is saved before WriteExchangeFile and tested after it" if ok else
            "the severity of the read is not carried across WriteExchangeFile (which clears the file's descriptor)")


def r3_merges(prog, res, sev):
    # attribute -> instance
    fs = [f for f in prog.by_name.get("SDAI_Application_instance::STEPread", []) if "istream" in f.key]
    if not fs:
        res.broke("anchor vanished: SDAI_Application_instance::STEPread")
        return
    f = fs[0]
    cfg = f.cfg
    reads = [c for c in f.calls() if (c.get("fn") or "").endswith("STEPattribute::STEPread")]
    ok = False
    why = "no attribute read found"
    for rd in reads:
        # severe = attributes[i].Error().severity();  if( severe <= SEVERITY_USERMSG ) { _error.GreaterSeverity( severe ); }
        merges = [c for c in f.calls() if (c.get("fn") or "").endswith("ErrorDescriptor::GreaterSeverity") and
                  (access_path(c["ch"][0]) or "").endswith("_error")]
        for m in merges:
            arg = strip(call_args(m)[0])
            if arg["k"] != "Ref":
                continue
            # arg variable assigned from attributes[i].Error().severity() after the read
            src = None
            for a in f.walk():
                if a["k"] == "Assign" and strip(a["ch"][0]).get("d") == arg.get("d"):
                    if "Error().severity()" in expr_str(a["ch"][1]) and "attributes" in expr_str(a["ch"][1]):
                        src = a
            if src is None:
                continue
            guards = [strip(cn) for cn, pol in known_facts(f, m) if pol]
            lim_ok = False
            for g in guards:
                if g["k"] == "Binary" and g["op"] in ("<=", "<"):
                    l, r = strip(g["ch"][0]), strip(g["ch"][1])
                    if l.get("d") == arg.get("d") and r.get("val") is not None:
                        lim = r["val"] if g["op"] == "<=" else r["val"] - 1
                        if lim >= sev["SEVERITY_INCOMPLETE"]:
                            lim_ok = True
            if cfg.dominates(cfg.locate(rd), cfg.locate(src)) and cfg.dominates(cfg.locate(src), cfg.locate(m)) and lim_ok:
                ok = True
            else:
                why = "merge guard does not cover every severity <= SEVERITY_INCOMPLETE" if not lim_ok else "merge not after the read"
    res.add("R3.attribute_to_instance", "R3|src/clstepcore/sdaiApplication_instance.cc|SDAI_Application_instance::STEPread|merge",
            f.where(), ok, "each attribute's severity (<= USERMSG) is merged into the instance with GreaterSeverity" if ok else why)
    # instance -> file counters in ReadData2: the if-chain / switch on obj->Error().severity()
    rd2 = prog.one("STEPfile::ReadData2")
    if rd2 is None:
        res.broke("anchor vanished: STEPfile::ReadData2")
        return
    from engines import sinterp
    chain = None
    for n in rd2.walk():
        if n["k"] == "If" and "Error().severity()" in expr_str(n["ch"][0]) and "obj" in expr_str(n["ch"][0]):
            # outermost if of the chain: its parent is not the else-arm of a similar if
            par = rd2.parent.get(n["i"])
            if not (par is not None and par["k"] == "If" and len(par["ch"]) > 2 and par["ch"][2] is n):
                chain = n
                break
    if chain is None:
        res.broke("ReadData2: classification of the instance severity not found")
        return
    names = {v: k for k, v in sev.items()}
    for name in ("SEVERITY_DUMP", "SEVERITY_EXIT", "SEVERITY_BUG", "SEVERITY_INPUT_ERROR", "SEVERITY_WARNING",
                 "SEVERITY_INCOMPLETE", "SEVERITY_USERMSG", "SEVERITY_NULL"):
        v = sev[name]

        def ev(c, path, v=v):
            c = strip(c)
            if c["k"] == "Binary" and c["op"] in ("<", "<=", "==", "!=", ">", ">="):
                l, r = strip(c["ch"][0]), strip(c["ch"][1])
                if "Error().severity()" in expr_str(l) and r.get("val") is not None:
                    return eval("v %s r['val']" % c["op"])
            return None
        paths = sinterp([chain], ev)
        incs = set()
        for pth in paths:
            for e in pth.effects:
                for x in walk(e):
                    if x["k"] == "Unary" and "++" in x["op"]:
                        incs.add(strip(x["ch"][0]).get("n") or expr_str(strip(x["ch"][0])))
        rejected = v <= sev["SEVERITY_INCOMPLETE"]
        ok = (("_entsInvalid" in incs) == rejected) and (len(paths) == 1)
        res.add("R3.instance_to_file", "R3|src/cleditor/STEPfile.cc|STEPfile::ReadData2|count(%s)" % name, rd2.where(chain), ok,
                "%s -> %s" % (name, sorted(incs)) if ok else
                "an instance read with %s %s counted as invalid (increments %s)" % (name, "is not" if rejected else "is", sorted(incs)))
    # counters -> file severity
    for fn, cnt in (("STEPfile::ReadData2", "_entsInvalid"), ("STEPfile::ReadData1", "_entsNotCreated")):
        g = prog.one(fn)
        ok = False
        if g:
            for n in g.walk():
                if n["k"] == "If":
                    c = strip(n["ch"][0])
                    if c["k"] in ("Member", "Ref") and c.get("n") == cnt or (c["k"] == "Cast" and cnt in expr_str(c)) or expr_str(c) == cnt:
                        if any(x["k"] == "Call" and (x.get("fn") or "").endswith("GreaterSeverity") and
                               (strip(call_args(x)[0]).get("val", 9) <= sev["SEVERITY_WARNING"]) for x in walk(n["ch"][1])):
                            ok = True
        res.add("R3.instance_to_file", "R3|src/cleditor/STEPfile.cc|%s|%s=>WARNING" % (fn, cnt), g.where() if g else "-", ok,
                "%s != 0 raises the file's severity to WARNING or worse" % cnt if ok else "%s no longer raises the file's severity" % cnt)


STREAM_SCOPE = ("STEPfile::ReadData1", "STEPfile::ReadData2", "STEPfile::CreateInstance", "STEPfile::ReadInstance",
                "STEPfile::CreateScopeInstances", "STEPfile::ReadScopeInstances", "STEPcomplex::STEPread", "STEPfile::ReadHeader")
_BAD_STREAM = ("printed when the stream is no longer good() right after the keyword: every later read of this instance fails and is recorded "
               "(replayed with a file truncated after '#1=CARTESIAN_POINT': 1 error, exit 1)")
STREAM_OK = {
    ("STEPfile::ReadData1", "ERROR: trying to recover from invalid data. skipping: "):
        "pass 1 only indexes instances; the same text is met again by pass 2, which records and counts it",
    ("STEPfile::CreateInstance", "Unexpected file problem in"): _BAD_STREAM,
    ("STEPfile::ReadInstance", "Unexpected file problem in"): _BAD_STREAM,
    ("STEPfile::ReadInstance", "ERROR in EXCHANGE FILE: incomplete instance #"):
        "arm of the switch on the instance's own severity: the condition is already recorded in obj->Error(), which ReadData2 counts",
}
COUNTERS = {"_errorCount", "_entsInvalid", "_warningCount"}


def r6_stream_errors(prog, res, sev):
    """A line that says ERROR on cout/cerr while the data section is read must come with a recorded error: a raise of some
    ErrorDescriptor, an increment of the file's error counters, or the return of 'no instance' (which every caller counts)."""
    from rules.c03 import is_ed_call, RAISERS, covered
    n = 0
    keys = {}
    for name in STREAM_SCOPE:
        for f in prog.fn(name):
            cfg = f.cfg
            stops = set()
            for x in f.walk():
                if x["k"] == "Call" and is_ed_call(x, RAISERS):
                    stops.add(cfg.locate(x))
                if x["k"] == "Unary" and x.get("op") in ("pre++", "post++") and strip(x["ch"][0]) is not None and strip(x["ch"][0]).get("n") in COUNTERS:
                    stops.add(cfg.locate(x))
                if x["k"] == "Return" and x.get("ch") and strip(x["ch"][0]) is not None and \
                        (strip(x["ch"][0])["k"] == "Null0" or strip(x["ch"][0]).get("val") == 0 or
                         (x["ch"][0].get("m") or strip(x["ch"][0]).get("m") or "") in ("ENTITY_NULL", "S_ENTITY_NULL", "NULL_ENTITY")):
                    stops.add(cfg.locate(x))
                # returning an error severity hands the condition to the caller
                if x["k"] == "Return" and x.get("ch") and strip(x["ch"][0]) is not None and strip(x["ch"][0])["k"] == "Ref" and \
                        strip(x["ch"][0])["n"].startswith("SEVERITY_") and strip(x["ch"][0]).get("val", 99) <= sev.get("SEVERITY_WARNING", -99):
                    stops.add(cfg.locate(x))
            stops.discard(None)
            for c in f.calls():
                if not (c.get("opcall") == "<<" and len(c["ch"]) == 2):
                    continue
                a = strip(c["ch"][1])
                if a is None or a["k"] != "Str" or not a["s"].lstrip("\n").startswith("ERROR"):
                    continue
                n += 1
                k = "R6|%s|%s|%s" % (f.relfile(), f.name, a["s"].strip()[:40])
                keys[k] = keys.get(k, 0) + 1
                ordinal = keys[k]
                if keys[k] > 1:
                    k += "#%d" % keys[k]
                # the whole message: literals of the enclosing << chain
                top = c
                while True:
                    par = f.parent.get(top["i"])
                    if par is not None and par["k"] == "Call" and par.get("opcall") == "<<":
                        top = par
                    else:
                        break
                whole = " ".join(x["s"] for x in walk(top) if x["k"] == "Str")
                why = STREAM_OK.get((f.name, a["s"]))
                for (fn_, frag), reason in STREAM_OK.items():
                    if fn_ == f.name and frag in whole and frag != a["s"]:
                        why = reason
                if why:
                    res.add("R6.stream_error_recorded", k, f.where(c), True, "frozen: " + why)
                    continue
                ok = covered(cfg, f, cfg.locate(c), stops)
                res.add("R6.stream_error_recorded", k, f.where(c), ok,
                        "the condition announced on the stream is also recorded (raise, error counter or 'no instance' result) on every path" if ok else
                        "%s prints %r but neither raises an error descriptor, nor counts an error, nor returns 'no instance' on every path "
                        "through it: data is dropped while the file is still reported clean" % (f.name, a["s"].strip()[:50]))
    res.floor("R6", "ERROR lines printed while reading the data section", n, 12)


def r7_every_iteration_accounts(prog, res, sev):
    """Pass 1 and pass 2 detect input that ends (or derails) inside the DATA section only through the instance step that
    follows: a failed CreateInstance/ReadInstance is what gets counted.  So in each iteration that has not seen ENDSEC the
    instance step must be taken whatever the state of the stream: its guards may mention the end-of-section flag, the file type
    and the editing state — not the stream."""
    from engines import enclosing_conditions, conjuncts
    n = 0
    for name, steps in (("STEPfile::ReadData1", ("CreateInstance", "SkipInstance")), ("STEPfile::ReadData2", ("ReadInstance", "SkipInstance"))):
        f = prog.one(name)
        if f is None:
            res.broke("anchor vanished: %s" % name)
            continue
        loops = [x for x in f.walk() if x["k"] == "While"]
        for c in f.calls():
            short = (c.get("fn") or "").split("::")[-1]
            if short not in steps:
                continue
            lp = [a for a in f.ancestors(c) if a["k"] == "While"]
            if not lp:
                continue
            n += 1
            bad = []
            for cn, br in enclosing_conditions(f, c):
                if any(cn is a["ch"][0] for a in lp):
                    continue        # the loop head itself
                for at, pol in conjuncts(cn, br):
                    calls = [x for x in walk(at) if x["k"] == "Call" and x.get("member") and
                             any("stream" in f.ty(y) or "istream" in f.ty(y) for y in walk(x) if y["k"] == "Ref")]
                    if calls:
                        bad.append(expr_str(at))
            ok = not bad
            res.add("R7.instance_step_not_skipped", "R7|src/cleditor/STEPfile.cc|%s|%s" % (name, short), f.where(c), ok,
                    "%s is attempted in every iteration that has not reached ENDSEC, whatever the stream state (a failed attempt is what records exhausted input)" % short if ok else
                    "%s is skipped when %s: input that ends inside the DATA section (e.g. a last instance without ';') is then not recorded by anything" %
                    (short, " / ".join(bad)))
    res.floor("R7", "instance steps in the two data passes", n, 4)


R8_EXEMPT = {
    "InstMgr::VerifyInstances": "rval is lowered to SEVERITY_INCOMPLETE in the branch that increments errorCount, and the raise on err is guarded by "
                                "errorCount != 0: the returned value is not milder (the walk does not correlate the counter with rval)",
}


def r8_returned_severity(prog, res, sev):
    """A reader that has recorded a violation in the caller's error descriptor (GreaterSeverity with a constant <= INCOMPLETE) and then
    returns a *clean* severity - or a value that has nothing to do with that descriptor - hands its callers (which assign or merge the
    returned value) a verdict that forgets the violation.  On every path that is consistent in its flag variables: after such a raise
    the function returns err->severity(), a constant <= INCOMPLETE, a local known to hold such a constant, or the result of a call
    that was given the same descriptor."""
    import pathstate
    from engines import call_args
    INC = sev["SEVERITY_INCOMPLETE"]

    def core(n):
        n = strip(n)
        while n is not None and n["k"] == "Cast" and n.get("ch"):
            n = strip(n["ch"][0])
        return n
    n = 0
    nret = 0
    for f in prog.all_functions():
        if f.component == "test" or f.cfg is None:
            continue
        rt = f.tyname(f.raw.get("ret")) if isinstance(f.raw.get("ret"), int) else ""
        if "Severity" not in rt:
            continue
        eps = [p_ for p_ in f.params if "ErrorDescriptor" in (f.tyname(p_["t"]) if isinstance(p_.get("t"), int) else "")]
        if not eps:
            continue
        d = eps[0]["d"]
        n += 1
        hits = {}
        checked = set()

        def on_node(nd, ts, env, d=d, hits=hits, checked=checked):
            k = nd["k"]
            if k == "Call" and (nd.get("fn") or "").endswith("GreaterSeverity") and nd.get("ch"):
                r = core(nd["ch"][0])
                if r is not None and r.get("d") == d:
                    a = call_args(nd)
                    v = core(a[0]).get("val") if a and core(a[0]) is not None else None
                    if isinstance(v, int) and v <= INC:
                        return (v, nd["l"]) if ts is None or v < ts[0] else ts
                return ts
            if k == "Return" and nd.get("ch") and nd["ch"][0] is not None:
                checked.add(nd["i"])
                if ts is None:
                    return ts
                e = core(nd["ch"][0])
                ok = False
                if e is not None and e["k"] == "Call":
                    if (e.get("fn") or "").endswith("severity") and e.get("ch") and core(e["ch"][0]) is not None and core(e["ch"][0]).get("d") == d:
                        ok = True
                    elif any(core(a) is not None and core(a).get("d") == d for a in call_args(e)):
                        ok = True
                elif e is not None and isinstance(e.get("val"), int):
                    ok = e["val"] <= INC
                elif e is not None and e["k"] == "Ref" and isinstance(env.get(e.get("d")), int):
                    ok = env[e["d"]] <= INC
                if not ok:
                    hits.setdefault(nd["i"], (nd, ts))
            return ts
        try:
            pathstate.walk(f, None, on_node)
        except pathstate.Budget as ex:
            res.broke("R8: %s" % ex)
            continue
        nret += len(checked)
        if f.name in R8_EXEMPT:
            res.add("R8.returned_severity_keeps_violation", "R8|%s|%s" % (f.relfile(), f.name), f.where(), True,
                    "exempt: %s" % R8_EXEMPT[f.name], assume=R8_EXEMPT[f.name])
            continue
        bad = sorted(hits.values(), key=lambda h: h[0]["l"])
        res.add("R8.returned_severity_keeps_violation", "R8|%s|%s" % (f.relfile(), f.name), f.where(bad[0][0]) if bad else f.where(), not bad,
                "on no path does the function record a violation in `%s` and return a clean or unrelated severity" % eps[0]["n"] if not bad else
                "line %s records severity %s in `%s`, and on the same path the function returns `%s`: the caller assigns the returned value, "
                "so the violation is forgotten and the file can be reported clean" %
                (bad[0][1][1], {v: k for k, v in sev.items()}.get(bad[0][1][0], bad[0][1][0]), eps[0]["n"], expr_str(bad[0][0]["ch"][0])[:80]))
    res.floor("R8.returned_severity_keeps_violation", "functions returning Severity with an ErrorDescriptor parameter", n, 60)
    res.info["r8_returns_checked"] = nret


INT_WIDTH = {"char": 1, "signed char": 1, "unsigned char": 1, "short": 2, "unsigned short": 2, "int": 4, "unsigned int": 4, "long": 8,
             "unsigned long": 8, "long long": 8, "unsigned long long": 8, "bool": 1}


def r9_parsed_number_not_narrowed(prog, res, rule="R9.parsed_number_not_narrowed"):
    """A number read from the file with `in >> v` is never converted to a narrower integer type: the extraction fails (and the reader
    reports it) for a value that does not fit v, but a later narrowing - an argument passed to `FindFileId(int)`, an assignment to an
    `int` - silently takes the value modulo 2^32, so a reference `#4294967312` resolves to instance #16 and a dangling reference is
    accepted.  Every integral conversion whose operand is such a variable keeps its width."""
    n = 0
    for f in prog.all_functions():
        if f.component == "test":
            continue
        rd = {}
        for c in f.calls():
            if (c.get("opcall") == ">>" or (c.get("fn") or "").endswith("operator>>")) and len(c.get("ch") or []) > 1:
                t = strip(c["ch"][1])
                if t is not None and t["k"] == "Ref" and INT_WIDTH.get(f.ty(t), 0) >= 4:
                    rd[t["d"]] = t
        for d, t in sorted(rd.items()):
            n += 1
            bad = None
            for x in f.walk():
                if x["k"] == "Cast" and x.get("ck") == "IntegralCast" and x.get("ch"):
                    o = strip(x["ch"][0])
                    while o is not None and o["k"] == "Cast" and o.get("ck") in ("LValueToRValue", "NoOp") and o.get("ch"):
                        o = strip(o["ch"][0])
                    if o is not None and o["k"] == "Ref" and o.get("d") == d:
                        a, b = INT_WIDTH.get(f.ty(o)), INT_WIDTH.get(f.ty(x))
                        if a and b and b < a and bad is None:
                            bad = (x, f.ty(o), f.ty(x))
            res.add(rule, "R9|%s|%s|%s" % (f.relfile(), f.name, t["n"]), f.where(bad[0]) if bad else f.where(t), bad is None,
                    "`%s` (%s, read with >>) is never converted to a narrower type" % (t["n"], f.ty(t)) if bad is None else
                    "`%s` is read from the file as %s and converted to %s here: a number beyond the narrower range is taken modulo 2^%d instead of "
                    "being refused - a dangling reference #4294967312 resolves to instance #16" % (t["n"], bad[1], bad[2], 8 * INT_WIDTH[bad[2]]))
    res.floor(rule, "integers read from the stream with >>", n, 5)


def r10_refusal_flag_honoured(prog, res, sev):
    """Registry::ObjCreate refuses to instantiate an abstract supertype, or an entity that can only be instantiated through external
    mapping, by returning an object whose error descriptor carries a fixed severity (`se->Error().severity( SEVERITY_WARNING )`).
    Every caller that inspects the created object's severity to decide whether to discard it must discard for exactly those values:
    the threshold test holds for every severity ObjCreate uses as a flag.  `< SEVERITY_WARNING` instead of `<=` keeps the instance of
    an abstract entity, reads it like any other and reports the file clean."""
    from engines import call_args
    inv = {v: k for k, v in sev.items()}
    g = prog.one("Registry::ObjCreate")
    if g is None:
        res.broke("anchor vanished: Registry::ObjCreate")
        return
    flags = set()
    for c in g.calls():
        if (c.get("fn") or "").endswith("ErrorDescriptor::severity") and call_args(c):
            a = strip(call_args(c)[0])
            if a is not None and isinstance(a.get("val"), int):
                flags.add(a["val"])
    if not flags:
        res.broke("R10: Registry::ObjCreate no longer flags a refusal with a constant severity")
        return
    res.info["r10_refusal_severities"] = sorted(inv.get(v, v) for v in flags)
    n = 0
    for f in prog.all_functions():
        if f.component == "test":
            continue
        made = set()
        for a in f.walk():
            if a["k"] == "Assign" and strip(a["ch"][0]) is not None and strip(a["ch"][0])["k"] == "Ref":
                if any(y["k"] == "Call" and (y.get("fn") or "").endswith("Registry::ObjCreate") for y in walk(a["ch"][1])):
                    made.add(strip(a["ch"][0])["d"])
            if a["k"] == "Var" and a.get("ch") and a["ch"][0] is not None and \
                    any(y["k"] == "Call" and (y.get("fn") or "").endswith("Registry::ObjCreate") for y in walk(a["ch"][0])):
                made.add(a["d"])
        if not made:
            continue
        for x in f.walk():
            if x["k"] != "Binary" or x.get("op") not in ("<", "<=", ">", ">=", "==", "!="):
                continue
            l, r = strip(x["ch"][0]), strip(x["ch"][1])
            if r is None or not isinstance(r.get("val"), int) or l is None:
                continue
            if not (l["k"] == "Call" and (l.get("fn") or "").endswith("severity") and any(y["k"] == "Ref" and y.get("d") in made for y in walk(l))):
                continue
            # only tests that guard a discard (delete / assignment of the null entity)
            par = f.parent.get(x["i"])
            while par is not None and par["k"] not in ("If",):
                par = f.parent.get(par["i"])
            if par is None or not any(y["k"] == "Delete" or (y["k"] == "Assign" and "ENTITY_NULL" in expr_str(y["ch"][1])) for y in walk(par["ch"][1])):
                continue
            n += 1
            K = r["val"]
            op = x["op"]
            hold = {v: {"<": v < K, "<=": v <= K, ">": v > K, ">=": v >= K, "==": v == K, "!=": v != K}[op] for v in flags}
            bad = [v for v, h in hold.items() if not h]
            res.add("R10.refusal_flag_honoured", "R10|%s|%s|%d" % (f.relfile(), f.name, n), f.where(x), not bad,
                    "the discard test `%s` holds for every severity ObjCreate uses to refuse an entity (%s)" % (expr_str(x)[:60], sorted(inv.get(v, v) for v in flags)) if not bad else
                    "the discard test `%s` is false for %s, the severity with which Registry::ObjCreate marks an abstract supertype / an entity that "
                    "needs external mapping: the instance is kept, read and written back, and the file is reported clean" % (expr_str(x)[:60], inv.get(bad[0], bad[0])))
    res.floor("R10.refusal_flag_honoured", "discard tests on objects created by Registry::ObjCreate", n, 1)


def run(prog, res, sev):
    r10_refusal_flag_honoured(prog, res, sev)
    r9_parsed_number_not_narrowed(prog, res)
    r8_returned_severity(prog, res, sev)
    r6_stream_errors(prog, res, sev)
    r7_every_iteration_accounts(prog, res, sev)
    r3_merges(prog, res, sev)
    r4_exit_gate(prog, res, sev)
    r5_dropped(prog, res, sev)
    r5_part_results(prog, res, sev)
