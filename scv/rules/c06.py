"""C06 — the EXPRESS tools are memory-safe and terminate on any input (necessary conditions).

 E2  every write into fixed-size storage of the front end and the back ends is bounded; operands that
     are schema identifiers are discharged under the stated assumption and feed L*
 R1c global cursors into fixed arrays (scope stack, include stack) are bounds-checked at every increment
 R2  escape-then-free: a pointer stored into a longer-lived location is not freed while still stored
 R4  EXIT-severity diagnostics leave through exit(EXPRESS_fail(..)); DUMP through abort()   (shared with C04)
 R5  a recursive descent guarded by a visited mark sets the mark on its own node before descending
 R6  nullable values are tested before use (may-be-NULL walk over the CFG, nullness.py): elements of lists whose links a
     writer sets to NULL (unresolvable USE / REFERENCE), and front-end locals that receive a possibly-NULL lookup result
"""
import json
import os

from engines import known_facts, call_args, is_null_const
from nullness import Nullness, may_return_null
from ir import walk, strip, expr_str, access_path, array_len
from rules import memsafe

PID = "C06"
UNITS = dict(components={"express", "exppp", "exp2cxx", "exp2python", "scanner"})
EXPLANATION = (
    "Necessary conditions of memory safety for check-express, exppp, exp2cxx, exp2python and the schema scanner: "
    "(E2) every subscript/pointer-bump/by-reference store and every library writer into an object of constant array "
    "type is bounded (interval analysis with threshold widening over the clang CFG, maximal format expansion, "
    "provenance of string operands: literal < fixed array < schema identifier < lexical source/unknown); identifier "
    "operands are discharged under the assumption 'identifiers are at most L* bytes' and L* (the minimum over all such "
    "sites) must not fall below the value confirmed on the pinned tree; (R1c) every increment of a global cursor into "
    "a fixed array (parser scope stack, include-file stack) is guarded by a bound test; (R2) no pointer is passed to "
    "free() while a longer-lived location written in the same function still holds it; (R4) exit paths of the "
    "diagnostic module; (R5) a recursion guarded by a visited mark sets the mark before descending; (R6) a may-be-NULL walk "
    "over the CFG (conditions evaluated under `v == NULL`, short-circuit and ?: honoured, callee parameters summarised): "
    "elements of lists into whose links some writer stores NULL (discovered: the USE and REFERENCE schema lists) are not "
    "dereferenced untested in any tool-reachable traversal, and in the front end no local that receives the result of a "
    "function that may return NULL (least fixed point over `return`) is dereferenced while it may still be NULL. (E2t) every strncpy into a fixed char array with a constant size is followed, on every path to the next use of the array, by a store of 0 at an index not above that size - or cannot need one (literal source shorter than the size; zero-initialised storage whose tail is never written; a constructor-established terminator beyond the size; identifier sources under the identifier-length assumption). Not decided: heap-block destinations beyond two idioms (listed as heap_not_decided), parser "
    "stack growth, generated lexer internals, hash.c internals, bounded time, signed overflow."
    " (R2, inter-procedural) a pointer handed to a callee that keeps it - least fixed point over the call graph of: the parameter is assigned to a global, a member or an array element that outlives the call, or passed on to such a parameter - is not freed while that location can still hold it (a self-test subject under scv/selftest/c06 keeps the rule exercised: it has no instance on the unchanged tree). (R6N) a local pointer is not dereferenced where every definition that reaches the dereference is the null constant (variables whose address is taken are not decided)."
    " (R5c) every loop that follows the head / base links of the type graph (links the parser builds from names, so an invalid schema can make them cyclic) is in a frozen table with the reason why it ends; for walks that run during resolution the reason is re-verified: the loop condition tests the resolve-failed mark of the node it stands on. A new, unlisted walk is a violation until it is reviewed. (R2b, engine of C05 R9) a freed local or a copy of it is not used before it is re-assigned."
    " (R5d) every function of the resolver that calls itself for each element of a list an invalid schema can make cyclic (sub/supertypes, USE/REFERENCE schemas, select items) sets a visited mark first, threads a visited list, or - entity graph - runs after the loop check, whose reporting branch must unlink the closing link from both lists (re-verified)."
    " (R9, engine of C18 R1) no local of the front end is read before it is assigned (clang -Wuninitialized / -Wsometimes-uninitialized)."
    " (R10) inductive invariant of the parser's scope stack: every store into `pscope` gives the entry itself where it is named (true arm of the conditional on the scope's symbol, or the base entry) or another entry's `pscope`, so diagnostics never ask for the symbol of an unnamed scope (null get_symbol).")

ENTRIES = ["main", "EXPRESSparse", "EXPRESSresolve", "print_file", "EXPRESSinit_init"]
IDENT = {
    # members
    "name", "filename",
    # accessors / name builders (results are made of schema identifiers and fixed prefixes)
    "SCHEMAget_name", "ENTITYget_name", "TYPEget_name", "ENTITYget_classname", "TYPEget_ctype", "ClassName", "EnumName",
    "SelectName", "FundamentalType", "TypeName", "TYPEget_utype", "GetAttrTypeName", "AccessType", "TYPEget_idl_type",
    "TYPEget_express_type", "TypeDescriptorName", "GetTypeDescriptorName", "FirstToUpper", "VARget_simple_name",
    "generate_attribute_name", "generate_attribute_func_name", "generate_dict_attr_name", "StrToLower", "StrToUpper",
    "StrToConstant", "PrettyTmpName", "EnumCElementName", "CheckEnumSymbol", "TYPEtd_name", "TypeDescription",
    "SEL_ITEMget_dmname", "SEL_ITEMget_enumtype", "ATTR_LISTmember", "TYPEget_body", "SCHEMAget_filename",
    "ENTITYget_CORBAname", "ENTITYput_CORBAname", "get_aggregate_type", "get_attribute_number", "utype_member",
    "TYPEget_ancestor", "GetAggrElemType", "TYPEget_name_wo_prefix", "SelectName_p", "EXPRto_python", "get_local_attribute_name",
}
_NP = ("np points at the last character of the name that snprintf(fnm, MAX_LEN, \"%s.h\", ..) has just produced "
       "(2 <= strlen(fnm) <= 239), so the two-character suffix plus terminator ends at most at fnm[240]")
_HEAP = ("ERROR_with_lines is flushed (reset to 0) as soon as it reaches ERROR_MAX_ERRORS = 100 in the same function, so heap[] "
         "indices stay within 1..100 of heap[101]")
_ENV = "EXPRESS_PATH comes from the environment, which is outside the property's quantifier (bytes of the EXPRESS file)"
E2_EXC = {
    "E2|src/exp2cxx/classes_wrapper.cc|SCHEMAprint|sprintf->L7:fnm": _NP,
    "E2|src/exp2cxx/classes_wrapper.cc|EXPRESSPrint|sprintf->L3:fnm#1": _NP,
    "E2|src/exp2cxx/classes_wrapper.cc|EXPRESSPrint|sprintf->L3:fnm#3": _NP,
    "E2|src/exp2python/src/classes_wrapper_python.cc|SCHEMAprint|sprintf->L6:fnm": _NP,
    "E2|src/express/error.c|ERRORvreport_with_symbol|store->heap": _HEAP,
    "E2|src/express/error.c|ERROR_flush_message_buffer|store->heap": _HEAP,
    "E2|src/express/error.c|ERROR_flush_message_buffer|store->heap#1": _HEAP,
    "E2|src/express/express.c|EXPRESS_PATHinit|strcpy->L1:dir.full": _ENV,
    "E2|src/express/express.c|EXPRESS_PATHinit|sprintf->L1:dir.full": _ENV,
    "E2|src/exp2cxx/classes_wrapper.cc|SCHEMAprint|sprintf->L5:schnm":
        "identifier-driven: \"Sdai\" + upper-cased schema name (<= 240 from StrToUpper's static buffer) into schnm[241]: safe for schema names <= 236 (covered by the identifier-length finding)",
    "E2|src/exp2cxx/classes_type.c|EnumCElementName|strncat->L2:buf":
        "identifier-driven: \"<enum type name>__\" + strncat of the item name: safe for names <= 4095 (covered by the identifier-length finding)",
}
CFG = {
    "entries": ENTRIES,
    "entry_components": {"express", "exppp", "exp2cxx", "exp2python", "scanner"},
    "ident_fns": IDENT,
    "input_fns": {"getenv"},
    "path_fns": set(),
    "exclude_files": ("express/hash.c", "express/generated/expscan.c", "exp2cxx/trace_fprintf.c"),
    "param_is_ident_components": ("exp2cxx", "exp2python", "exppp", "scanner"),
    "heap_sites": False,
    "param_ident": {("EXPRESSfind_schema", "name")},
    "e2_exceptions": E2_EXC,
    "terminators_allowed": {},
}
_T = os.path.join(os.path.dirname(__file__), "..", "tables", "c06_e2_sites.json")
if os.path.exists(_T):
    _ref = json.load(open(_T))
    CFG["e2_reference"] = _ref["sites"]
    CFG["lstar_floor"] = _ref["lstar_floor"]


def r1_cursors(prog, res):
    """global pointer / index variables that walk a fixed array must be guarded at each increment"""
    # discover cursors: global pointer assigned from a fixed array, global int used as subscript of a fixed global array
    cursors = {}
    for f in prog.all_functions():
        if f.component == "test":
            continue
        for n in f.walk():
            if n["k"] == "Assign":
                lhs = strip(n["ch"][0])
                rhs = strip(n["ch"][1])
                if lhs["k"] == "Ref" and lhs.get("dk") == "global" and f.ty(lhs).endswith("*") and rhs is not None:
                    base = rhs
                    if base["k"] == "Unary" and base["op"] == "&" and strip(base["ch"][0])["k"] == "Subscript":
                        base = strip(strip(base["ch"][0])["ch"][0])
                    if base["k"] == "Ref" and base.get("dk") == "global" and array_len(f.ty(base)):
                        cursors[lhs["n"]] = (base["n"], array_len(f.ty(base)), "pointer")
            if n["k"] == "Subscript":
                b, i = strip(n["ch"][0]), strip(n["ch"][1])
                if b["k"] == "Ref" and b.get("dk") == "global" and array_len(f.ty(b)) and i is not None and \
                        i["k"] == "Ref" and i.get("dk") == "global":
                    cursors.setdefault(i["n"], (b["n"], array_len(f.ty(b)), "index"))
    # cursors all of whose writes through the cursor are themselves guarded by a bound test
    writes_guarded = set()
    for cname, (arr, N, kind) in cursors.items():
        all_ok = True
        any_w = False
        for f in prog.all_functions():
            if f.component == "test":
                continue
            for x in f.walk():
                if x["k"] not in ("Assign", "CompoundAssign"):
                    continue
                lhs = strip(x["ch"][0])
                uses = False
                for y in walk(lhs):
                    if y["k"] == "Subscript":
                        b, i = strip(y["ch"][0]), strip(y["ch"][1])
                        if b["k"] == "Ref" and b.get("n") == arr and any(z["k"] == "Ref" and z.get("n") == cname for z in walk(i)):
                            uses = True
                    if y["k"] == "Member" and y.get("arrow") and kind == "pointer":
                        b = strip(y["ch"][0])
                        if b is not None and b["k"] == "Ref" and b.get("n") == cname:
                            uses = True
                if not uses:
                    continue
                any_w = True
                g = False
                for c, pol in known_facts(f, x):
                    for y in walk(c):
                        if y["k"] == "Binary" and y["op"] in ("<", "<=", ">", ">=") and any(z["k"] == "Ref" and z.get("n") == cname for z in walk(y)):
                            g = True
                if not g:
                    all_ok = False
        if any_w and all_ok:
            writes_guarded.add(cname)
    n = 0
    counters = {}
    for f in prog.all_functions():
        if f.component == "test":
            continue
        for x in f.walk():
            tgt = None
            if x["k"] == "Unary" and x["op"] in ("post++", "pre++"):
                tgt = strip(x["ch"][0])
            elif x["k"] == "CompoundAssign" and x["op"] == "+=":
                tgt = strip(x["ch"][0])
            if tgt is None or tgt["k"] != "Ref" or tgt.get("dk") != "global" or tgt["n"] not in cursors:
                continue
            arr, N, kind = cursors[tgt["n"]]
            n += 1
            guarded = False
            for c, pol in known_facts(f, x):
                for y in walk(c):
                    if y["k"] == "Binary" and y["op"] in ("<", "<=", ">", ">=", "==", "!="):
                        if any(z["k"] == "Ref" and z.get("n") == tgt["n"] for z in walk(y)):
                            guarded = True
            base = "R1c|%s|%s|%s++" % (f.relfile(), f.name, tgt["n"])
            c0 = counters.get(base, 0)
            counters[base] = c0 + 1
            key = base if c0 == 0 else "%s#%d" % (base, c0)
            if not guarded and tgt["n"] in writes_guarded:
                guarded = True
            if not guarded and f.cfg is not None:
                # a bound test on the cursor that comes before the increment on every path and whose violating branch never reaches the
                # increment (it ends in abort()/exit(): clang gives such blocks no successor)
                for y in f.walk():
                    if y["k"] != "If":
                        continue
                    c0 = strip(y["ch"][0])
                    if c0 is None or c0["k"] != "Binary" or c0.get("op") not in ("<", "<=", ">", ">=") or \
                            not any(z["k"] == "Ref" and z.get("n") == tgt["n"] for z in walk(c0)) or \
                            not any(z["k"] == "Ref" and z.get("n") == arr for z in walk(c0)):
                        continue
                    then = y["ch"][1]
                    first = f.first_pos(then) if then is not None else None
                    cpos = f.first_pos(y["ch"][0])
                    ipos = f.cfg.locate(x)
                    if cpos is None or first is None or ipos is None or not f.cfg.dominates(cpos, ipos):
                        continue
                    # is the increment reachable from inside the then-branch?
                    if first == ipos or f.cfg.reaches((first[0], first[1] - 1), ipos):
                        continue
                    guarded = True
                    break
            res.add("R1c.cursor_bound", key, f.where(x), guarded,
                    "increment of `%s` (cursor into %s[%d]) is guarded by a bound test" % (tgt["n"], arr, N) if guarded else
                    "`%s` walks %s[%d] and is incremented without any bound test: nesting deeper than %d writes past the array"
                    % (tgt["n"], arr, N, N - 1), {"macro": x.get("mo") or x.get("m")})
    res.info["r1c_cursors"] = {k: "%s[%d] (%s)" % v for k, v in cursors.items()}
    res.floor("R1c.cursor_bound", "global cursor increments", n, 5)


def r2_escape_then_free(prog, res, f_floor=False):
    """free(p) while a location with a longer lifetime still holds p: assigned from p in this function, or by a callee that keeps
    its argument (handover.stores: least fixed point over the call graph), on a path that leads to the free"""
    n = nfree = 0
    counters = {}
    STORE_FNS = {"TYPEput_clientData": 1, "LISTadd_last": 1, "LISTadd_first": 1, "DICTdefine": 2}
    import handover
    st = handover.stores(prog)
    kept = {}
    for f in prog.all_functions():
        if f.component == "test" or f.cfg is None:
            continue
        frees = [c for c in f.calls() if c.get("fn") in ("free", "sc_free") and c.get("ch")]
        for fr in frees:
            p = strip(fr["ch"][0])
            if p is None or p["k"] != "Ref" or p.get("dk") not in ("local", "param"):
                continue
            nfree += 1
            escapes = []
            for x in f.walk():
                if x["k"] == "Assign":
                    lhs, rhs = strip(x["ch"][0]), strip(x["ch"][1])
                    while rhs is not None and rhs["k"] == "Cast":
                        rhs = strip(rhs["ch"][0])
                    if rhs is not None and rhs["k"] == "Ref" and rhs.get("d") == p["d"] and lhs["k"] in ("Member", "Subscript") or \
                            (rhs is not None and rhs["k"] == "Ref" and rhs.get("d") == p["d"] and lhs["k"] == "Ref" and lhs.get("dk") == "global"):
                        escapes.append((x, access_path(lhs) or expr_str(lhs)))
                if x["k"] == "Call" and x.get("fn") in STORE_FNS:
                    a = call_args(x)
                    i = STORE_FNS[x["fn"]]
                    if i < len(a):
                        s = strip(a[i])
                        while s is not None and s["k"] == "Cast":
                            s = strip(s["ch"][0])
                        if s is not None and s["k"] == "Ref" and s.get("d") == p["d"]:
                            escapes.append((x, "%s(..)" % x["fn"]))
                elif x["k"] == "Call" and x.get("fn") not in ("free", "sc_free"):
                    # a callee that keeps its argument (least fixed point over the call graph: the parameter is assigned to a member,
                    # an array element or a global, or passed on to a parameter that is)
                    why = handover.handover_of(prog, st, x, p["d"])
                    if why:
                        escapes.append((x, "%s(..)" % x["fn"]))
                        kept[x["i"]] = why
            cfg = f.cfg
            # only a store that can be followed by this free on some path (a free in an arm that returns before the store is none)
            escapes = [(e, w_) for e, w_ in escapes if cfg.reaches(cfg.locate(e), cfg.locate(fr))]
            if not escapes:
                continue
            n += 1
            bad = None
            for e, where in escapes:
                if not cfg.dominates(cfg.locate(e), cfg.locate(fr)) and cfg.locate(e) is not None:
                    # escape not on every path to the free: still a potential dangling store
                    pass
                # is the location reset (assigned again / cleared through the same store function) between?
                reset = False
                for x in f.walk():
                    if x is e:
                        continue
                    if x["k"] == "Assign" and (access_path(x["ch"][0]) or "") == where and cfg.locate(x) and \
                            cfg.dominates(cfg.locate(x), cfg.locate(fr)) and cfg.dominates(cfg.locate(e), cfg.locate(x)):
                        reset = True
                    if x["k"] == "Call" and where.endswith("(..)") and x.get("fn") == where[:-4] and cfg.locate(x) and \
                            cfg.dominates(cfg.locate(x), cfg.locate(fr)) and cfg.dominates(cfg.locate(e), cfg.locate(x)):
                        reset = True
                if not reset:
                    bad = (e, where)
            base = "R2|%s|%s|free(%s)" % (f.relfile(), f.name, p["n"])
            c0 = counters.get(base, 0)
            counters[base] = c0 + 1
            key = base if c0 == 0 else "%s#%d" % (base, c0)
            res.add("R2.escape_then_free", key, f.where(fr), bad is None,
                    "every location that received `%s` is reset before free()" % p["n"] if bad is None else
                    "`%s` was stored into %s (line %s%s) and is freed while that location still holds it" %
                    (p["n"], bad[1], bad[0]["l"], ": " + kept[bad[0]["i"]] if bad[0]["i"] in kept else ""))
    res.info["r2_free_sites_with_escapes"] = n
    res.info["r2_free_sites_of_locals_examined"] = nfree
    res.info["r2_keeping_parameters"] = len(st)
    if f_floor:
        res.floor("R2.escape_then_free", "free() sites of local pointers examined", nfree, 15)
        res.floor("R2.escape_then_free", "parameters that some function keeps (fixed point)", len(st), 40)


def r5_recursion_marks(prog, res):
    """A recursive descent that is guarded by a test of a field of the node it is about to visit must set that
    field on its own node before descending; otherwise a cyclic graph (subtype / select / scope cycles are
    accepted by the parser and only diagnosed later) recurses without bound."""
    n = 0
    counters = {}
    for f in prog.all_functions():
        if f.component == "test" or f.cfg is None or not f.params:
            continue
        rec = [c for c in f.calls() if c.get("fk") == f.key]
        for c in rec:
            args = call_args(c)
            guards = []
            for ai, a in enumerate(args):
                ap = access_path(a)
                if ap is None or ai >= len(f.params):
                    continue
                for cn, pol in known_facts(f, c):
                    cn0 = strip(cn)
                    if cn0["k"] == "Binary" and cn0["op"] in ("==", "!="):
                        for side in cn0["ch"]:
                            sp = access_path(side)
                            if sp and sp != ap and sp.startswith(ap + "."):
                                guards.append((ai, sp[len(ap):], cn0))
                    elif cn0["k"] in ("Member",) or (cn0["k"] == "Unary" and cn0["op"] == "!"):
                        sp = access_path(cn0 if cn0["k"] == "Member" else cn0["ch"][0])
                        if sp and sp != ap and sp.startswith(ap + "."):
                            guards.append((ai, sp[len(ap):], cn0))
            if not guards:
                continue
            n += 1
            ai, suffix, g = guards[0]
            own = f.params[ai]["d"] + suffix
            marks = []
            for x in f.walk():
                if x["k"] in ("Assign", "CompoundAssign") or (x["k"] == "Unary" and ("++" in x["op"] or "--" in x["op"])):
                    if access_path(x["ch"][0]) == own:
                        marks.append(x)
            if not marks:
                n -= 1
                continue      # a structural test (kind of node), not a visited mark maintained by this function
            cfg = f.cfg
            dom = [m for m in marks if cfg.locate(m) is not None and cfg.dominates(cfg.locate(m), cfg.locate(c)) and cfg.locate(m) != cfg.locate(c)]
            base = "R5|%s|%s|recursion-mark(%s)" % (f.relfile(), f.name, suffix.lstrip("."))
            k0 = counters.get(base, 0)
            counters[base] = k0 + 1
            key = base if k0 == 0 else "%s#%d" % (base, k0)
            res.add("R5.mark_before_descent", key, f.where(c), bool(dom),
                    "`%s` is set on the function's own node before the guarded recursive call" % suffix.lstrip(".") if dom else
                    "the recursive call is guarded by `%s` on the node to visit, but the function does not set `%s` on its own node "
                    "before descending: a cycle in the graph recurses until the stack overflows" % (expr_str(g), suffix.lstrip(".")))
    res.floor("R5.mark_before_descent", "field-guarded recursive descents", n, 1)


def r5b_stamp_stable(prog, res):
    """A recursive walk that marks visited nodes with `node->search_id = S` and skips nodes whose `search_id == S` terminates on
    a cyclic graph only while S keeps its value for the whole walk.  If S is a global, nothing that the walk can call may change
    it (ENTITYfind_inherited_attribute, SCOPEfind, ... each start a new search by incrementing __SCOPE_search_id): otherwise the
    marks go stale in the middle of the walk and a cycle is followed until the stack is exhausted."""
    cg = prog.callgraph()
    cg = cg[0] if isinstance(cg, tuple) else cg
    byk = {}
    for f in prog.all_functions():
        byk.setdefault(f.key, f)
    writers = {}          # global name -> set of function keys that write it
    for f in prog.all_functions():
        if f.component == "test":
            continue
        for x in f.walk():
            tgt = None
            if x["k"] in ("Assign", "CompoundAssign"):
                tgt = strip(x["ch"][0])
            elif x["k"] == "Unary" and ("++" in (x.get("op") or "") or "--" in (x.get("op") or "")):
                tgt = strip(x["ch"][0])
            if tgt is not None and tgt["k"] == "Ref" and tgt.get("dk") == "global":
                writers.setdefault(tgt["n"], set()).add(f.key)
    n = 0
    for f in prog.all_functions():
        if f.component == "test" or f.component not in ("express", "exppp", "exp2cxx", "exp2python") or f.key not in cg.get(f.key, ()):
            continue
        stamps = set()
        for x in f.walk():
            if x["k"] == "Binary" and x.get("op") in ("==", "!="):
                a, b = strip(x["ch"][0]), strip(x["ch"][1])
                for u, v in ((a, b), (b, a)):
                    if u is not None and u["k"] == "Member" and u.get("n") == "search_id" and v is not None and v["k"] == "Ref":
                        stamps.add((v.get("dk"), v["n"], v.get("d")))
        for dk, name, d in sorted(stamps, key=str):
            n += 1
            if dk != "global":
                res.add("R5b.visited_stamp_stable", "R5b|%s|%s|%s" % (f.relfile(), f.name, name), f.where(), True,
                        "the visited stamp `%s` is a %s of the walk: it cannot change while the walk runs" % (name, dk))
                continue
            # functions reachable from f (including f: a write in f itself outside ... counts too)
            seen = set()
            st = [k for k in cg.get(f.key, ()) if k != f.key]
            while st:
                k = st.pop()
                if k in seen:
                    continue
                seen.add(k)
                st.extend(cg.get(k, ()))
            seen.discard(f.key)
            bad = sorted(byk[k].name for k in writers.get(name, ()) if k in seen and k in byk)
            own = [x for x in f.walk() if (x["k"] == "Unary" and ("++" in (x.get("op") or "")) or x["k"] in ("Assign", "CompoundAssign")) and
                   strip(x["ch"][0]) is not None and strip(x["ch"][0])["k"] == "Ref" and strip(x["ch"][0]).get("n") == name]
            ok = not bad and not own
            res.add("R5b.visited_stamp_stable", "R5b|%s|%s|%s" % (f.relfile(), f.name, name), f.where(), ok,
                    "nothing the walk can call changes the global stamp `%s`" % name if ok else
                    "the recursive walk %s compares node->search_id with the global `%s`, which %s (reachable from the walk) change%s: visited "
                    "marks go stale in mid-walk and a cycle in the graph is followed until the stack is exhausted" %
                    (f.name, name, ", ".join(bad[:4]) or f.name, "" if len(bad) != 1 else "s"))
    res.floor("R5b.visited_stamp_stable", "recursive walks with a search_id stamp", n, 3)


def _listdo_loops(f):
    """(loop node, list expression, element Var, element assignment) of every LISTdo expansion"""
    for n in f.walk():
        if n["k"] != "Compound" or n.get("mo") != "LISTdo":
            continue
        ch = n.get("ch") or []
        if len(ch) < 4 or ch[0]["k"] != "DeclStmt" or ch[1]["k"] != "DeclStmt":
            continue
        lvar = ch[0]["ch"][0]
        evar = ch[1]["ch"][0]
        if not lvar.get("ch") or lvar["ch"][0] is None:
            continue
        asg = [x for x in walk(n) if x["k"] == "Assign" and strip(x["ch"][0])["k"] == "Ref" and strip(x["ch"][0]).get("d") == evar["d"]
               and x.get("mo") == "LISTdo"]
        if not asg:
            continue
        yield n, lvar["ch"][0], evar, asg[0]


def r6_nullable_elements(prog, res, reachable, nn):
    """Lists whose links are set to NULL somewhere (an unresolvable USE/REFERENCE leaves a NULL entry): every traversal
    reachable from a tool must not dereference the element while it may be NULL."""
    # 1. writers: `link->data = NULL` inside a walk over a list parameter
    writers = {}
    for f in prog.all_functions():
        if f.component == "test":
            continue
        for n in f.walk():
            if n["k"] == "Assign" and n.get("op", "=") == "=":
                lhs = strip(n["ch"][0])
                if lhs["k"] == "Member" and lhs.get("q") == "Link_::data" and is_null_const(n["ch"][1]):
                    # which list?  the enclosing LISTdo_links walks a parameter
                    for a in f.ancestors(n):
                        if a["k"] == "Compound" and a.get("m") == "LISTdo_links" and a.get("ch") and a["ch"][0]["k"] == "DeclStmt":
                            init = strip((a["ch"][0]["ch"][0].get("ch") or [None])[0])
                            if init is not None and init["k"] == "Ref" and init.get("dk") == "param":
                                idx = [i for i, p_ in enumerate(f.params) if p_["d"] == init["d"]]
                                if idx:
                                    writers[(f.key, idx[0])] = (f.name, f.where(n))
    fields = {}
    for f in prog.all_functions():
        if f.component == "test":
            continue
        for c in f.calls():
            for (fk, idx), (wname, wwhere) in writers.items():
                if c.get("fk") == fk:
                    a = call_args(c)
                    if idx < len(a):
                        m = strip(a[idx])
                        if m is not None and m["k"] == "Member" and m.get("q"):
                            fields[m["q"]] = "%s() stores NULL into its links at %s; called with this list at %s" % (wname, wwhere, f.where(c))
    res.info["r6_nullable_lists"] = fields
    res.floor("R6.nullable_list_element", "lists whose links can hold NULL (discovered from their writers)", len(fields), 2)
    n = 0
    unreachable = []
    for f in prog.all_functions():
        if f.component == "test" or f.cfg is None:
            continue
        for lp, lexpr, evar, asg in _listdo_loops(f):
            q = [x.get("q") for x in walk(lexpr) if x["k"] == "Member" and x.get("q") in fields]
            if not q:
                continue
            if f.key not in reachable:
                unreachable.append("%s %s (over %s): not reachable from a tool entry point" % (f.where(lp), f.name, q[0]))
                continue
            pos = f.cfg.locate(asg)
            hits = [h for h in nn.explore(f, evar["d"], pos) if h[1] != "return"] if pos is not None else []
            n += 1
            key = "R6|%s|%s|%s over %s" % (f.relfile(), f.name, evar["n"], q[0].split("::")[-1])
            res.add("R6.nullable_list_element", key, f.where(lp), not hits,
                    "the element `%s` of %s is never dereferenced while it may be NULL" % (evar["n"], q[0]) if not hits else
                    "%s can hold NULL links (%s), but the element `%s` is used without a NULL test: line %s %s"
                    % (q[0], fields[q[0]], evar["n"], hits[0][0]["l"], hits[0][1]))
    res.info["r6_unreachable_traversals"] = unreachable
    res.floor("R6.nullable_list_element", "tool-reachable traversals of such lists", n, 3)


def r6_lookup_results(prog, res, reachable, nn, rule="R6.lookup_result_tested", components=("express",), floor=45):
    """Front end (the only code that sees invalid schemas): a local that receives the result of a function that may
    return NULL is not dereferenced while it may still be NULL."""
    mrn = may_return_null(prog, nn)
    res.info["r6_may_return_null"] = {v[0]: v[1] for v in mrn.values()}
    n = 0
    counters = {}
    for f in prog.all_functions():
        if f.component not in components or f.cfg is None or f.key not in reachable:
            continue
        for x in f.walk():
            d = name = call = None
            if x["k"] == "Assign" and x.get("op", "=") == "=":
                lhs, rhs = strip(x["ch"][0]), strip(x["ch"][1])
                if lhs["k"] == "Ref" and lhs.get("dk") in ("local", "param") and rhs is not None and rhs["k"] == "Call" and rhs.get("fk") in mrn:
                    d, name, call = lhs["d"], lhs["n"], rhs
            elif x["k"] == "Var" and x.get("ch") and x["ch"][0] is not None:
                rhs = strip(x["ch"][0])
                if rhs is not None and rhs["k"] == "Call" and rhs.get("fk") in mrn:
                    d, name, call = x["d"], x["n"], rhs
            if d is None:
                continue
            pos = f.cfg.locate(x)
            if pos is None:
                continue
            n += 1
            hits = [h for h in nn.explore(f, d, pos) if h[1] != "return"]
            base = "R6L|%s|%s|%s=%s" % (f.relfile(), f.name, name, call.get("fn"))
            c0 = counters.get(base, 0)
            counters[base] = c0 + 1
            key = base if c0 == 0 else "%s#%d" % (base, c0)
            res.add(rule, key, f.where(x), not hits,
                    "`%s` (result of %s, which %s) is tested before every dereference" % (name, call.get("fn"), mrn[call["fk"]][1]) if not hits else
                    "`%s` receives the result of %s(), which %s, and is used without a NULL test: line %s %s"
                    % (name, call.get("fn"), mrn[call["fk"]][1], hits[0][0]["l"], hits[0][1]))
    res.floor(rule, "locals that receive a possibly-NULL lookup result in the front end", n, floor)


def r6_null_initialised(prog, res, reachable, nn, rule="R6.null_initialised_local", components=("express",), floor=8):
    """A local pointer that is set to the null constant (at its declaration or later) is not dereferenced on a path on which nothing
    has been assigned to it since: `Function f = 0;` assigned in one arm of a switch and used in another arm (EXP_resolve: the
    diagnostic for `y := f;`, f a function with parameters, read f->u.func->pcount through the null f)."""
    from engines import is_null_const
    n = 0
    counters = {}
    for f in prog.all_functions():
        if f.component not in components or f.cfg is None or f.key not in reachable:
            continue
        for x in f.walk():
            d = name = None
            if x["k"] == "Var" and x.get("ch") and x["ch"][0] is not None and is_null_const(x["ch"][0]) and "*" in f.ty(x):
                d, name = x["d"], x["n"]
            elif x["k"] == "Assign" and x.get("op", "=") == "=":
                lhs = strip(x["ch"][0])
                if lhs is not None and lhs["k"] == "Ref" and lhs.get("dk") == "local" and "*" in f.ty(lhs) and is_null_const(x["ch"][1]):
                    d, name = lhs["d"], lhs["n"]
            if d is None:
                continue
            pos = f.cfg.locate(x)
            if pos is None:
                continue
            # a variable whose address is taken may be assigned through the pointer (out-parameters): not decided
            if any(y["k"] == "Unary" and y.get("op") == "&" and strip(y["ch"][0]) is not None and strip(y["ch"][0]).get("d") == d for y in f.walk()):
                continue
            n += 1
            hits = [h for h in nn.explore(f, d, pos) if h[1] != "return"]
            # exact part only: the dereference is reached by no definition of the variable other than a null constant (a loop that may
            # or may not have assigned it - guarded by a counter the walk does not correlate - is left alone)
            defs = []
            for y in f.walk():
                if y["k"] == "Assign" and strip(y["ch"][0]) is not None and strip(y["ch"][0])["k"] == "Ref" and strip(y["ch"][0]).get("d") == d:
                    defs.append((y, y.get("op", "=") == "=" and is_null_const(y["ch"][1])))
                elif y["k"] in ("CompoundAssign", "Unary") and y.get("ch") and strip(y["ch"][0]) is not None and strip(y["ch"][0]).get("d") == d and \
                        (y["k"] == "CompoundAssign" or "++" in (y.get("op") or "") or "--" in (y.get("op") or "")):
                    defs.append((y, False))
            def_ids = {y["i"] for y, _ in defs}

            def is_def(nd):
                return any(z["i"] in def_ids for z in walk(nd))
            hits = [h for h in hits if not any(not isnull and f.cfg.reaches(f.cfg.locate(y), f.cfg.locate(h[0]), is_stop=is_def)
                                               for y, isnull in defs)]
            base = "R6N|%s|%s|%s" % (f.relfile(), f.name, name)
            c0 = counters.get(base, 0)
            counters[base] = c0 + 1
            key = base if c0 == 0 else "%s#%d" % (base, c0)
            res.add(rule, key, f.where(hits[0][0]) if hits else f.where(x), not hits,
                    "`%s` is assigned or tested before every dereference that can follow its `= NULL` at line %s" % (name, x["l"]) if not hits else
                    "`%s` is set to NULL at line %s, no other assignment can reach line %s, and there %s" % (name, x["l"], hits[0][0]["l"], hits[0][1]))
    res.floor(rule, "locals set to the null constant in the front end", n, floor)


# Loops that follow the type graph (`t = t->u.type->head`, `t = t->u.type->body->base`): the parser builds these links from names, so an
# invalid schema can make them cyclic (TYPE a = b; TYPE b = a;  TYPE a = LIST OF a;).  Each such loop is frozen here with the reason
# why it ends; "mark" entries are re-verified: the loop condition must test the resolve-failed mark of the node it stands on.
R5C_WALKS = {
    "TYPE_resolve|u.type.head": ("mark", "same walk as below: it follows renames and aggregate base types alike (fix b9863b53)"),
    "TYPE_resolve|u.type.body.base": ("mark", "runs while the types are being resolved; the nodes of a cycle that does not contain the start type have "
                                              "been resolved (recursively, just before) and carry the resolve-failed mark, which ends the walk"),
    "TYPEget_ancestor|u.type.head": ("resolved", "generators only: runs after resolution succeeded; a rename cycle is an ERROR (fix 1bdf5cb1) and the back end is not entered"),
    "TYPEprint_new|u.type.head": ("resolved", "generator only, after successful resolution (see TYPEget_ancestor)"),
    "TYPEget_nonaggregate_base_type|u.type.body.base": ("resolved", "called by the generators and by exppp after successful resolution; an aggregate cycle is an ERROR (fix c68ca63c)"),
}
R5C_FIELDS = ("u.type.head", "u.type.body.base")


def r5c_graph_walks(prog, res):
    """see R5C_WALKS"""
    n = 0
    seen = set()
    for f in prog.all_functions():
        if f.component == "test":
            continue
        for lp in f.walk():
            if lp["k"] not in ("While", "For", "Do"):
                continue
            body = lp["ch"][-1] if lp["k"] != "Do" else lp["ch"][0]
            parts = [body] + ([lp["ch"][2]] if lp["k"] == "For" and lp["ch"][2] is not None else [])
            cond = lp["ch"][0] if lp["k"] == "While" else lp["ch"][1]
            for part in parts:
                for a in walk(part) if part is not None else []:
                    if a["k"] != "Assign" or a.get("op", "=") != "=":
                        continue
                    l, r0 = strip(a["ch"][0]), strip(a["ch"][1])

                    def arms(r):
                        while r is not None and r["k"] in ("Cast", "Paren") and r.get("ch"):
                            r = strip(r["ch"][0])
                        if r is not None and r["k"] == "Cond" and len(r.get("ch") or []) == 3:
                            return arms(r["ch"][1]) + arms(r["ch"][2])
                        return [r] if r is not None else []
                    for r in arms(r0):
                      if l is None or l["k"] != "Ref" or r is None or r["k"] != "Member":
                        continue
                      ap = access_path(r)
                      if not ap or ap.split(".")[0] != l.get("d"):
                        continue
                      fields = ".".join(ap.split(".")[1:])
                      if fields not in R5C_FIELDS:
                        continue
                      if True:
                          key = "%s|%s" % (f.name, fields)
                          if (key, f.relfile(), lp["l"]) in seen:
                              continue
                          seen.add((key, f.relfile(), lp["l"]))
                          n += 1
                          ent = R5C_WALKS.get(key)
                          if ent is None:
                              res.add("R5c.graph_walk_terminates", "R5c|%s|%s" % (f.relfile(), key), f.where(lp), False,
                                      "`%s = %s->%s` in a loop follows links that an invalid schema can make cyclic, and the loop is not in the table of "
                                      "reviewed walks (scv/rules/c06.py R5C_WALKS): say why it ends" % (l["n"], l["n"], fields.replace(".", "->")))
                              continue
                          kind, why = ent
                          ok = True
                          if kind == "mark":
                              # the condition tests the resolve-failed mark of the node the walk stands on
                              ok = cond is not None and any(y["k"] == "Member" and y.get("n") == "resolved" and
                                                            (access_path(y) or "").split(".")[0] == l.get("d") for y in walk(cond))
                          res.add("R5c.graph_walk_terminates", "R5c|%s|%s" % (f.relfile(), key), f.where(lp), ok,
                                  "reviewed walk over %s: %s" % (fields, why) if ok else
                                  "the walk `%s = %s->%s` no longer tests the resolve-failed mark of the node it stands on: a chain that runs into a cycle "
                                  "the start type is not part of (a = LIST OF b; b = SET OF c; c = BAG OF b) is followed for ever"
                                  % (l["n"], l["n"], fields.replace(".", "->")), assume=None if kind == "mark" else why)

    res.floor("R5c.graph_walk_terminates", "loops that follow head / base links of the type graph", n, 4)


# lists of the resolver's graph that an invalid schema can make cyclic (built from names): entity sub/supertypes, schema USE / REFERENCE
# lists, select items
R5D_LISTS = {"supertypes": "entity", "subtypes": "entity", "use_schemas": "schema", "ref_schemas": "schema", "body.list": "select"}


def r5d_recursion_over_graph_lists(prog, res):
    """A function of the resolver that calls itself for each element of one of those lists comes back from a cyclic graph only if it
    (a) sets a visited mark (search_id / mark / symbol.resolved) on its own node before it descends, (b) threads a list of the nodes
    it has seen and consults it, or (c) - entity graph only - runs after the pass that reports sub/supertype loops, *and that pass
    takes the closing link out of the graph*: (c) is re-verified, the branch of ENTITY_check_subsuper_cyclicity that reports
    SUBSUPER_LOOP must unlink from both lists.  Mutual USE (a <-> b) with an undefined USEd item, and e1 SUBTYPE OF (e2) with
    e2 <-> e3, both ended all four tools with SIGSEGV before fixes e664c966 and fcd4a2fc."""
    # premise for (c)
    chk = prog.one("ENTITY_check_subsuper_cyclicity")
    cuts = set()
    if chk is not None:
        for c in chk.calls():
            if c.get("fn") == "ERRORreport_with_symbol" and any(y.get("n") == "SUBSUPER_LOOP" or y.get("m") == "SUBSUPER_LOOP" for y in walk(c)):
                blk = chk.parent.get(c["i"])
                while blk is not None and blk["k"] != "Compound":
                    blk = chk.parent.get(blk["i"])
                for y in walk(blk) if blk is not None else []:
                    if y["k"] == "Call" and "unlink" in (y.get("fn") or "").lower():
                        for z in walk(y):
                            if z["k"] == "Member" and z.get("n") in ("subtypes", "supertypes"):
                                cuts.add(z["n"])
    cut_ok = cuts == {"subtypes", "supertypes"}
    res.info["r5d_loop_report_cuts"] = sorted(cuts)
    n = 0
    counters = {}
    for f in prog.all_functions():
        if f.component != "express" or f.cfg is None:
            continue
        rec = [c for c in f.calls() if c.get("fk") == f.key]
        done = set()
        for c in rec:
            # the list whose element the call descends into: nearest preceding `Linked_List _l = <member path>` of a LISTdo
            best = None
            for y in f.walk():
                if y["k"] == "Var" and y.get("ch") and y["ch"][0] is not None and y["i"] < c["i"]:
                    m = strip(y["ch"][0])
                    while m is not None and m["k"] == "Cast" and m.get("ch"):
                        m = strip(m["ch"][0])
                    if m is not None and m["k"] == "Member" and (best is None or y["i"] > best[0]):
                        best = (y["i"], m)
            if best is None:
                continue
            ap = access_path(best[1]) or ""
            fld = next((k for k in R5D_LISTS if ap.endswith("." + k)), None)
            if fld is None or fld in done:
                continue
            done.add(fld)
            n += 1
            marks = [x for x in f.walk() if x["k"] == "Assign" and strip(x["ch"][0]) is not None and strip(x["ch"][0])["k"] == "Member" and
                     strip(x["ch"][0]).get("n") in ("search_id", "mark", "resolved", "inheritance") and f.cfg.locate(x) is not None and
                     f.cfg.reaches(f.cfg.locate(x), f.cfg.locate(c))]
            vis = [p_ for p_ in f.params if "Linked_List" in (f.tyname(p_["t"]) if isinstance(p_.get("t"), int) else "")
                   and any(y["k"] == "Call" and y.get("fn") == "LISTadd_last" and any(z["k"] == "Ref" and z.get("d") == p_["d"] for z in walk(y)) for y in f.walk())]
            how = "mark" if marks else "visited list" if vis else "loop cut" if (R5D_LISTS[fld] == "entity" and cut_ok) else None
            key = "R5d|%s|%s|%s" % (f.relfile(), f.name, fld)
            res.add("R5d.recursion_over_graph_lists", key, f.where(c), how is not None,
                    "%s descends through `%s`: terminates by %s" % (f.name, fld, {
                        "mark": "a visited mark set on its own node (line %s)" % marks[0]["l"] if marks else "",
                        "visited list": "a list of the nodes already seen that it threads and consults",
                        "loop cut": "running after the sub/supertype loop check, which takes the closing link out of the graph when it reports a loop"}.get(how, "")) if how else
                    "%s calls itself for every element of `%s`, a list that an invalid schema can make cyclic, without a visited mark or list%s: "
                    "the recursion never comes back from a loop (stack overflow, SIGSEGV)" %
                    (f.name, fld, "" if R5D_LISTS[fld] != "entity" else
                     "; and the loop check no longer unlinks both `subtypes` and `supertypes` when it reports a loop (found: %s)" % (sorted(cuts) or "nothing")))
    res.floor("R5d.recursion_over_graph_lists", "recursions over graph lists in the resolver", n, 15)


def r10_scope_name_backpointer(prog, res):
    """The parser keeps, in every entry of its scope stack, `pscope`: the nearest entry that has a printable name.  Diagnostics
    (syntax error, too many nested scopes, unlabelled parameter type) print OBJget_symbol(scope->pscope->this_, scope->pscope->type),
    and the OBJ[] table has no get_symbol function for the kinds of unnamed scopes (QUERY, increment, ALIAS): calling it for one is a
    call through a null pointer.  So `pscope` must point at a named entry for every nesting of scopes.  That is an inductive
    invariant over the stores into the member: every store `E->pscope = V` must give V as
      * E itself where the entry is named (the true arm of a conditional on the scope's symbol, or the base entry of the stack), or
      * the `pscope` of another entry (named by induction).
    Any other value (a neighbouring entry itself, say) breaks the invariant for an unnamed scope nested in an unnamed scope."""
    from ir import access_path
    n = 0
    for f in prog.all_functions():
        if f.component != "express":
            continue
        base_fn = None
        for a in f.walk():
            if a["k"] != "Assign" or a.get("op", "=") != "=" or not a.get("ch"):
                continue
            l = strip(a["ch"][0])
            if l is None or l["k"] != "Member" or l.get("n") != "pscope" or not l.get("ch"):
                continue
            ent = access_path(l["ch"][0]) or expr_str(l["ch"][0])
            if base_fn is None:
                # the function that sets the stack pointer to the start of the array initialises the base entry
                base_fn = any(x["k"] == "Assign" and strip(x["ch"][0]) is not None and access_path(x["ch"][0]) == ent and
                              strip(x["ch"][1]) is not None and strip(x["ch"][1])["k"] == "Ref" and "[" in f.ty(strip(x["ch"][1]))
                              for x in f.walk())
            bad = []

            def leaves(v, named):
                v = strip(v)
                while v is not None and v["k"] in ("Paren", "Cast") and v.get("ch"):
                    v = strip(v["ch"][0])
                if v is None:
                    return
                if v["k"] == "Cond" and len(v.get("ch") or []) == 3:
                    leaves(v["ch"][1], True)
                    leaves(v["ch"][2], False)
                    return
                if v["k"] == "Member" and v.get("n") == "pscope":
                    return          # another entry's back pointer
                if (access_path(v) or expr_str(v)) == ent and (named or base_fn):
                    return          # the entry itself, where it is named
                bad.append((v, named))
            leaves(a["ch"][1], False)
            n += 1
            res.add("R10.scope_name_backpointer_inductive", "R10|%s|%s|%s" % (f.relfile(), f.name, a["l"]), f.where(a), not bad,
                    "`%s` is the entry itself where it is named, else another entry's pscope" % expr_str(a)[:60] if not bad else
                    "`%s` can store `%s`, which is neither the entry itself under its name test nor another entry's `pscope`: an unnamed "
                    "scope nested in an unnamed scope (QUERY in QUERY) then names an unnamed entry, and the next diagnostic calls "
                    "OBJget_symbol() for a kind that has no get_symbol function (null function pointer)" %
                    (expr_str(a)[:70], expr_str(bad[0][0])[:30]))
    res.floor("R10.scope_name_backpointer_inductive", "stores into the scope stack's pscope", n, 5)


def selftest(res):
    import selftest as st
    import report
    prog = st.load(PID, ["src/express/keep.c"])
    sub = report.Result(PID)
    r2_escape_then_free(prog, sub)
    st.expect(res, "C06 R2", sub, [
        "R2|src/express/keep.c|find_schema_bad|free(copy)",
        "R2|src/express/keep.c|define_bad|free(copy)",
    ], expected_ok_min=1)


def run(prog, res, tier):
    from rules import c18 as _c18
    _c18.r1_decls(res, tier, rule="R9.no_uninitialised_local", components=set(("express", "exppp", "exp2cxx", "exp2python")), min_units=70,
                  wflags=("-Wno-everything", "-Wuninitialized", "-Wsometimes-uninitialized"), groups=("uninitialized", "sometimes-uninitialized"),
                  tail=" — reading an indeterminate value is undefined behaviour")
    reachable, keys = memsafe.reach(prog, CFG)
    res.info["reachable_functions"] = len(reachable)
    lstar, ns = memsafe.run_e2(prog, res, CFG, reachable)
    res.floor("E2.bounded_write", "index/by-reference stores into fixed arrays", ns.get("index", 0), 50)
    res.floor("E2.bounded_write", "library writers into fixed arrays", ns.get("lib", 0), 100)
    r1_cursors(prog, res)
    r2_escape_then_free(prog, res, f_floor=True)
    # a freed local (or a copy of it) is not used again before it is re-assigned (engine of C05 R9)
    from rules import c05 as _c05
    _c05.r9_no_use_after_delete(prog, res, components=("express", "exppp", "exp2cxx", "exp2python"), rule="R2b.no_use_after_free", floor=10)
    r10_scope_name_backpointer(prog, res)
    r5_recursion_marks(prog, res)
    r5b_stamp_stable(prog, res)
    r5c_graph_walks(prog, res)
    r5d_recursion_over_graph_lists(prog, res)
    nn = Nullness(prog)
    r6_nullable_elements(prog, res, reachable, nn)
    r6_lookup_results(prog, res, reachable, nn)
    r6_null_initialised(prog, res, reachable, nn, components=("express", "exppp", "exp2cxx", "exp2python"))
    nt = memsafe.run_strncpy_terminated(prog, res, CFG, reachable)
    res.floor("E2t.strncpy_terminated", "strncpy calls into fixed arrays with a constant size", nt, 20)
    # L* (identifier length for which every assumption-discharged write is safe) must not shrink
    floor = CFG.get("lstar_floor")
    if floor is not None:
        cur = lstar
        res.add("E2.identifier_length_floor", "E2|L*", "-", cur >= floor,
                "every identifier-driven write is safe for names up to L* = %s bytes (reference %s)" % (cur, floor) if cur >= floor else
                "L* dropped from %s to %s: a name buffer was shrunk or text was added" % (floor, cur),
                assume="schema identifiers are at most %s bytes long" % cur)
    n_assume = len([o for o in res.obs if o.rule == "E2.bounded_write" and o.ok and o.assume and "identifier" in (o.assume or "")])
    res.add("E2.identifiers_unbounded", "E2|identifier-length-assumption", "-", n_assume == 0,
            "no write depends on a bound for identifier lengths" if n_assume == 0 else
            "%d writes into fixed buffers are safe only for identifiers of at most %s bytes, but EXPRESS puts no bound on identifier "
            "length: a valid schema with a longer name overflows a generator buffer" % (n_assume, lstar), {"sites": n_assume, "L*": lstar})
    if os.environ.get("SCV_FREEZE") == "C06":
        json.dump({"comment": "reference classification of every E2 site of the EXPRESS tools on the pinned tree (regression reference)",
                   "lstar_floor": (None if lstar == float("inf") else int(lstar)), "sites": res.e2_site_table},
                  open(_T, "w"), indent=0, sort_keys=True)
