"""C03 — the reader never reports a schema-violating exchange file as clean (structural clauses).

 R1 message=>raise   every diagnostic text appended to an error descriptor is accompanied, on the same paths,
                     by a raise of that descriptor's severity
 R2 relaxation       the non-monotone setter severity(x) with a relaxing / non-constant value and ClearErrorMsg()
                     only at frozen, reviewed sites
 R3 merges           attribute -> instance -> file merges are on every path (SDAI_Application_instance::STEPread,
                     STEPfile::ReadData2 / AppendFile counters)
 R4 exit gate        p21read maps severity <= INCOMPLETE to a non-zero exit status on every path
 R5 dropped errors   a local ErrorDescriptor that may have received a severity is read or merged before it dies;
                     a Severity result / descriptor of a part reader is not discarded
"""
import json
import os

from engines import known_facts, call_args, peval
from ir import walk, strip, expr_str, access_path

PID = "C03"
UNITS = dict(components={"clstepcore", "cleditor", "cldai", "clutils", "cllazyfile", "p21read"})
EXPLANATION = (
    "Structural clauses of 'a violating file is never reported clean', decided over the reader closure (clstepcore, "
    "cleditor, cldai, clutils, p21read): (R1) every call that appends a literal diagnostic text to an ErrorDescriptor "
    "is dominated or post-dominated (clang CFG, dominator and post-dominator trees) by a raise of the same "
    "descriptor (GreaterSeverity / severity(c) / AppendFromErrorArg) unless the text is in the frozen list of purely "
    "informational messages; (R2) calls of the non-monotone setter severity(x) with x >= SEVERITY_INCOMPLETE or "
    "non-constant, and of ClearErrorMsg(), occur only at the frozen reviewed sites; (R3) the severity of each "
    "attribute is merged into the instance and the per-instance result into the file counters on every path; (R4) the "
    "reference tool's exit gate; (R5) no local ErrorDescriptor that was handed to a callee or merged into is dropped "
    "unread, and no Severity-returning part reader is called with both its result and its descriptor ignored. "
    "(R7) the instance step of both passes is not guarded by the stream state. (R8) a function that has recorded a violation (constant raise <= INCOMPLETE) in the caller's ErrorDescriptor returns, on every flag-consistent path, that descriptor's severity, a constant/local <= INCOMPLETE or the result of a call given the same descriptor - never a clean or unrelated severity that callers would assign over it. Not decided: that each violation class is recognised in every position of a file; confinement to the instance."
    " (R6e, shared with C01 and C09) the item lookup of the enumeration readers compares whole strings - a prefix or length-limited comparison would accept an undeclared item as a declared one without any diagnostic."
    " (R9) an integer read from the file with >> is never converted to a narrower integer type afterwards (no silent reduction modulo 2^32 of an instance number)."
    " (R10) every test that discards an object created by Registry::ObjCreate on the severity of its error descriptor holds for each constant severity with which ObjCreate marks a refusal (abstract supertype, external mapping only).")

T = os.path.join(os.path.dirname(__file__), "..", "tables")
RAISERS = {"GreaterSeverity", "severity", "AppendFromErrorArg"}
APPENDERS = {"AppendToDetailMsg", "AppendToUserMsg", "UserMsg", "DetailMsg", "PrependToUserMsg", "PrependToDetailMsg"}
ED = "ErrorDescriptor::"


def is_ed_call(c, names):
    fn = c.get("fn") or ""
    return fn.startswith(ED) and fn[len(ED):] in names


def desc_of(c):
    """access path of the descriptor object a member call works on"""
    if not c.get("ch"):
        return None
    o = strip(c["ch"][0])
    p = access_path(o)
    if p is None and o is not None and o["k"] == "Call":
        # obj->Error().GreaterSeverity(..): identify by the call text
        p = expr_str(o)
    if p is None:
        return None
    p = p.lstrip("*&")
    # Error() is the accessor of the object's own _error member
    if p in ("Error()", "this.Error()"):
        p = "this._error"
    return p


def sev_enum(prog):
    for items in prog.enums.values():
        if "SEVERITY_USERMSG" in items:
            return items
    return None


def r1_message_raise(prog, res, sev):
    info_tbl = json.load(open(os.path.join(T, "c03_informational.json")))["sites"] if os.path.exists(os.path.join(T, "c03_informational.json")) else {}
    n = 0
    counters = {}
    cand = []
    for f in prog.all_functions():
        if f.component in ("test", "cllazyfile") or f.cfg is None:
            continue
        cfg = f.cfg
        appends = []
        raises = []
        late_raises = []     # raise only what is found *after* the text (resynchronising check)
        for c in f.calls():
            if is_ed_call(c, APPENDERS) and len(call_args(c)) >= 1:
                # literal text (directly or through a local char buffer filled by sprintf with a literal format)
                lit = None
                a0 = strip(call_args(c)[0])
                for x in walk(a0):
                    if x["k"] == "Str":
                        lit = x.get("s")
                if lit is None and a0 is not None and a0["k"] in ("Ref", "Member", "Call"):
                    lit = buffer_text(f, a0)
                if lit is None:
                    continue
                appends.append((c, desc_of(c), lit))
            if (c.get("fn") or "").endswith("CheckRemainingInput") and len(c.get("ch") or []) >= 2:
                # CheckRemainingInput(in, &D, ..) raises D whenever the next character is not a listed delimiter
                d0 = access_path(c["ch"][1])
                if d0:
                    late_raises.append((c, d0.lstrip("*&")))
            if is_ed_call(c, RAISERS):
                short = c["fn"][len(ED):]
                if short == "severity" and len(call_args(c)) == 0:
                    continue
                if short in ("severity", "GreaterSeverity"):
                    v = strip(call_args(c)[0]).get("val")
                    if v is not None and v >= sev["SEVERITY_USERMSG"]:
                        continue     # not a raise
                raises.append((c, desc_of(c)))
        seen_txt = set()
        for c, d, lit in appends:
            if d is None:
                continue
            pos = cfg.locate(c)
            ok = False
            mine = [cfg.locate(r) for r, rd in raises if rd == d]
            for rp in mine:
                if cfg.dominates(rp, pos) or cfg.postdominates(rp, pos):
                    ok = True
                    break
            for r, rd in late_raises:
                if rd == d and cfg.postdominates(cfg.locate(r), pos) and cfg.locate(r) != pos:
                    ok = True
            if not ok and mine:
                # several raises that together cover every path to (or from) the text
                ok = covered(cfg, f, pos, set(mine))
            txt = " ".join(lit.split())[:60]
            base = "R1|%s|%s|%s|%s" % (f.relfile(), f.name, d.split(":")[-1], txt)
            k0 = counters.get(base, 0)
            counters[base] = k0 + 1
            key = base if k0 == 0 else "%s#%d" % (base, k0)
            n += 1
            if not ok and key in info_tbl:
                res.add("R1.message_raise", key, f.where(c), True, "informational text: " + info_tbl[key], assume=info_tbl[key])
                continue
            if not ok:
                cand.append(key)
            res.add("R1.message_raise", key, f.where(c), ok,
                    "text is accompanied by a raise of `%s`" % d.split(":")[-1] if ok else
                    "diagnostic text %r is appended to `%s` on a path that never raises that descriptor's severity: the "
                    "violation is described but the file can still be reported clean" % (txt, d.split(":")[-1]))
    res.floor("R1.message_raise", "diagnostic texts appended to error descriptors", n, 60)
    res.info["r1_candidates"] = cand


def covered(cfg, fn, pos, stops):
    """every path entry -> pos passes one of the positions in `stops`, or every path pos -> exit does"""
    from collections import deque

    def reach(start, forward, target_exit):
        seen = set()
        dq = deque([start])
        while dq:
            b, i = dq.popleft()
            blk = cfg.blocks[b]
            n = len(blk["e"])
            rng = range(i, n) if forward else range(min(i, n - 1), -1, -1)
            cut = False
            for j in rng:
                if (b, j) in stops:
                    cut = True
                    break
                if not target_exit and (b, j) == pos:
                    return True
            if cut:
                continue
            nxt = cfg.succ[b] if forward else cfg.pred[b]
            if target_exit and forward and (b == cfg.exit or (not nxt and not blk.get("noreturn"))):
                return True
            for s in nxt:
                if s not in seen:
                    seen.add(s)
                    dq.append((s, 0) if forward else (s, len(cfg.blocks[s]["e"])))
        return False
    # (a) is pos reachable from entry without passing a stop?
    before = not reach((cfg.entry, 0), True, False)
    if before:
        return True
    # (b) can the exit be reached from pos without passing a stop?
    after = not reach((pos[0], pos[1] + 1), True, True)
    return after


def buffer_text(f, ref):
    """format literal of the sprintf that filled the char buffer passed as message"""
    p = access_path(ref)
    if p is None:
        return None
    best = None
    for c in f.calls():
        if (c.get("fn") or "").split("::")[-1] in ("sprintf", "snprintf") and c.get("ch"):
            if access_path(c["ch"][0]) == p:
                fmt = strip(c["ch"][1 if c["fn"].endswith("sprintf") and not c["fn"].endswith("snprintf") else 2])
                if fmt is not None and fmt["k"] == "Str":
                    best = fmt.get("s")
    if best is None and ref["k"] == "Call" and (ref.get("fn") or "").endswith("c_str"):
        return None
    return best


def _dirty_since_clear(f, site, d, sev):
    """-> (node, description) of something that can write descriptor d between the dominating ClearErrorMsg() and `site`, else None.
    Not counted: a call inside the setter's own argument (`D.severity( x->STEPread( .., &D, .. ) )`: what that call returns is what is
    stored; R8 keeps its result from being milder than `clean`), and a writer after which every path to the site passes an early-exit
    guard `if( D.severity() <= K ) return ..;`."""
    cfg = f.cfg
    spos = cfg.locate(site)
    own_arg = {y["i"] for a in call_args(site) for y in walk(a)}
    guards = []
    for x in f.walk():
        if x["k"] != "If":
            continue
        c0 = strip(x["ch"][0])
        if c0 is None or c0["k"] != "Binary" or c0.get("op") not in ("<=", "<"):
            continue
        l, r = strip(c0["ch"][0]), strip(c0["ch"][1])
        if l is not None and l["k"] == "Call" and is_ed_call(l, {"severity"}) and len(call_args(l)) == 0 and desc_of(l) == d and \
                isinstance((r or {}).get("val"), int) and r["val"] + (0 if c0["op"] == "<=" else -1) >= sev["SEVERITY_INCOMPLETE"]:
            body = x["ch"][1]
            last = body["ch"][-1] if body is not None and body["k"] == "Compound" and body.get("ch") else body
            if last is not None and last["k"] == "Return":
                guards.append(c0)
    clears = [c for c in f.calls() if is_ed_call(c, {"ClearErrorMsg"}) and desc_of(c) == d and cfg.dominates(cfg.locate(c), spos)]
    if not clears:
        return (site, "no ClearErrorMsg() dominates the site")
    start = cfg.locate(clears[-1])
    leaf = d.split(".")[-1].split(":")[-1]
    for c in f.calls():
        if c is site or c in clears:
            continue
        what = None
        if is_ed_call(c, {"GreaterSeverity", "AppendToDetailMsg", "AppendToUserMsg", "PrependToDetailMsg", "PrependToUserMsg", "AppendFromErrorArg", "severity"}) \
                and desc_of(c) == d and call_args(c):
            if (c.get("fn") or "").endswith("severity"):
                continue                      # other setters are sites of their own
            what = "%s()" % c["fn"].split("::")[-1]
        else:
            for a in call_args(c):
                a0 = strip(a)
                if a0 is not None and a0["k"] == "Unary" and a0.get("op") == "&":
                    a0 = strip(a0["ch"][0])
                if a0 is not None and a0["k"] in ("Member", "Ref") and (a0.get("n") == leaf) and ("ErrorDescriptor" in f.ty(a0)):
                    what = "%s( .. &%s .. )" % (c.get("fn"), leaf)
        if what is None:
            continue
        cpos = cfg.locate(c)
        if cpos is None or c["i"] in own_arg:
            continue

        def is_guard(e):
            return any(g is e or any(y is g for y in walk(e)) for g in guards)
        if cfg.reaches(start, cpos) and cfg.reaches(cpos, spos, is_guard):
            return (c, what)
    return None


def r2_relaxation(prog, res, sev):
    tblp = os.path.join(T, "c03_relaxation.json")
    allowed = json.load(open(tblp))["sites"] if os.path.exists(tblp) else {}
    n = 0
    counters = {}
    found = []
    for f in prog.all_functions():
        if f.component in ("test",) or f.cfg is None:
            continue
        for c in f.calls():
            kind = None
            if is_ed_call(c, {"severity"}) and len(call_args(c)) == 1:
                a = strip(call_args(c)[0])
                v = a.get("val") if a is not None else None
                if v is None:
                    kind = "severity(<%s>)" % expr_str(a)[:30]
                elif v >= sev["SEVERITY_INCOMPLETE"]:
                    kind = "severity(%s)" % [k for k, x in sev.items() if x == v][0]
            elif is_ed_call(c, {"ClearErrorMsg"}):
                kind = "ClearErrorMsg()"
            if kind is None:
                continue
            d = desc_of(c) or "?"
            base = "R2|%s|%s|%s.%s" % (f.relfile(), f.name, d.split(":")[-1], kind)
            k0 = counters.get(base, 0)
            counters[base] = k0 + 1
            key = base if k0 == 0 else "%s#%d" % (base, k0)
            n += 1
            # (a) relaxes exactly SEVERITY_INCOMPLETE: guarded by `D.severity() == SEVERITY_INCOMPLETE` on the same descriptor
            auto = None
            if kind.startswith("severity(SEVERITY_"):
                for cn, pol in known_facts(f, c):
                    cn0 = strip(cn)
                    if pol and cn0["k"] == "Binary" and cn0["op"] == "==":
                        l, r = strip(cn0["ch"][0]), strip(cn0["ch"][1])
                        for a, b in ((l, r), (r, l)):
                            if a["k"] == "Call" and is_ed_call(a, {"severity"}) and len(call_args(a)) == 0 and \
                                    desc_of(a) == d and b.get("val") == sev["SEVERITY_INCOMPLETE"]:
                                auto = "relaxes exactly SEVERITY_INCOMPLETE (guard `%s`)" % expr_str(cn0)
            # (b) fresh: no raise of this descriptor can precede the call inside this function and the descriptor is local
            if auto is None and kind == "ClearErrorMsg()":
                o = strip(c["ch"][0])
                if o is not None and o["k"] == "Ref" and o.get("dk") == "local":
                    auto = "clears a local descriptor"
            if auto is not None:
                res.add("R2.relaxation_sites", key, f.where(c), True, auto)
                continue
            found.append(key)
            ok = key in allowed
            # a reviewed reason that claims freshness is re-checked on the code: since the ClearErrorMsg() that dominates the site nothing
            # may have written the descriptor or received it by address / reference on any path to the site
            keeps_unclean = kind.startswith("severity(SEVERITY_") and sev.get(kind[len("severity("):-1], 99) <= sev["SEVERITY_INCOMPLETE"]
            if ok and "first write after the ClearErrorMsg()" in allowed[key] and kind != "ClearErrorMsg()" and not keeps_unclean:
                dirty = _dirty_since_clear(f, c, d, sev)
                if dirty is not None:
                    res.add("R2.relaxation_sites", key, f.where(c), False,
                            "`%s.%s` is listed as the first write after ClearErrorMsg(), but %s (line %s) can run in between and record an error in "
                            "the same descriptor: the setter then wipes it (e.g. garbage after `$` for an OPTIONAL attribute is accepted silently)"
                            % (d.split(":")[-1], kind, dirty[1], dirty[0]["l"]))
                    continue
            res.add("R2.relaxation_sites", key, f.where(c), ok,
                    "reviewed: " + allowed[key] if ok else
                    "`%s.%s` can lower a severity that was already raised and is not one of the reviewed relaxation sites"
                    % (d.split(":")[-1], kind), assume=allowed.get(key))
    res.floor("R2.relaxation_sites", "relaxation-capable calls", n, 20)
    res.info["r2_sites"] = found


def run(prog, res, tier):
    sev = sev_enum(prog)
    if sev is None:
        res.broke("anchor vanished: enum Severity")
        return
    r1_message_raise(prog, res, sev)
    r2_relaxation(prog, res, sev)
    from rules import c03_more
    c03_more.run(prog, res, sev)
    # an undeclared enumeration item that is accepted as a declared one is a violation nobody reports: the item lookup of the enumeration
    # readers compares whole strings (rule shared with C01 / C09)
    from rules import c09
    c09.r6_enum_item_match(prog, res)
    c09.r8_search_bound_agrees(prog, res)
