"""C04 — all EXPRESS tools give the same, correct verdict on a schema.

 R1 gates      parse -> resolve -> backend each followed on every path by an `if(ERRORoccurred)`
               gate whose true edge only fails (fedex.c main, schemaScanner.cc main)
 R2 flag       ERRORoccurred is written only in error.c, only `true`, only under severity >= ERROR;
               every such branch sets it and prints the ERROR prefix; the else arm prints WARNING
 R3 exits      EXPRESS_fail returns non-zero / EXPRESS_succeed 0 without hooks; success hooks return 0;
               EXIT-severity paths call exit(EXPRESS_fail(..)), DUMP paths abort(); DUMP codes frozen
 R4 one main   the four tools share fedex.c's main and each defines EXPRESSinit_init; backends never
               exit(0) / leave through a success status on their own
 R5 classes    every error class named in the property has severity >= ERROR, is not switchable by
               -w/-i, and has a reachable report site
 R6 lookups    results of resolver lookups / nullable list elements are tested before use   (c04_lookup, shared with C06 R6)
 R7 flags      a flag that decides a diagnostic inside a loop is re-assigned in that loop
 R8 nesting    every nested statement is resolved unless an error was already reported for its guard
 R9 renames    a pending USE/REFERENCE item is matched under the key it is later stored under (AS names)
 R11 probe     a define guarded by a look-up probes the table (and key) it defines into
 R10 request   a look-up whose caller passed NULL for the optional `search subtypes too` request passes NULL on
"""
from engines import init_rows, str_of, known_facts, calls_in, peval
from ir import walk, strip, expr_str, access_path
from rules import c20

PID = "C04"
UNITS = dict(components={"express", "exppp", "exp2cxx", "exp2python", "scanner"})

EXPLANATION = (
    "Static decision of the control-flow and table clauses behind 'exit status is a function of the sticky error "
    "flag': (R1) in fedex.c main (shared by check-express, exppp, exp2cxx, exp2python) and in the schema scanner's "
    "main, every CFG path from each stage call (EXPRESSparse, EXPRESSresolve, the EXPRESSbackend call) reaches an "
    "`if(ERRORoccurred)` gate before any return/exit/success marker, and each gate's true edge reaches only failure "
    "exits; (R2) ERRORoccurred has no writer outside error.c, is only set to true under `severity >= SEVERITY_ERROR`, "
    "and every severity>=ERROR arm of the reporters sets it and prints ERROR while the else arm prints WARNING; "
    "(R3) exit constants of EXPRESS_fail/EXPRESS_succeed/success hooks, EXIT/DUMP handling; (R4) exactly one main "
    "for the tools, one EXPRESSinit_init per tool, backends contain no exit(0); (R5) every error class named in the "
    "property has an ERROR-or-worse entry in LibErrors that -w/-i cannot switch and at least one call site reachable "
    "from EXPRESSparse/EXPRESSresolve; (R6) results of resolver lookups are null-tested before use; (R8) in the statement "
    "resolver each call that resolves a nested statement (list, case item) is unconditional or guarded by an idiom that implies an "
    "error was already reported (the guarding expression failed to resolve; no label of a labelled case item resolved). "
    "(R9) a pending USE/REFERENCE item is matched under the key it is stored under. (R10) when a look-up wrapper's optional \"search subtypes too\" request parameter is NULL, every reachable call passes NULL for the callee's search-mode parameter (mode parameters discovered as NULL-tested parameters guarding recursive search calls). Not decided: that each malformed schema reaches its detection branch; agreement on warnings."
    " (R11) wherever a DICTdefine is guarded by a test of the result of a DICTlookup made in the same function (SCHEMAdefine_use, SCHEMAdefine_reference, TYPEcreate_user_defined_tag), the look-up reads the table the definition goes into, under the same key: otherwise a conflicting second import is accepted and a repeated identical one is rejected."
    " (R6N, shared with C06) a local pointer of the resolver is not dereferenced where every reaching definition is the null constant: a tool that crashes while formatting a diagnostic delivers no verdict."
    " (R12) an operand that is resolved in the resolver's silent mode (hint Type_Unknown) is resolved again, on a path that follows, with a hint that is neither Type_Unknown nor taken from the operand itself."
    " (R13) a function that starts a stamped walk (increments __SCOPE_search_id) does not compare a node's stamp with the counter before the increment: a stamp is meaningful only inside the walk that wrote it, so a cycle check is never skipped on the evidence of an earlier walk or look-up.")

STAGES = ["EXPRESSparse", "EXPRESSresolve"]
DUMP_CODES = {"BAIL_OUT", "CORRUPTED_TYPE"}
# error classes named in the property statement -> codes (DESIGN §4/C04 R5)
CLASS_CODES = {
    "syntax error": ["SYNTAX"],
    "undefined type": ["UNDEFINED_TYPE"],
    "undefined reference": ["UNDEFINED"],
    "undefined attribute": ["UNDEFINED_ATTR"],
    "undefined schema": ["UNDEFINED_SCHEMA"],
    "undefined function": ["UNDEFINED_FUNC"],
    "unknown supertype": ["UNKNOWN_SUPERTYPE"],
    "unknown subtype": ["UNKNOWN_SUBTYPE"],
    "use/ref of non-existent object": ["REF_NONEXISTENT"],
    "duplicate declaration": ["DUPLICATE_DECL", "DUPLICATE_DECL_DIFF_FILE"],
    "subtype cycle": ["SUBSUPER_LOOP"],
    "select cycle": ["SELECT_LOOP"],
    "subtype not listing its supertype": ["MISSING_SUPERTYPE"],
    "inherited attribute re-declared": ["OVERLOADED_ATTR"],
    "bad INVERSE": ["INVERSE_BAD_ATTR", "INVERSE_BAD_ENTITY"],
}
# codes for which today's tree has no reachable call site (confirmed by reading): reason
R5_NO_SITE_OK = {}


def is_flag(n):
    n = strip(n)
    return n is not None and n["k"] == "Ref" and n["n"] == "ERRORoccurred"


def cond_is_flag(c):
    """condition is exactly the flag (or flag != 0 / flag == true)."""
    c = strip(c)
    if c is None:
        return False
    if is_flag(c):
        return True
    if c["k"] == "Binary" and c["op"] in ("!=", "=="):
        l, r = strip(c["ch"][0]), strip(c["ch"][1])
        if is_flag(l) and "val" in r:
            return (c["op"] == "!=" and r["val"] == 0) or (c["op"] == "==" and r["val"] == 1)
    return False


def is_stage(n, names):
    if n["k"] != "Call":
        return None
    if n.get("fn") in names:
        return n["fn"]
    # indirect call through the EXPRESSbackend pointer
    if not n.get("fn") and n.get("callee"):
        for x in walk(n["callee"][0]):
            if x["k"] == "Ref" and x["n"] == "EXPRESSbackend":
                return "EXPRESSbackend"
    return None


def gates_in(fn, res, who, extra_stages=()):
    cfg = fn.cfg
    stage_names = set(STAGES) | set(extra_stages)
    # gate blocks
    gates = {}
    for b, blk in cfg.blocks.items():
        tc = blk.get("tc")
        if tc is None or tc < 0:
            continue
        cond = fn.nodes.get(tc)
        if cond is not None and cond_is_flag(cond) and len(blk["s"]) == 2:
            gates[b] = blk
    stages = []
    for n in fn.walk():
        s = is_stage(n, stage_names)
        if s:
            stages.append((s, n))
    found = {s for s, _ in stages}
    for need in ["EXPRESSparse", "EXPRESSresolve"]:
        if need not in found:
            res.broke("%s: stage call %s not found" % (who, need))
    # (a) shape of each gate: true edge reaches only failure
    gi = 0
    for b, blk in sorted(gates.items(), reverse=True):
        t = blk["s"][0]
        region = cfg.reachable_blocks(t) if t >= 0 else set()
        bad = []
        fails = False
        for rb in region:
            for e in cfg.blocks[rb]["e"]:
                n = fn.nodes[e]
                if n["k"] == "Call":
                    if n.get("fn") == "EXPRESS_succeed" or is_stage(n, stage_names):
                        bad.append(expr_str(n))
                    if n.get("fn") == "EXPRESS_fail":
                        fails = True
                    if n.get("fn") == "exit":
                        a = strip(n["ch"][0])
                        v = peval(a, {})
                        if v is not None and v != 0:
                            fails = True
                        elif v == 0:
                            bad.append("exit(0)")
                if n["k"] == "Return" and n.get("ch") and n["ch"][0] is not None:
                    v = strip(n["ch"][0])
                    if v.get("val") == 0 and v["k"] in ("Int",):
                        bad.append("return 0")
        # a gate whose true arm only calls ERRORunsafe()/logs is not a verdict gate
        key = "R1|%s|%s|gate#%d" % (fn.relfile(), fn.name, gi)
        gi += 1
        ok = fails and not bad
        res.add("R1.gate_shape", key, "%s:%s" % (fn.relfile(), fn.nodes[blk["tc"]]["l"]), ok,
                "true edge reaches only failure exits (EXPRESS_fail / exit(non-zero))" if ok else
                ("true edge of the gate reaches %s" % ", ".join(bad) if bad else
                 "true edge of the gate does not fail (no EXPRESS_fail / exit(non-zero) on it)"))
        if not ok:
            del gates[b]
    # (b) every path from a stage call reaches a (well-shaped) gate before leaving
    for sname, call in stages:
        pos = cfg.locate(call)
        if pos is None:
            res.broke("%s: stage call %s not in CFG" % (who, sname))
            continue
        offending = None
        seen = set()
        from collections import deque
        dq = deque([(pos[0], pos[1] + 1)])
        while dq and offending is None:
            b, i = dq.popleft()
            blk = cfg.blocks[b]
            for j in range(i, len(blk["e"])):
                n = fn.nodes[blk["e"][j]]
                if n["k"] == "Return":
                    offending = "return at line %s" % n["l"]
                    break
                if n["k"] == "Call" and (n.get("fn") in ("EXPRESS_succeed", "exit") or
                                         (is_stage(n, stage_names) and n is not call)):
                    offending = "%s at line %s" % (expr_str(n)[:40], n["l"])
                    break
            if offending:
                break
            if b in gates:
                continue
            if b == cfg.exit:
                offending = "function exit"
                break
            for s in cfg.succ[b]:
                if s not in seen:
                    seen.add(s)
                    dq.append((s, 0))
        key = "R1|%s|%s|after-%s" % (fn.relfile(), fn.name, sname)
        res.add("R1.gate_after_stage", key, fn.where(call), offending is None,
                "every path from %s reaches an `if(ERRORoccurred)` gate first" % sname if offending is None else
                "a path from %s reaches %s without passing an `if(ERRORoccurred)` gate" % (sname, offending))
    return stages, gates


def r1(prog, res):
    main = prog.one("main", "express/fedex.c")
    if main is None:
        res.broke("anchor vanished: main in src/express/fedex.c")
        return
    stages, gates = gates_in(main, res, "fedex.c main", extra_stages=("EXPRESSbackend",))
    if "EXPRESSbackend" not in {s for s, _ in stages}:
        res.broke("fedex.c main: call through EXPRESSbackend not found")
    # the success marker is dominated by the parse stage and by the backend-gate
    cfg = main.cfg
    succ = list(main.calls("EXPRESS_succeed"))
    if not succ:
        res.broke("fedex.c main: EXPRESS_succeed call not found")
    for s in succ:
        for sname, call in stages:
            if sname == "EXPRESSparse":
                ok = cfg.dominates(cfg.locate(call), cfg.locate(s))
                res.add("R1.success_after_stages", "R1|src/express/fedex.c|main|succeed-dominated-by-%s" % sname,
                        main.where(s), ok, "EXPRESS_succeed is dominated by %s" % sname if ok else
                        "EXPRESS_succeed reachable without %s" % sname)
    res.floor("R1.gate_after_stage", "stage calls in fedex.c main", len(stages), 3)
    sc = prog.one("main", "schema_scanner/schemaScanner.cc")
    if sc is None:
        res.broke("anchor vanished: main in cmake/schema_scanner/schemaScanner.cc")
    else:
        st, g2 = gates_in(sc, res, "schemaScanner.cc main")
        res.floor("R1.gate_after_stage", "stage calls in schemaScanner.cc main", len(st), 2)


def r2(prog, res):
    sev = [items for items in prog.enums.values() if "SEVERITY_ERROR" in items]
    if not sev:
        res.broke("anchor vanished: enum Severity")
        return
    E = sev[0]["SEVERITY_ERROR"]
    writes = 0
    for fn in prog.all_functions():
        if fn.component == "test":
            continue
        for n in fn.walk():
            target = None
            if n["k"] in ("Assign", "CompoundAssign"):
                target = strip(n["ch"][0])
            elif n["k"] == "Unary" and ("++" in n["op"] or "--" in n["op"]):
                target = strip(n["ch"][0])
            elif n["k"] == "Unary" and n["op"] == "&":
                # address taken: the flag could be written through the pointer
                target = strip(n["ch"][0])
                if is_flag(target):
                    res.add("R2.flag_writers", "R2|%s|%s|&ERRORoccurred" % (fn.relfile(), fn.name), fn.where(n), False,
                            "address of ERRORoccurred taken in %s" % fn.name)
                continue
            if target is None or not is_flag(target):
                continue
            writes += 1
            idx = len([o for o in res.obs if o.rule == "R2.flag_writers" and ("|%s|" % fn.name) in o.key])
            key = "R2|%s|%s|ERRORoccurred=#%d" % (fn.relfile(), fn.name, idx)
            in_mod = fn.file.endswith("express/error.c")
            val = strip(n["ch"][1]).get("val") if n["k"] == "Assign" else None
            guard = False
            for cn, pol in known_facts(fn, n):
                cn = strip(cn)
                if cn["k"] == "Binary" and cn["op"] in (">=", ">") and pol:
                    l, r = strip(cn["ch"][0]), strip(cn["ch"][1])
                    if l["k"] == "Member" and l["n"] == "severity" and "val" in r:
                        lim = r["val"] if cn["op"] == ">=" else r["val"] + 1
                        if lim == E:
                            guard = True
            ok = in_mod and val == 1 and guard
            why = []
            if not in_mod:
                why.append("written outside src/express/error.c")
            if val != 1:
                why.append("not the constant true")
            if not guard:
                why.append("not under `severity >= SEVERITY_ERROR` exactly")
            res.add("R2.flag_writers", key, fn.where(n), ok,
                    "set to true under severity >= SEVERITY_ERROR in the error module" if ok else "; ".join(why))
    res.floor("R2.flag_writers", "writes of ERRORoccurred", writes, 3)
    # every severity>=ERROR arm in the reporters sets the flag and prints ERROR; else arm WARNING
    arms = 0
    for fn in prog.all_functions():
        if not fn.file.endswith("express/error.c"):
            continue
        for n in fn.walk():
            if n["k"] != "If":
                continue
            c = strip(n["ch"][0])
            if not (c["k"] == "Binary" and c["op"] in (">=", ">")):
                continue
            l, r = strip(c["ch"][0]), strip(c["ch"][1])
            if not (l["k"] == "Member" and l["n"] == "severity" and "val" in r):
                continue
            lim = r["val"] if c["op"] == ">=" else r["val"] + 1
            if lim != E:
                continue
            arms += 1
            then, els = n["ch"][1], n["ch"][2] if len(n["ch"]) > 2 else None
            sets = any(x["k"] == "Assign" and is_flag(x["ch"][0]) for x in walk(then))
            t_lits = [x.get("s", "") for x in walk(then) if x["k"] == "Str"]
            e_lits = [x.get("s", "") for x in walk(els) if x["k"] == "Str"] if els else []
            e_sets = any(x["k"] == "Assign" and is_flag(x["ch"][0]) for x in walk(els)) if els else False
            ok = sets and any("ERROR" in s for s in t_lits) and not e_sets and \
                (els is None or (any("WARNING" in s for s in e_lits) and not any("ERROR" in s for s in e_lits)))
            res.add("R2.error_arm", "R2|src/express/error.c|%s|severity>=ERROR-arm#%d" % (fn.name, arms), fn.where(n), ok,
                    "ERROR arm sets the flag and prints ERROR; else arm prints WARNING only" if ok else
                    "arm shape broken: sets_flag=%s then_texts=%s else_sets=%s else_texts=%s" % (sets, t_lits[:2], e_sets, e_lits[:2]))
    res.floor("R2.error_arm", "severity>=ERROR arms in reporters", arms, 3)
    # a report is suppressed only by SUBORDINATE_FAILED / ERRORis_enabled; ERRORis_enabled can only be
    # false for warnings (override writers guarded: C20 R5).  Check the outer guard of each flag write.
    return E


def r3(prog, res, tab):
    f = prog.one("EXPRESS_fail", "express/express.c")
    s = prog.one("EXPRESS_succeed", "express/express.c")
    if not f or not s:
        res.broke("anchor vanished: EXPRESS_fail / EXPRESS_succeed")
        return
    for fn, want_zero in ((f, False), (s, True)):
        rets = [n for n in fn.walk() if n["k"] == "Return" and n.get("ch") and n["ch"][0]]
        consts = []
        hook = 0
        for r in rets:
            v = strip(r["ch"][0])
            if "val" in v:
                consts.append(v["val"])
            else:
                hook += 1
        ok = len(consts) == 1 and ((consts[0] == 0) == want_zero) and (want_zero or 0 < consts[0] < 126)
        res.add("R3.exit_constants", "R3|src/express/express.c|%s|default-return" % fn.name, fn.where(), ok,
                "%s returns %s without a hook" % (fn.name, consts) if ok else
                "%s default return constants %s (expected %s)" % (fn.name, consts, "0" if want_zero else "small non-zero"))
    # hooks assigned to EXPRESSsucceed / EXPRESSfail return constants
    nh = 0
    for fn in prog.all_functions():
        if fn.component == "test":
            continue
        for n in fn.walk():
            if n["k"] == "Assign":
                lhs = strip(n["ch"][0])
                if lhs["k"] == "Ref" and lhs["n"] in ("EXPRESSsucceed", "EXPRESSfail"):
                    rhs = strip(n["ch"][1])
                    if rhs["k"] == "Unary" and rhs["op"] == "&":
                        rhs = strip(rhs["ch"][0])
                    if rhs["k"] != "Ref" or rhs.get("dk") != "func":
                        if rhs.get("val") == 0 or rhs["k"] == "Null0":
                            continue
                        res.add("R3.hooks", "R3|%s|%s|%s=" % (fn.relfile(), fn.name, lhs["n"]), fn.where(n), False,
                                "%s assigned from a non-function expression %s" % (lhs["n"], expr_str(rhs)))
                        continue
                    nh += 1
                    targets = [t for t in prog.by_name.get(rhs["n"], []) if t.component == fn.component or len(prog.by_name[rhs["n"]]) == 1]
                    okall = bool(targets)
                    vals = []
                    for t in targets:
                        for r in t.walk():
                            if r["k"] == "Return" and r.get("ch") and r["ch"][0]:
                                v = strip(r["ch"][0]).get("val")
                                vals.append(v)
                                if lhs["n"] == "EXPRESSsucceed" and v != 0:
                                    okall = False
                                if lhs["n"] == "EXPRESSfail" and (v is None or v == 0):
                                    okall = False
                    res.add("R3.hooks", "R3|%s|%s|%s=%s" % (fn.relfile(), fn.name, lhs["n"], rhs["n"]), fn.where(n), okall,
                            "hook %s returns %s" % (rhs["n"], vals))
    res.floor("R3.hooks", "success/fail hooks", nh, 2)
    # EXIT / DUMP handling in the reporters
    sev = [items for items in prog.enums.values() if "SEVERITY_EXIT" in items][0]
    X, D = sev["SEVERITY_EXIT"], sev["SEVERITY_DUMP"]
    n_exit = 0
    for fn in prog.all_functions():
        if not fn.file.endswith("express/error.c"):
            continue
        for n in fn.walk():
            if n["k"] == "Call" and n.get("fn") in ("exit", "abort", "_exit"):
                facts = known_facts(fn, n)
                lim_ge = None
                not_dump = False
                for cn, pol in facts:
                    for x in walk(cn):
                        x = strip(x)
                        if x["k"] == "Binary" and x["op"] == ">=":
                            l, r = strip(x["ch"][0]), strip(x["ch"][1])
                            if l["k"] == "Member" and l["n"] == "severity" and "val" in r:
                                if pol and (cn is x or strip(cn) is x):
                                    lim_ge = max(lim_ge or 0, r["val"])
                                if (not pol) and r["val"] == D and strip(cn) is x:
                                    not_dump = True
                if n["fn"] == "abort":
                    if fn.name == "ERRORabort":
                        continue
                    n_exit += 1
                    ok = lim_ge is not None and lim_ge >= D
                    res.add("R3.exit_paths", "R3|src/express/error.c|%s|abort#%d" % (fn.name, n_exit), fn.where(n), ok,
                            "abort() only for severity >= SEVERITY_DUMP" if ok else "abort() not guarded by severity >= SEVERITY_DUMP")
                else:
                    if fn.name == "ERRORabort":
                        continue
                    n_exit += 1
                    a = strip(n["ch"][0])
                    via_fail = a["k"] == "Call" and a.get("fn") == "EXPRESS_fail"
                    v = peval(a, {})
                    ok = via_fail or (v is not None and v != 0)
                    res.add("R3.exit_paths", "R3|src/express/error.c|%s|exit#%d" % (fn.name, n_exit), fn.where(n), ok,
                            "exit status is EXPRESS_fail(..)/non-zero" if ok else "exit status %s may be zero" % expr_str(a))
    res.floor("R3.exit_paths", "exit/abort sites in error.c", n_exit, 6)
    # DUMP codes frozen
    for idx, ent in tab.items():
        if ent["severity"] is not None and ent["severity"] >= D and ent["message"]:
            ok = ent["code"] in DUMP_CODES
            res.add("R3.dump_codes", "R3|table|%s|DUMP" % ent["code"], "src/express/error.c:%s" % ent["line"], ok,
                    "internal-error code" if ok else "code %s now aborts the process (SEVERITY_DUMP)" % ent["code"])


def r4(prog, res):
    mains = [f for f in prog.by_name.get("main", []) if f.component in ("express", "exppp", "exp2cxx", "exp2python")]
    ok = len(mains) == 1 and mains[0].file.endswith("express/fedex.c")
    res.add("R4.one_main", "R4|tools|main", mains[0].where() if mains else "-", ok,
            "the tools' only main is src/express/fedex.c" if ok else
            "main defined in: %s" % ", ".join(m.relfile() for m in mains))
    inits = prog.by_name.get("EXPRESSinit_init", [])
    comps = {}
    for f in inits:
        comps.setdefault(f.component, []).append(f)
    for comp in ("express", "exppp", "exp2cxx", "exp2python"):
        fs = comps.get(comp, [])
        ok = len(fs) == 1
        sets_backend = False
        for f in fs:
            for n in f.walk():
                if n["k"] == "Assign" and strip(n["ch"][0]).get("n") == "EXPRESSbackend":
                    sets_backend = True
        if comp == "express":
            res.add("R4.init_hook", "R4|express|EXPRESSinit_init", fs[0].where() if fs else "-", ok,
                    "check-express defines the empty hook once" if ok else "%d definitions" % len(fs))
        else:
            res.add("R4.init_hook", "R4|%s|EXPRESSinit_init" % comp, fs[0].where() if fs else "-", ok and sets_backend,
                    "defines EXPRESSinit_init once and installs EXPRESSbackend" if ok and sets_backend else
                    "%d definitions, installs backend: %s" % (len(fs), sets_backend))
    # fedex.c main calls the init hook before option parsing
    main = prog.one("main", "express/fedex.c")
    if main:
        c = list(main.calls("EXPRESSinit_init"))
        p = list(main.calls("EXPRESSparse"))
        ok = bool(c) and bool(p) and main.cfg.dominates(main.cfg.locate(c[0]), main.cfg.locate(p[0]))
        res.add("R4.init_hook", "R4|src/express/fedex.c|main|calls-init", main.where(c[0]) if c else main.where(), ok,
                "main calls EXPRESSinit_init before parsing")
    # who may call exit in the back ends: never with status 0
    n = 0
    for fn in prog.all_functions():
        if fn.component not in ("exppp", "exp2cxx", "exp2python"):
            continue
        for call in fn.calls():
            if call.get("fn") in ("exit", "_exit", "quick_exit"):
                n += 1
                a = strip(call["ch"][0])
                v = peval(a, {})
                via_fail = a["k"] == "Call" and a.get("fn") == "EXPRESS_fail"
                ok = via_fail or (v is not None and v != 0)
                idx = len([o for o in res.obs if o.rule == "R4.backend_exit" and "|%s|" % fn.name in o.key])
                res.add("R4.backend_exit", "R4|%s|%s|exit#%d" % (fn.relfile(), fn.name, idx), fn.where(call), ok,
                        "exit(%s) is a failure status" % expr_str(a) if ok else
                        "back end leaves the process with exit(%s): bypasses the ERRORoccurred gate with a success/unknown status" % expr_str(a))
    res.floor("R4.backend_exit", "exit() sites in back ends", n, 3)


def r5(prog, res, tab, E):
    bycode = {e["code"]: e for e in tab.values()}
    # call sites per code, restricted to functions reachable from EXPRESSparse / EXPRESSresolve / main
    roots = [f.key for name in ("EXPRESSparse", "EXPRESSresolve", "main") for f in prog.by_name.get(name, [])
             if f.component in ("express",)]
    reach = prog.reachable_from(roots)
    # the generated parser calls its actions through yy_reduce etc. (direct calls) - fine.
    sites = {}
    for fn in prog.all_functions():
        if fn.component == "test":
            continue
        for call in fn.calls():
            if call.get("fn") in c20.REPORTERS and call.get("ch"):
                code = strip(call["ch"][0])
                if "val" in code and code["val"] in tab:
                    sites.setdefault(tab[code["val"]]["code"], []).append((fn, call))
    for cls, codes in CLASS_CODES.items():
        for code in codes:
            ent = bycode.get(code)
            key = "R5|class|%s|%s" % (cls, code)
            if ent is None:
                res.add("R5.class_severity", key, "src/express/error.c", False, "code %s vanished from LibErrors" % code)
                continue
            sev_ok = ent["severity"] is not None and ent["severity"] >= E
            res.add("R5.class_severity", key, "src/express/error.c:%s" % ent["line"], sev_ok,
                    "%s (%s) has severity >= ERROR" % (code, cls) if sev_ok else
                    "%s (%s) is no longer an error: severity %s" % (code, cls, ent["severity"]))
            ss = sites.get(code, [])
            rs = [(f, c) for f, c in ss if f.key in reach]
            ok = bool(rs) or code in R5_NO_SITE_OK
            res.add("R5.class_reported", "R5|site|%s" % code, rs[0][0].where(rs[0][1]) if rs else "src/express/error.c:%s" % ent["line"], ok,
                    "%d reachable report site(s)" % len(rs) if rs else
                    "no report site for %s reachable from EXPRESSparse/EXPRESSresolve" % code, {"sites": len(ss), "reachable": len(rs)})
    res.info["r5_sites_per_code"] = {k: len(v) for k, v in sorted(sites.items())}


def is_failure_action(x):
    """a diagnostic, or a mark that resolution failed (resolve_failed() expands to an OR into .resolved)"""
    if x["k"] == "Call" and x.get("fn") in c20.REPORTERS:
        return True
    if x["k"] in ("Assign", "CompoundAssign"):
        lhs = strip(x["ch"][0])
        if lhs["k"] == "Member" and lhs["n"] == "resolved":
            return True
    return False


def r7(prog, res):
    """E7(c): flags deciding a diagnostic inside a resolver loop are reset per iteration."""
    from engines import iteration_flags
    counters = {}
    n = 0
    nf = 0
    for fn in prog.all_functions():
        if fn.component != "express" or "/generated/" in fn.file:
            continue
        nf += 1
        n += iteration_flags(fn, is_failure_action, "R7.per_iteration_flag", res, counters)
    res.floor("R7.per_iteration_flag", "flag-guarded report sites inside loops", n, 1)
    res.info["r7_functions_scanned"] = nf


NESTED_RESOLVERS = {"STMTresolve", "STMTlist_resolve", "CASE_ITresolve"}


def r8(prog, res):
    """Every nested statement is resolved unless an error was already reported for what guards it: in the statement
    resolver a call that resolves a nested statement (list) is unconditional, or sits under `!is_resolve_failed(E)` for an E
    resolved just before, or under `<count of labels that resolved> || <the label list is empty>`."""
    import re
    from engines import enclosing_conditions
    n = 0
    for name in ("STMTresolve", "CASE_ITresolve", "STMTlist_resolve"):
        f = prog.one(name, "express/resolve.c")
        if f is None:
            res.broke("anchor vanished: %s in resolve.c" % name)
            continue
        for c in f.calls():
            if (c.get("fn") or "") not in NESTED_RESOLVERS:
                continue
            conds = []
            for cn, br in enclosing_conditions(f, c):
                # loop heads and the list macros' own guards are not skips
                if all((x.get("m") or "").startswith("LISTdo") or (x.get("mo") or "").startswith("LISTdo") for x in walk(cn)):
                    continue
                par = [a for a in f.ancestors(c) if a["k"] in ("While", "For") and a["ch"][0 if a["k"] == "While" else 1] is cn]
                if par:
                    continue
                conds.append((cn, br))
            n += 1
            arg = expr_str(c["ch"][0])[:40]
            key = "R8|src/express/resolve.c|%s|%s(%s)" % (name, c["fn"], arg)
            if not conds:
                res.add("R8.nested_statements_resolved", key, f.where(c), True, "%s(%s) is resolved unconditionally" % (c["fn"], arg))
                continue
            ok = True
            why = []
            for cn, br in conds:
                t = re.sub(r"\s+", "", expr_str(cn))
                good = False
                m = re.fullmatch(r"!?\(?!(.+?)->symbol(?:\.resolved)?.*", t)
                if br == "T" and (t.startswith("!is_resolve_failed(") or "resolved&" in t or re.match(r"!\(?.*->symbol", t)):
                    # E must have been handed to EXPresolve before, in the same arm
                    # EXPresolve(e, ..) expands to `if (!is_resolved(e)) EXP_resolve(e, ..)`: the expansion's test dominates what follows
                    exprs = [x for x in f.calls() if (x.get("fn") or "") in ("EXPresolve", "EXP_resolve") and
                             (x.get("m") == "EXPresolve" or x.get("mo") == "EXPresolve" or (x.get("fn") or "") == "EXPresolve")]
                    exprs = [x for x in exprs if any(a["k"] == "If" and f.cfg.dominates(f.first_pos(a["ch"][0]), f.cfg.locate(c))
                                                     for a in f.ancestors(x)) or f.cfg.dominates(f.cfg.locate(x), f.cfg.locate(c))]
                    tgt = re.sub(r"\s+", "", expr_str(exprs[-1]["ch"][0])) if exprs else None
                    good = any(re.sub(r"\s+", "", expr_str(x["ch"][0])) in t for x in exprs)
                    why.append("skipped only when resolving %s failed (reported there)" % (tgt or "?"))
                if br == "T" and t == re.sub(r"\s+", "", expr_str(c["ch"][0])):
                    good = True
                    why.append("skipped only when there is no such nested statement (the field is null)")
                mm = re.fullmatch(r"(\w+)\|\|!(.+)", t)
                if br == "T" and mm:
                    cnt, lst = mm.group(1), mm.group(2)
                    incs = [x for x in f.walk() if x["k"] == "Unary" and x.get("op") in ("post++", "pre++") and strip(x["ch"][0]).get("n") == cnt]
                    okc = False
                    for i in incs:
                        g = [expr_str(a) for a, b in enclosing_conditions(f, i) if b == "T"]
                        loops = [a for a in f.ancestors(i) if a["k"] in ("For", "While")]
                        okc = any("Type_Bad" in x and "!=" in x for x in g) and bool(loops)
                    lists = [x for x in f.walk() if x["k"] == "Var" and x["n"].startswith("_") and x.get("ch") and
                             re.sub(r"\s+", "", expr_str(x["ch"][0])) == lst]
                    good = okc and bool(lists)
                    why.append("skipped only when the item has labels and none of them resolved (each failure was reported); an item without labels is resolved")
                if not good:
                    ok = False
                    why = ["guard `%s` lets the nested statement go unresolved without any error having been reported (e.g. an OTHERWISE item has no labels)" % expr_str(cn)]
                    break
            res.add("R8.nested_statements_resolved", key, f.where(c), ok, "; ".join(why))
    res.floor("R8", "nested-statement resolutions in the statement resolver", n, 8)


def r9(prog, res):
    """A pending USE/REFERENCE item (uselist / reflist) is matched under the same name under which it is later entered into the
    usedict / refdict: the key expression of SCHEMAdefine_use/_reference and the name compared by the scans over the pending
    lists must be the same function of the Rename."""
    import re

    def norm(e, var):
        t = re.sub(r"\s+", "", expr_str(e))
        return re.sub(r"(?<![\w>.])%s(?=->|\.)" % re.escape(var), "R", t)
    keys = {}
    for name in ("SCHEMAdefine_use", "SCHEMAdefine_reference"):
        f = prog.one(name)
        if f is None:
            res.broke("anchor vanished: %s" % name)
            return
        rp = [p for p in f.params if "Rename" in f.tyname(p["t"])]
        defs = [c for c in f.calls("DICTdefine")] + [c for c in f.calls("DICT_define")]
        if not rp or not defs:
            res.broke("%s: Rename parameter / DICTdefine call not found" % name)
            return
        k = strip(defs[0]["ch"][1])
        if k is not None and k["k"] == "Ref":
            for x in f.walk():
                if x["k"] == "Var" and x.get("d") == k.get("d") and x.get("ch"):
                    k = strip(x["ch"][0])
        keys[name] = norm(k, rp[0]["n"])
    ok = len(set(keys.values())) == 1
    res.add("R9.rename_key_agreement", "R9|src/express/schema.c|SCHEMAdefine_use/reference|same-key", "src/express/schema.c:115", ok,
            "USE and REFERENCE items are entered under the same key expression: %s" % list(keys.values())[0] if ok else
            "SCHEMAdefine_use and SCHEMAdefine_reference key their dictionaries differently: %s" % keys)
    key = list(keys.values())[0]
    n = 0
    for f in prog.all_functions():
        if f.component != "express":
            continue
        for c in f.calls():
            if (c.get("fn") or "").split("::")[-1] not in ("strcmp", "__builtin_strcmp"):
                continue
            for a in c["ch"]:
                a0 = strip(a)
                # <...Rename...>->name
                refs = [x for x in walk(a0) if x["k"] == "Ref" and "Rename" in f.ty(x)] if a0 is not None else []
                if not refs or a0["k"] != "Member" or a0["n"] != "name":
                    continue
                # only scans over the pending lists
                var = refs[0]
                n += 1
                got = norm(a0, var["n"])
                okc = got == key
                res.add("R9.rename_key_agreement", "R9|%s|%s|scan" % (f.relfile(), f.name), f.where(c), okc,
                        "the pending item is matched under %s, the key it is later stored under" % got if okc else
                        "%s matches a pending USE/REFERENCE item by %s, but the item is stored (and otherwise found) under %s: an item renamed "
                        "with AS is found or missed depending on whether it was resolved before" % (f.name, got, key))
    res.floor("R9", "name comparisons on pending USE/REFERENCE items", n, 1)


def r10_request_respected(prog, res):
    """A look-up that was not asked to search subtypes must not search them.  `mode` parameters: a pointer parameter of a search
    function that the function tests for NULL to guard further (recursive) search calls.  For every function W that has an
    optional pointer parameter p and calls such a search function: with p == NULL (three-valued walk of W's CFG) every
    reachable call passes NULL for the mode parameter.  Otherwise an unqualified reference resolves to an attribute that only
    a subtype declares, and an undefined reference is accepted."""
    from nullness import calls_under_null
    from engines import call_args as _args, is_null_const
    # mode parameters: if( p ) { ... recursive call ... }
    modes = {}
    for g in prog.all_functions():
        if g.component != "express" or not g.params:
            continue
        for i, p_ in enumerate(g.params):
            if "*" not in (g.tyname(p_["t"]) if isinstance(p_.get("t"), int) else ""):
                continue
            for x in g.walk():
                if x["k"] == "If" and strip(x["ch"][0]) is not None and strip(x["ch"][0])["k"] == "Ref" and strip(x["ch"][0]).get("d") == p_["d"]:
                    if any(y["k"] == "Call" and y.get("fk") == g.key for y in walk(x["ch"][1])):
                        modes[(g.key, i)] = (g.name, p_["n"], g.where(x))
    res.info["r10_mode_parameters"] = {"%s(%s)" % (v[0], v[1]): v[2] for v in modes.values()}
    res.floor("R10.request_respected", "search functions with a NULL-switched search mode", len(modes), 1)
    n = 0
    for w in prog.all_functions():
        if w.component != "express" or not w.params or w.cfg is None:
            continue
        sites = [c for c in w.calls() if any(k[0] == c.get("fk") for k in modes) and c.get("fk") != w.key]
        if not sites:
            continue
        for pi, p_ in enumerate(w.params):
            if "*" not in (w.tyname(p_["t"]) if isinstance(p_.get("t"), int) else ""):
                continue
            # is p an optional request?  some caller passes a null constant for it
            optional = any(len(_args(c)) > pi and is_null_const(_args(c)[pi]) for g in prog.all_functions() for c in g.calls() if c.get("fk") == w.key)
            if not optional:
                continue
            reach = calls_under_null(w, p_["d"])
            n += 1
            bad = None
            for c in reach:
                for (gk, mi), (gname, pname, _) in modes.items():
                    if c.get("fk") == gk:
                        a = _args(c)
                        if mi < len(a) and not is_null_const(a[mi]) and not (strip(a[mi]) is not None and strip(a[mi]).get("d") == p_["d"]):
                            bad = (c, gname, pname, expr_str(a[mi]))
            res.add("R10.request_respected", "R10|%s|%s|%s" % (w.relfile(), w.name, p_["n"]), w.where(bad[0]) if bad else w.where(), bad is None,
                    "when `%s` is NULL every search call made by %s passes NULL for the search-mode parameter" % (p_["n"], w.name) if bad is None else
                    "when the caller passes NULL for `%s` (it did not ask for the extended search), %s still calls %s with `%s` = %s: the look-up "
                    "also searches subtypes, so a name that only a subtype declares resolves instead of being reported as undefined"
                    % (p_["n"], w.name, bad[1], bad[2], bad[3]))
    res.floor("R10.request_respected", "wrappers with an optional request parameter", n, 1)


def r12_silent_attempt_retried(prog, res):
    """EXPresolve( x, scope, Type_Unknown ) is the resolver's *silent* mode: an identifier that cannot be found is not reported
    (resolve.c: `if( typecheck == Type_Unknown ) return;`).  An operand that was tried silently and is still unresolved must be tried
    again with a hint that cannot be Type_Unknown - i.e. one that does not come from the operand itself, whose own return_type is
    Type_Unknown exactly when it is unresolved - otherwise an undefined name on that side of the operator is accepted."""
    from engines import call_args as _args
    n = 0
    for f in prog.all_functions():
        if f.component != "express" or f.cfg is None:
            continue
        calls = [c for c in f.calls() if (c.get("fn") or "") in ("EXPresolve", "EXP_resolve") and len(_args(c)) >= 3]
        silent = [c for c in calls if strip(_args(c)[2]) is not None and
                  any(y["k"] == "Ref" and y.get("n") == "Type_Unknown" for y in walk(_args(c)[2]))]
        for c in silent:
            x = access_path(_args(c)[0]) or expr_str(_args(c)[0])
            n += 1
            later = [d for d in calls if d is not c and (access_path(_args(d)[0]) or expr_str(_args(d)[0])) == x and
                     f.cfg.reaches(f.cfg.locate(c), f.cfg.locate(d))]
            loud = []
            for d in later:
                hint = _args(d)[2]
                from_self = any((access_path(y) or "").startswith(x + ".") or (access_path(y) or "") == x for y in walk(hint) if y["k"] in ("Member", "Ref"))
                unknown = any(y["k"] == "Ref" and y.get("n") == "Type_Unknown" for y in walk(hint))
                if not from_self and not unknown:
                    loud.append(d)
            ok = bool(loud)
            res.add("R12.silent_attempt_retried", "R12|%s|%s|%s" % (f.relfile(), f.name, expr_str(_args(c)[0])), f.where(later[0] if later else c), ok,
                    "`%s` is resolved silently first and tried again with a hint taken from the other operand" % expr_str(_args(c)[0]) if ok else
                    "`%s` is resolved in silent mode (Type_Unknown) and %s: an undefined identifier in that position is never reported and "
                    "the expression is marked resolved" % (expr_str(_args(c)[0]),
                                                           "the only retry passes `%s`, which is Type_Unknown whenever the operand is still unresolved"
                                                           % expr_str(_args(later[0])[2]) if later else "never tried again"))
    res.floor("R12.silent_attempt_retried", "silent resolve attempts", n, 1)


def r11_probe_and_define_same_table(prog, res):
    """`look the name up; define it unless an equal entry is already there` only detects a second, conflicting definition (and only
    tolerates a repeated identical one) when the probe reads the table the definition goes into, under the same key.  For every
    DICTdefine / DICT_define that is guarded by a test of a variable assigned from a DICTlookup in the same function: table and key
    expressions of the two calls are the same."""
    from engines import call_args as _args, enclosing_conditions
    n = 0
    for f in prog.all_functions():
        if f.component != "express":
            continue
        defs = [c for c in f.calls() if (c.get("fn") or "") in ("DICTdefine", "DICT_define")]
        looks = [c for c in f.calls() if (c.get("fn") or "") == "DICTlookup"]
        if not defs or not looks:
            continue
        # variable <- DICTlookup(table, key)
        src = {}
        for x in f.walk():
            if x["k"] == "Assign" and x.get("op", "=") == "=" and strip(x["ch"][0]) is not None and strip(x["ch"][0])["k"] == "Ref":
                for c in looks:
                    if any(y is c for y in walk(x["ch"][1])):
                        src.setdefault(strip(x["ch"][0])["d"], []).append(c)
            if x["k"] == "Var" and x.get("ch") and x["ch"][0] is not None:
                for c in looks:
                    if any(y is c for y in walk(x["ch"][0])):
                        src.setdefault(x["d"], []).append(c)
        for d_ in defs:
            tested = set()
            for cond, _br in enclosing_conditions(f, d_):
                for y in walk(cond):
                    if y["k"] == "Ref" and y.get("d") in src:
                        tested.add(y["d"])
            for v in sorted(tested):
                for lk in src[v]:
                    a, b = _args(d_), _args(lk)
                    if len(a) < 2 or len(b) < 2:
                        continue
                    n += 1
                    same_t = expr_str(a[0]) == expr_str(b[0])
                    same_k = expr_str(a[1]) == expr_str(b[1])
                    res.add("R11.probe_and_define_same_table", "R11|%s|%s|%s" % (f.relfile(), f.name, expr_str(a[0])[:60]), f.where(lk),
                            same_t and same_k,
                            "the entry is looked up in the table it is then defined in, under the same key" if same_t and same_k else
                            "%s decides whether to define `%s` in `%s` from a look-up of `%s` in `%s`: a second, different declaration of the name "
                            "in the first table is not seen (the conflict goes unreported, or a repeated identical import is reported as a "
                            "redeclaration)" % (f.name, expr_str(a[1])[:40], expr_str(a[0])[:60], expr_str(b[1])[:40], expr_str(b[0])[:60]))
    res.floor("R11.probe_and_define_same_table", "probe-then-define sites", n, 3)


def r13_fresh_walk_ignores_old_stamps(prog, res):
    """The cycle checks (select loops, sub/supertype loops) and the scope searches mark visited nodes with the value of one global
    counter, and each *starts* by incrementing it: a stamp is only meaningful inside the walk that wrote it.  A function that starts
    a walk (increments the counter) must therefore not compare a node's stamp with the counter on a path *before* the increment:
    the equal stamp then comes from some earlier, unrelated walk (or from a name look-up, which uses the same counter), and acting
    on it - skipping the check - lets a schema with a select cycle through without the ERROR."""
    from ir import access_path
    n = 0
    for f in prog.all_functions():
        if f.component == "test" or f.cfg is None:
            continue
        incs = []
        for x in f.walk():
            if x["k"] == "Unary" and "++" in (x.get("op") or "") and x.get("ch") and strip(x["ch"][0]) is not None and \
                    strip(x["ch"][0])["k"] == "Ref" and strip(x["ch"][0]).get("dk") == "global":
                incs.append((x, strip(x["ch"][0])["d"]))
        if not incs:
            continue
        for inc, g in incs:
            # is g used as a visited stamp at all?  (some node->search_id compared with / assigned from it somewhere in the program)
            if g != "__SCOPE_search_id":
                continue
            n += 1
            pinc = f.cfg.locate(inc)
            bad = None
            for c in f.walk():
                if c["k"] != "Binary" or c.get("op") not in ("==", "!=") or len(c.get("ch") or []) != 2:
                    continue
                a, b = strip(c["ch"][0]), strip(c["ch"][1])
                if a is None or b is None:
                    continue
                pair = [a, b]
                if not (any(y["k"] == "Ref" and y.get("d") == g for y in pair) and
                        any(y["k"] == "Member" and y.get("n") == "search_id" for y in pair)):
                    continue
                pc = f.cfg.locate(c)
                if pc is not None and pinc is not None and (f.cfg.reaches(pc, pinc) or (pc[0] == pinc[0] and pc[1] < pinc[1])):
                    bad = c
                    break
            res.add("R13.fresh_walk_ignores_old_stamps", "R13|%s|%s|%s" % (f.relfile(), f.name, inc["l"]), f.where(bad or inc), bad is None,
                    "%s starts its walk (`%s++`) without having looked at a stamp of an earlier walk" % (f.name, g) if bad is None else
                    "%s tests `%s` and only then starts its own walk with `%s++`: the stamp it sees was written by an earlier, unrelated walk "
                    "(or by a name look-up, which shares the counter), so the decision taken on it - e.g. not checking this select for a "
                    "cycle - is arbitrary and an invalid schema is accepted without an ERROR" % (f.name, expr_str(bad)[:60], g))
    res.floor("R13.fresh_walk_ignores_old_stamps", "functions that start a stamped walk", n, 7)


def run(prog, res, tier):
    r13_fresh_walk_ignores_old_stamps(prog, res)
    r12_silent_attempt_retried(prog, res)
    r11_probe_and_define_same_table(prog, res)
    t = c20.table(prog, res)
    if t is None:
        return
    tab, enum = t
    r1(prog, res)
    E = r2(prog, res)
    r3(prog, res, tab)
    r4(prog, res)
    if E is not None:
        r5(prog, res, tab, E)
    r7(prog, res)
    r8(prog, res)
    r9(prog, res)
    r10_request_respected(prog, res)
    try:
        from rules import c04_lookup
        c04_lookup.run(prog, res, tier)
    except ImportError:
        pass
