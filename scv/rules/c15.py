"""C15 — strict and lenient handling of missing required attributes.

 R1 table     decision table of the unset-value region of STEPattribute::STEPread over
              (nullable, strict, attribute kind) equals the documented one; filler literals are in
              their kind's Part 21 grammar so that the substitution cannot end in SEVERITY_BUG
 R2 threading `strict` is threaded from STEPfile::_strict down to every attribute reader on the file path
 R3 plumbing  p21read passes -s to the STEPfile constructor, the constructor stores it,
              SEVERITY_USERMSG is milder than SEVERITY_INCOMPLETE
"""
import re

from engines import sinterp, flatten_switch, peval, threading, call_args, known_facts
from ir import walk, strip, expr_str, access_path

PID = "C15"
UNITS = dict(components={"clstepcore", "cldai", "cleditor", "clutils", "cllazyfile", "p21read", "exp2cxx"})
EXPLANATION = (
    "(R1) The `case '$': case ',': case ')':` region of STEPattribute::STEPread is executed by a structured "
    "interpreter for every combination of Nullable() x strict x PrimitiveType (all enumerators) x {'$', ','}; the "
    "resulting (final severity constant, target assigned) must equal the documented table: nullable -> NULL; required "
    "& strict -> INCOMPLETE; required & lenient & kind in {INTEGER, REAL, NUMBER, STRING} -> USERMSG with the target "
    "assigned; otherwise INCOMPLETE. The test `err.severity() <= SEVERITY_INCOMPLETE` after a literal read is "
    "evaluated from the literal itself: it is false exactly when the literal is in the kind's ISO 10303-21 language "
    "followed by a listed delimiter. (R2) E8 threading of `strict` over the resolved call graph (class-hierarchy "
    "expansion of virtual calls) from the file entry points. (R3) constant/plumbing facts. (R4) every threshold test under which a reader merges the severity of a part into the enclosing descriptor holds for SEVERITY_USERMSG, the severity of a lenient substitution. Not decided: the value "
    "actually written back beyond 'target assigned a constant'."
    " (R5) where a reader classifies an instance by a switch over its severity and sets the node state in the arms (STEPfile::ReadInstance), SEVERITY_USERMSG reaches the same ChangeState calls as SEVERITY_NULL: the instance that received the lenient filler is a complete instance."
    " (R5p, shared with C03) the Severity returned by a part reader called on another object, or that object's Error(), is used: what strict mode reports for an unset required attribute inside a complex part has to reach the instance."
    " (R1g, rule of C02 R1) the attribute descriptors exp2cxx emits pass LTrue for the constructor parameter named `optional` exactly when the attribute is declared OPTIONAL, for each of the emission blocks: the optionality the reader consults is the schema's."
    " (C03 R2, shared) every setter that could lower a recorded severity is a reviewed relaxation site: the severity strict and lenient reads are compared on is only ever raised.")

ENTRY = ["STEPfile::ReadExchangeFile", "STEPfile::AppendExchangeFile", "STEPfile::ReadWorkingFile",
         "STEPfile::AppendWorkingFile", "lazyInstMgr::loadInstance"]
LENIENT_KINDS = ["sdaiINTEGER", "sdaiREAL", "sdaiNUMBER", "sdaiSTRING"]
P21_STRING = re.compile(r"^'([^']|'')*'$")
P21_INT = re.compile(r"^\s*[+-]?\d+\s*$")
P21_REAL = re.compile(r"^\s*[+-]?\d+\.\d*(E[+-]?\d+)?\s*$")


def entry_keys(prog):
    keys = []
    for name in ENTRY:
        for f in prog.by_name.get(name, []):
            keys.append(f.key)
    return keys


def find_read(prog):
    c = [f for f in prog.by_name.get("STEPattribute::STEPread", []) if "istream" in f.key]
    return c[0] if len(c) == 1 else None


def literal_in_language(kind, lit, tokens):
    """lit = value text followed by a delimiter from tokens."""
    if not lit or lit[-1] not in tokens:
        return False
    body = lit[:-1]
    if kind == "ReadInteger":
        return bool(P21_INT.match(body))
    if kind in ("ReadReal", "ReadNumber"):
        return bool(P21_REAL.match(body) or (kind == "ReadNumber" and P21_INT.match(body)))
    return False


def r1(prog, res):
    f = find_read(prog)
    if f is None:
        res.broke("anchor vanished: STEPattribute::STEPread(istream&, ...)")
        return
    sev = [it for it in prog.enums.values() if "SEVERITY_USERMSG" in it]
    pt = prog.enums.get("PrimitiveType")
    if not sev or not pt:
        res.broke("anchor vanished: Severity / PrimitiveType enums")
        return
    sev = sev[0]
    sevname = {v: k for k, v in sev.items()}
    strict_d = None
    for p in f.params:
        if p["n"] == "strict":
            strict_d = p["d"]
    if strict_d is None:
        res.broke("STEPattribute::STEPread has no parameter named strict")
        return
    target = None
    for n in f.walk():
        if n["k"] == "Switch":
            labs = [l for labs, _ in flatten_switch(n) for l in labs]
            if ord("$") in labs:
                target = n
                break
    if target is None:
        res.broke("STEPattribute::STEPread: switch with case '$' not found")
        return
    items = flatten_switch(target)
    start = [i for i, (labs, _) in enumerate(items) if ord("$") in labs][0]
    labs = set(items[start][0])
    res.add("R1.unset_tokens", "R1|src/clstepcore/STEPattribute.cc|STEPattribute::STEPread|unset-labels", f.where(target),
            {ord("$"), ord(","), ord(")")} <= labs,
            "unset value recognised for '$', ',' and ')'" if {ord("$"), ord(","), ord(")")} <= labs else
            "unset-value arm no longer covers all of '$', ',', ')': %s" % sorted(chr(x) for x in labs if isinstance(x, int)))
    seq = [s for _, s in items[start:]]
    cvar = strip(target["ch"][0])

    # the kind switch variable
    def run_combo(nullable, strict, kindval, cchar):
        state = {"filler": None, "lit_ok": None, "reader": None}

        def scan_effects(path):
            """derive (last filler literal, reader call) from effects so far"""
            filler = None
            reader = None
            for e in path.effects:
                for x in walk(e):
                    if x["k"] == "Call" and x.get("opcall") == "=" and len(x["ch"]) == 2:
                        l, r = strip(x["ch"][0]), strip(x["ch"][1])
                        sv = None
                        for y in walk(r):
                            if y["k"] == "Str":
                                sv = y.get("s")
                        if l["k"] == "Ref" and sv is not None and "string" in f.ty(l):
                            filler = (l["d"], sv)
                    if x["k"] == "Call" and x.get("fn") in ("ReadInteger", "ReadReal", "ReadNumber"):
                        reader = x
            return filler, reader

        def ev(n, path):
            n = strip(n)
            k = n["k"]
            if k == "Call" and (n.get("fn") or "").endswith("::Nullable"):
                return nullable
            if k == "Ref" and n.get("d") == strict_d:
                return strict
            if k == "Unary" and n["op"] == "!":
                v = ev(n["ch"][0], path)
                return None if v is None else (not v)
            if k == "Binary" and n["op"] in ("&&", "||"):
                a, b = ev(n["ch"][0], path), ev(n["ch"][1], path)
                if n["op"] == "&&":
                    if a is False or b is False:
                        return False
                    return True if (a and b) else None
                if a or b:
                    return True
                return False if (a is False and b is False) else None
            if k == "Binary" and n["op"] in ("==", "!="):
                l, r = strip(n["ch"][0]), strip(n["ch"][1])
                if l["k"] == "Ref" and l.get("d") == cvar.get("d") and "val" in r:
                    v = (ord(cchar) == r["val"])
                    return v if n["op"] == "==" else not v
            if k == "Binary" and n["op"] in ("<=", "<"):
                l, r = strip(n["ch"][0]), strip(n["ch"][1])
                if l["k"] == "Call" and (l.get("fn") or "").endswith("ErrorDescriptor::severity") and "val" in r:
                    obj = strip(l["ch"][0])
                    if obj["k"] == "Member" and obj.get("n") == "_error":
                        # the attribute's own descriptor, asked right after CheckRemainingInput: the table's inputs are `$` / `,` / `)`
                        # followed by a delimiter (a conforming unset value), for which CheckRemainingInput records nothing
                        v = sev["SEVERITY_NULL"]
                        return (v <= r["val"]) if n["op"] == "<=" else (v < r["val"])
                    if obj["k"] == "Ref" and obj.get("dk") == "local":
                        filler, reader = scan_effects(path)
                        if reader is None:
                            # no literal read on this path (string store): descriptor still SEVERITY_NULL
                            v = sev["SEVERITY_NULL"]
                        else:
                            args = reader["ch"]
                            lit = None
                            for y in walk(args[1]):
                                if y["k"] == "Str":
                                    lit = y.get("s")
                                if y["k"] == "Ref" and filler and y.get("d") == filler[0]:
                                    lit = filler[1]
                            toks = None
                            for y in walk(args[3]) if len(args) > 3 else []:
                                if y["k"] == "Str":
                                    toks = y.get("s")
                            okl = lit is not None and toks is not None and literal_in_language(reader["fn"], lit, toks)
                            state["lit"] = lit
                            state["lit_ok"] = okl
                            # in-language literal + listed delimiter: CheckRemainingInput raises nothing
                            v = sev["SEVERITY_NULL"] if okl else sev["SEVERITY_WARNING"]
                        return (v <= r["val"]) if n["op"] == "<=" else (v < r["val"])
            return None

        def sw(n, path):
            n = strip(n)
            if n["k"] == "Ref" and "PrimitiveType" in f.ty(n):
                return kindval
            if n["k"] == "Ref" and n.get("d") == cvar.get("d"):
                return ord(cchar)
            return None
        paths = sinterp(seq, ev, sw)
        outs = []
        for p in paths:
            final = None
            assigned = False
            for e in p.effects:
                for x in walk(e):
                    if x["k"] == "Call" and (x.get("fn") or "").endswith("ErrorDescriptor::severity") and len(x["ch"]) == 2:
                        obj = strip(x["ch"][0])
                        if obj["k"] == "Member" and obj["n"] == "_error":
                            v = strip(x["ch"][1]).get("val")
                            final = sevname.get(v, v)
                    if x["k"] == "Call" and x.get("fn") in ("ReadInteger", "ReadReal", "ReadNumber"):
                        t = access_path(x["ch"][0])
                        if t and "ptr." in t:
                            assigned = True
                    if x["k"] in ("Assign",) or (x["k"] == "Call" and x.get("opcall") == "="):
                        t = access_path(x["ch"][0])
                        if t and t.startswith("*") and "ptr." in t:
                            assigned = True
                            # SDAI_String keeps the exchange form: the substituted value must be a Part 21
                            # string literal ('' = empty string); "" is the unset state and is written as $
                            if t.endswith("ptr.S"):
                                lit = None
                                for y in walk(x["ch"][1]):
                                    if y["k"] == "Str":
                                        lit = y.get("s")
                                state["lit"] = lit
                                if lit is None or not P21_STRING.match(lit):
                                    assigned = False
                                    state["lit_ok"] = False
            outs.append((final, assigned, p.returned is not None, state.get("lit"), state.get("lit_ok")))
        return outs

    kinds = dict(pt)
    n = 0
    for kname, kval in sorted(kinds.items(), key=lambda kv: kv[1]):
        for nullable in (True, False):
            for strict in (True, False):
                for cchar in "$,":
                    n += 1
                    outs = run_combo(nullable, strict, kval, cchar)
                    if nullable:
                        want = ("SEVERITY_NULL", None)
                    elif strict:
                        want = ("SEVERITY_INCOMPLETE", None)
                    elif kname in LENIENT_KINDS:
                        want = ("SEVERITY_USERMSG", True)
                    else:
                        want = ("SEVERITY_INCOMPLETE", None)
                    good = len(outs) >= 1 and all(o[0] == want[0] and (want[1] is None or o[1] == want[1]) and o[2] for o in outs)
                    key = "R1|table|nullable=%d,strict=%d,%s,%s" % (nullable, strict, kname, "dollar" if cchar == "$" else "empty")
                    if good:
                        msg = "-> %s%s" % (want[0], " with target assigned" if want[1] else "")
                    else:
                        o = outs[0] if outs else (None, None, None, None, None)
                        msg = ("documented outcome %s%s but the code yields %s (target assigned: %s%s)" %
                               (want[0], " + target assigned" if want[1] else "", o[0], o[1],
                                ("; filler literal %r is not a Part 21 %s literal%s" % (o[3], kname[4:].lower(),
                                 " followed by a delimiter, so the check `err.severity() <= SEVERITY_INCOMPLETE` fires"
                                 if kname != "sdaiSTRING" else ": the attribute stays unset and is written back as $"))
                                if o[4] is False else ""))
                    res.add("R1.decision_table", key, f.where(target), good, msg,
                            {"outcomes": [list(map(str, o)) for o in outs]})
    res.floor("R1.decision_table", "table cells", n, 100)


def r2(prog, res):
    n = threading(prog, res, "R2.strict_threading", r"^strict$", {"STEPfile": {"_strict"}}, entry_keys(prog), why="strict")
    res.floor("R2.strict_threading", "call sites that accept `strict`", n, 4)
    # functions on the file path that accept strict must name and use it (an unnamed parameter cannot be forwarded)
    for f in prog.all_functions():
        if f.component == "test":
            continue
        # position of 'strict' from the class declaration
        r = prog.records.get(f.cls or "")
        if not r:
            continue
        for m in r["methods"]:
            if m["key"] != f.key:
                continue
            for i, p in enumerate(m["params"]):
                if p["n"] == "strict" and i < len(f.params):
                    d = f.params[i]["d"]
                    used = any(x["k"] == "Ref" and x.get("d") == d for x in f.walk_all())
                    res.add("R2.strict_used", "R2|%s|%s|uses-strict" % (f.relfile(), f.name), f.where(), used,
                            "parameter strict is read" if used else
                            "%s receives `strict` but never reads it: everything it reads is handled with the callee defaults" % f.name)


def r4_usermsg_merged(prog, res):
    """The lenient substitution is reported with SEVERITY_USERMSG, the mildest severity that still is a message.  Wherever a reader
    merges the severity of a part (attribute, part of a complex instance, instance) into the enclosing descriptor under a threshold
    test `v <op> SEVERITY_x`, that test must hold for v == SEVERITY_USERMSG - otherwise the user message is dropped on the way up and
    the file is accepted silently."""
    sev = [it for it in prog.enums.values() if "SEVERITY_USERMSG" in it][0]
    U = sev["SEVERITY_USERMSG"]
    n = 0
    counters = {}
    for f in prog.all_functions():
        if f.component not in ("clstepcore", "cleditor") or f.cfg is None:
            continue
        for x in f.walk():
            if x["k"] != "If":
                continue
            c = strip(x["ch"][0])
            if c is None or c["k"] != "Binary" or c.get("op") not in ("<", "<=", ">", ">=", "==", "!="):
                continue
            a, b = strip(c["ch"][0]), strip(c["ch"][1])
            for v, k, flip in ((a, b, False), (b, a, True)):
                if v is None or k is None or v["k"] != "Ref" or v.get("dk") != "local" or "Severity" not in f.ty(v) or not isinstance(k.get("val"), int):
                    continue
                merges = [y for y in walk(x["ch"][1]) if y["k"] == "Call" and (y.get("fn") or "").endswith("GreaterSeverity") and
                          any(strip(z) is not None and strip(z).get("d") == v["d"] for z in call_args(y))]
                if not merges:
                    continue
                n += 1
                op = c["op"]
                if flip:
                    op = {"<": ">", "<=": ">=", ">": "<", ">=": "<=", "==": "==", "!=": "!="}[op]
                holds = {"<": U < k["val"], "<=": U <= k["val"], ">": U > k["val"], ">=": U >= k["val"], "==": U == k["val"], "!=": U != k["val"]}[op]
                base = "R4|%s|%s|merge-threshold" % (f.relfile(), f.name)
                c0 = counters.get(base, 0)
                counters[base] = c0 + 1
                res.add("R4.usermsg_passes_merge", base if c0 == 0 else "%s#%d" % (base, c0), f.where(x), holds,
                        "`%s` holds for SEVERITY_USERMSG: the user message of a lenient substitution is merged upwards" % expr_str(c) if holds else
                        "`%s` is false for SEVERITY_USERMSG: the severity and message of a lenient substitution (\"missing and required ... replacing "
                        "with ''\") are not merged into the instance, so the file is accepted without the user message" % expr_str(c))
    res.floor("R4.usermsg_passes_merge", "severity-threshold merges in the readers", n, 1)


def r5_usermsg_classified_like_clean(prog, res):
    """An instance whose only remark is a user message (the lenient filler) is an accepted instance.  Where a reader classifies an
    instance by a switch over its severity and sets the node state (ChangeState) in the arms, SEVERITY_USERMSG must reach the same
    state changes as SEVERITY_NULL - otherwise the node keeps its first-pass state, is validated again from its printed form when the
    file is written, and the write can fail although the read accepted the file."""
    from engines import flatten_switch
    sev = [it for it in prog.enums.values() if "SEVERITY_USERMSG" in it][0]
    U, N = sev["SEVERITY_USERMSG"], sev["SEVERITY_NULL"]
    n = 0

    def reached(items, value):
        idx = next((i for i, (labels, _) in enumerate(items) if value in labels), None)
        if idx is None:
            idx = next((i for i, (labels, _) in enumerate(items) if "default" in labels), None)
        if idx is None:
            return None, []
        out = []
        for labels, st in items[idx:]:
            if st is None:
                continue
            if st["k"] == "Break":
                break
            out.append(st)
            if st["k"] == "Return" or any(y["k"] == "Break" for y in [st]):
                break
        return idx, out
    for f in prog.all_functions():
        if f.component not in ("clstepcore", "cleditor"):
            continue
        for sw in f.walk():
            if sw["k"] != "Switch" or not sw.get("ch") or "Severity" not in f.ty(strip(sw["ch"][0]) or {}):
                continue
            items = flatten_switch(sw)
            # statements between labels belong to the preceding label group: regroup so that each group carries all its statements
            groups = []
            for labels, st in items:
                if labels or not groups:
                    groups.append((labels, [st] if st is not None else []))
                else:
                    groups[-1][1].append(st)
            flat = []
            for labels, sts in groups:
                first = True
                for st in sts:
                    flat.append((labels if first else [], st))
                    first = False
                if not sts:
                    flat.append((labels, None))
            states = {}
            for val in (N, U):
                _, sts = reached(flat, val)
                cs = sorted({expr_str(call_args(y)[0]) for st in sts for y in walk(st)
                             if y["k"] == "Call" and (y.get("fn") or "").endswith("ChangeState") and call_args(y)})
                states[val] = cs
            if not states[N] and not states[U]:
                continue
            n += 1
            ok = states[N] == states[U]
            res.add("R5.usermsg_classified_like_clean", "R5|%s|%s|switch" % (f.relfile(), f.name), f.where(sw), ok,
                    "SEVERITY_USERMSG reaches the same node state as SEVERITY_NULL (%s)" % ", ".join(states[N]) if ok else
                    "an instance read with SEVERITY_NULL is moved to %s, one read with SEVERITY_USERMSG (the lenient filler) to %s: it keeps "
                    "the state of the first pass, so the writer validates it again from its printed form and may refuse to write the file"
                    % (states[N] or "no state", states[U] or "no state"))
    res.floor("R5.usermsg_classified_like_clean", "severity switches that set the node state", n, 1)


def r3(prog, res):
    sev = [it for it in prog.enums.values() if "SEVERITY_USERMSG" in it][0]
    ok = sev["SEVERITY_USERMSG"] > sev["SEVERITY_INCOMPLETE"] and sev["SEVERITY_NULL"] > sev["SEVERITY_USERMSG"] \
        and sev["SEVERITY_INCOMPLETE"] > sev["SEVERITY_WARNING"]
    res.add("R3.severity_order", "R3|enum|Severity|order", "include/clutils/errordesc.h", ok,
            "WARNING < INCOMPLETE < USERMSG < NULL" if ok else "severity ordering changed: %s" % sev)
    main = prog.one("main", "p21read/p21read.cc")
    if main is None:
        res.broke("anchor vanished: p21read main")
        return
    ctor = [c for c in main.walk() if c["k"] == "Construct" and (c.get("fn") or "").startswith("STEPfile::STEPfile")]
    if not ctor:
        res.broke("p21read main constructs no STEPfile")
        return
    # which local is set under the 's' option
    sflag = None
    for n in main.walk():
        if n["k"] == "Assign":
            lhs = strip(n["ch"][0])
            if lhs["k"] == "Ref" and lhs["n"] == "strict" and strip(n["ch"][1]).get("val") == 1:
                # enclosing case label 's'
                for a in main.ancestors(n):
                    if a["k"] == "Case" and a.get("val") == ord("s"):
                        sflag = lhs["d"]
    for c in ctor:
        args = c["ch"]
        a = args[3] if len(args) > 3 else None
        ok = a is not None and a["k"] != "DefaultArg" and sflag is not None and \
            any(x["k"] == "Ref" and x.get("d") == sflag for x in walk(a))
        res.add("R3.flag_plumbing", "R3|src/test/p21read/p21read.cc|main|STEPfile(strict)", main.where(c), ok,
                "the -s flag reaches the STEPfile constructor" if ok else
                "STEPfile constructed with strict = `%s` (not the -s flag)" % (expr_str(a) if a else "<default>"))
    # constructor stores the parameter into _strict
    ctors = [f for f in prog.by_name.get("STEPfile::STEPfile", [])]
    stored = False
    for f in ctors:
        pd = [p["d"] for p in f.params if p["n"] == "strict"]
        for ini in f.raw.get("inits", []):
            if ini.get("member", "").endswith("_strict") and pd:
                if any(x["k"] == "Ref" and x.get("d") == pd[0] for c in ini["ch"] if c for x in walk(c)):
                    stored = True
    res.add("R3.flag_plumbing", "R3|src/cleditor/STEPfile.inline.cc|STEPfile::STEPfile|_strict(strict)", "src/cleditor/STEPfile.inline.cc", stored,
            "constructor stores its strict parameter in _strict" if stored else "_strict is not initialised from the constructor parameter")
    # _strict has no other writer
    for f in prog.all_functions():
        for n in f.walk():
            if n["k"] in ("Assign", "CompoundAssign"):
                lhs = strip(n["ch"][0])
                if lhs["k"] == "Member" and lhs["n"] == "_strict":
                    res.add("R3.flag_plumbing", "R3|%s|%s|_strict=" % (f.relfile(), f.name), f.where(n), False,
                            "_strict reassigned in %s" % f.name)


def run(prog, res, tier):
    r4_usermsg_merged(prog, res)
    r5_usermsg_classified_like_clean(prog, res)
    # what `optional` means at run time (STEPattribute::Nullable) is what exp2cxx wrote into the attribute descriptor: the emitted
    # constructor passes LTrue for the parameter named `optional` exactly when VARget_optional (rule and engine of C02 R1)
    from rules import c02
    c02.r1_slots(prog, res)
    # strictness only matters if what a part reader reports reaches the instance at all (rule shared with C03 R5)
    from rules import c03, c03_more
    sv = c03.sev_enum(prog)
    if sv is not None:
        c03_more.r5_part_results(prog, res, sv)
        # the severity that strict and lenient reads are compared on is only ever raised: setters that could lower what an earlier
        # instance or attribute recorded are the reviewed relaxation sites of C03 R2 (same rule, same table)
        c03.r2_relaxation(prog, res, sv)
    r1(prog, res)
    r2(prog, res)
    r3(prog, res)
