"""C18 — the Python generator emits an importable module that mirrors the schema (structural clauses).

 R1 declarations   no call of an undeclared function, no int<->pointer or incompatible-pointer conversion, no missing
                   return in any first-party translation unit (the configured compiler diagnostics, as a rule)
 R2 keywords       the generator's keyword table covers every Python keyword an EXPRESS identifier can spell, and every
                   schema identifier printed in a code position of the module is escaped through that table
 R3 imports        the package and modules the generated header imports exist in the bundled runtime
 R4 coverage       every entity and every kind of defined type reaches its printer; supertypes are emitted in
                   declaration order (no reordering of the supertype list)
 R5 one module     a file with one schema is printed in one pass: under the single-schema hypothesis no deferral statement of
                   the dependency checkers is reachable (so the module is <schema>.py, not <schema>_1.py, <schema>_2.py ...)
"""
import os
import re
from ir import walk, strip, expr_str
from engines import call_args, known_facts, FMT_RE
import facts as factsmod
from typeshape import Explorer

PID = "C18"
UNITS = dict(components={"exp2python", "express"})
LEVEL_TEXT = "other"
NDEBUG_VARIANT = False
TECHNIQUE = ("static analysis: selected compiler diagnostics over every translation unit as obligations, table coverage of "
             "the keyword escape against the Python and EXPRESS keyword sets, escape-routing rule over the emitter's format "
             "strings (code position vs comment/string), import literals vs the bundled package, type-shape reachability")
EXPLANATION = (
    "Structural necessary conditions for 'exits 0 and writes a module Python can import that mirrors the schema'. (R1) every "
    "first-party unit is re-parsed with the build's own flags plus -Wimplicit-function-declaration -Wint-conversion "
    "-Wincompatible-pointer-types -Wreturn-type; each diagnostic is a failed obligation (an undeclared strdup() truncating a "
    "pointer was the crash the property mentions). (R2) is_python_keyword()'s table must contain every Python 3 keyword that "
    "matches the EXPRESS identifier syntax and is not an EXPRESS reserved word; every %s of an fprintf format in exp2python that "
    "stands in a code position (outside a # comment and outside a quoted Python string of the format) and receives a schema "
    "identifier must be printed under a test of is_python_keyword on that identifier (or with the py_kw_suffix companion "
    "argument). (R3) the literals 'from <pkg>[.<mod>] import' of the generated header name a package directory and modules "
    "that exist under src/exp2python/python. (R4) three-valued exploration: for each of the 13 kinds x {plain, renaming} of a "
    "TYPE declaration SCOPEPrint can reach TYPEprint_descriptions on that type; ENTITYPrint is reached for every entity under "
    "the processing mark only; the supertype list is not reordered before the base classes are printed. (R5) with inSchema()/sameSchema() true and no object "
    "marked CANTPROCESS, three-valued evaluation with path-refined value sets of the search_id marks shows that checkTypes/checkEnts/"
    "checkItem/ENUMcanBeProcessed can neither mark an object CANTPROCESS nor the schema UNPROCESSED, hence print_schemas_separate "
    "takes the suffix-0 branch and one module is written. "
    "(R6) the emission sites of one numbered name template (`inherited%i__%s`: formal parameter of __init__ and argument of the parent's __init__) stand under the same schema predicates. Not decided: that the generated text is valid Python beyond identifiers, attribute/constructor argument order in detail, "
    "select members and enumeration items being complete."
    " (R7) the scheduler of the defined-type classes waits for the type whose name the class-header emitter prints as the base class (same expression of the type on both sides): the emission order is a topological order of the base relation, which Python needs at import."
    " (R2s) the keyword look-up compares the word with every table entry: a scan that stops early is accepted only if the table is sorted."
    " (R7) the scheduler of defined types waits for the same type expression that the class-header emitter names as base class (locals resolved through their assignments).")

WFLAGS = ("-Wno-everything", "-Wimplicit-function-declaration", "-Wint-conversion", "-Wincompatible-pointer-types", "-Wreturn-type")
GROUPS = ("implicit-function-declaration", "int-conversion", "incompatible-pointer-types", "return-type")
# Python 3 hard keywords (3.6 .. 3.12); soft keywords (match, case, type, _) stay legal identifiers
PY_KEYWORDS = ["False", "None", "True", "and", "as", "assert", "async", "await", "break", "class", "continue", "def", "del", "elif",
               "else", "except", "finally", "for", "from", "global", "if", "import", "in", "is", "lambda", "nonlocal", "not", "or",
               "pass", "raise", "return", "try", "while", "with", "yield"]
NAME_FNS = {"TYPEget_name", "ENTITYget_name", "EXPget_name", "SCHEMAget_name", "VARget_simple_name"}
# emissions that are not Python (left-overs of the C++ generator printed into files the Python back end never keeps)
NOT_PYTHON = {
    ("src/exp2python/src/classes_wrapper_python.cc", "getMCPrint"): "prints a C++ function into files->initall, a left-over of the C++ generator; not part of the Python module",
    ("src/exp2python/src/classes_python.c", "get_attribute_number"): "diagnostic to stderr",
    ("src/exp2python/src/multpass_python.c", "addUseRefNames"): "writes C++ 'using' lines for USE/REFERENCE into the unused .h stream",
}


def selftest(res):
    """the diagnostics channel must be alive: a planted undeclared strdup() has to be reported"""
    import selftest as st
    root = os.path.join(os.path.dirname(os.path.dirname(os.path.abspath(__file__))), "selftest", "c18")
    u = {"file": os.path.join(root, "src", "undeclared.c"), "flags": ["-std=c11"], "lang": "c", "component": "selftest"}
    fl = factsmod.extract([u], extra_flags=(), roots=[root + "/"], wflags=WFLAGS)
    msgs = [d["msg"] for d in fl[0].get("diags", [])]
    if not any("implicit-function-declaration" in m for m in msgs) or not any("int-conversion" in m for m in msgs):
        res.broke("self-test C18: the planted implicit declaration / int conversion was not reported: %s" % msgs)
    res.info.setdefault("selftests", []).append({"name": "C18 undeclared.c", "diagnostics": len(msgs)})


def r1_decls(res, tier, rule="R1.declared_before_use", components=None, min_units=180, tail=None, wflags=None, groups=None):
    units, route = factsmod.compile_db()
    chosen = [u for u in units if components is None or u["component"] in components]
    fl = factsmod.extract(chosen, extra_flags=("-UNDEBUG",), wflags=(wflags or WFLAGS), use_cache=True)
    n = 0
    nd = 0
    keys = {}
    for u, d in zip(chosen, fl):
        n += 1
        for g in d.get("diags", []):
            if g["level"] == "note":
                continue
            grp = [x for x in (groups or GROUPS) if "[-W%s]" % x in g["msg"]]
            if not grp and g["level"] != "error":
                continue
            nd += 1
            rel = g.get("file", "").replace("/repo/", "")
            m = re.search(r"'([^']+)'", g["msg"])
            k = "R1|%s|%s|%s" % (rel, grp[0] if grp else "error", m.group(1) if m else "")
            keys[k] = keys.get(k, 0) + 1
            if keys[k] > 1:
                k += "#%d" % keys[k]
            res.add(rule, k, "%s:%s" % (rel, g.get("line")), False,
                    g["msg"] + (" — the call is compiled as returning int: on a 64-bit host a returned pointer is truncated"
                                if "implicit-function-declaration" in g["msg"] else (tail or "")))
    res.add(rule, "R1|all-units|clean", "src/", nd == 0,
            "%d translation units re-parsed with the build flags: no undeclared function, int/pointer or incompatible-pointer conversion, missing return" % n
            if nd == 0 else "%d diagnostics in %d units" % (nd, n))
    res.floor(rule, "translation units re-parsed with diagnostics on", n, min_units)
    res.info["units_with_diagnostics_enabled"] = n


def express_reserved(prog, res):
    g = prog.global_init("keywords", "lexact.c")
    if g is None:
        res.broke("anchor vanished: keywords[] in lexact.c")
        return None
    out = set()
    for row in strip(g["init"][0])["ch"]:
        row = strip(row)
        if row is not None and row["k"] == "InitList" and row.get("ch"):
            a = strip(row["ch"][0])
            if a is not None and a["k"] == "Str":
                out.add(a["s"].lower())
    return out


def code_positions(fmt):
    """[(argument index, conversion, in_code)] for each conversion of a format the generator prints into the module"""
    out = []
    i = 0
    q = None
    comment = False
    ci = 0
    while i < len(fmt):
        c = fmt[i]
        if c == "\n":
            comment = False
            if q in ("'", '"'):
                q = None
        elif c == "#" and q is None:
            comment = True
        elif c in "'\"" and not comment:
            tri = fmt[i:i + 3] in ("'''", '"""')
            tok = fmt[i:i + 3] if tri else c
            if q is None:
                q = tok
            elif q == tok:
                q = None
            if tri:
                i += 3
                continue
        elif c == "%":
            m = FMT_RE.match(fmt, i)
            if m:
                if m.group("conv") != "%":
                    ci += (1 if m.group("width") == "*" else 0) + (1 if m.group("prec") == "*" else 0)
                    # a name glued to identifier characters (eval_%s_wr) is part of a longer identifier: no keyword issue
                    before = fmt[i - 1] if i > 0 else " "
                    after = fmt[m.end()] if m.end() < len(fmt) else " "
                    standalone = not (before.isalnum() or before == "_") and not (after.isalnum() or after == "_")
                    out.append((ci, m.group("conv"), q is None and not comment and standalone))
                    ci += 1
                i = m.end()
                continue
        i += 1
    return out


def is_name_expr(a):
    a = strip(a)
    if a is None:
        return False
    if a["k"] == "Call" and (a.get("fn") or "") in NAME_FNS:
        return True
    return a["k"] == "Member" and a["n"] == "name" and "Symbol_" in (a.get("q") or "")


def r2_keywords(prog, res):
    f = prog.one("is_python_keyword")
    if f is None:
        res.broke("anchor vanished: is_python_keyword")
        return
    table = set()
    for x in f.walk():
        if x["k"] == "Var" and x.get("ch"):
            ini = strip(x["ch"][0])
            if ini is not None and ini["k"] == "InitList":
                for c in ini["ch"]:
                    c = strip(c)
                    if c is not None and c["k"] == "Str":
                        table.add(c["s"])
    reserved = express_reserved(prog, res)
    if reserved is None:
        return
    ident = re.compile(r"^[a-z][a-z0-9_]*$")
    need = [k for k in PY_KEYWORDS if ident.match(k) and k not in reserved]
    res.info["python_keywords_spellable_in_express"] = need
    res.info["generator_keyword_table"] = sorted(table)
    for k in need:
        ok = k in table
        res.add("R2.keyword_table", "R2|src/exp2python/src/classes_python.c|is_python_keyword|%s" % k, f.where(), ok,
                "'%s' is escaped" % k if ok else
                "'%s' is a legal EXPRESS identifier and a Python keyword, but is_python_keyword() does not know it: an entity, type or "
                "attribute of that name gives a module that does not compile" % k)
    res.floor("R2", "Python keywords an EXPRESS identifier can spell", len(need), 15)
    # the comparison is exact and case-sensitive on lower-case names
    cmpc = [c for c in f.calls() if (c.get("fn") or "").split("::")[-1] in ("strcmp", "__builtin_strcmp")]
    ok = len(cmpc) == 1
    res.add("R2.keyword_lookup", "R2|src/exp2python/src/classes_python.c|is_python_keyword|lookup", f.where(), ok,
            "the table is searched with strcmp over all entries" if ok else "is_python_keyword no longer compares the word with each table entry")
    # ---- the search really visits every entry: a scan that gives up early (`if( cmp < 0 ) break;`) is only right for a sorted table
    order = []
    for x in f.walk():
        if x["k"] == "Var" and x.get("ch"):
            ini = strip(x["ch"][0])
            if ini is not None and ini["k"] == "InitList":
                order = [strip(c)["s"] for c in ini["ch"] if strip(c) is not None and strip(c)["k"] == "Str"]
    loops = [lp for lp in f.walk() if lp["k"] in ("For", "While")]
    early = []
    for lp in loops:
        body = lp["ch"][-1]
        for y in walk(body) if body is not None else []:
            if y["k"] == "Break":
                early.append(y)
            if y["k"] == "Return" and y.get("ch") and y["ch"][0] is not None:
                v = strip(y["ch"][0])
                while v is not None and v["k"] == "Cast" and v.get("ch") and "val" not in v:
                    v = strip(v["ch"][0])
                if v is not None and v.get("val") == 0:
                    early.append(y)
    is_sorted = order == sorted(order)
    ok = not early or is_sorted
    res.add("R2.keyword_scan_complete", "R2|src/exp2python/src/classes_python.c|is_python_keyword|scan", f.where(early[0]) if early else f.where(), ok,
            "the scan over the %d table entries ends only at a match or at the end of the table%s" % (len(order), "" if not early else " (it stops early, and the table is sorted)") if ok else
            "the scan gives up before the end of the table (line %s) although the table is not sorted (`%s` follows `%s`): the entries after the "
            "first one that sorts above the word are never compared - `property` is no longer recognised and an entity of that name rebinds the builtin"
            % (early[0]["l"], next((b for a, b in zip(order, order[1:]) if b < a), "?"), next((a for a, b in zip(order, order[1:]) if b < a), "?")))
    # ---- escape routing
    n = 0
    keys = {}
    for g in prog.all_functions():
        if g.component != "exp2python":
            continue
        for c in g.calls("fprintf"):
            args = call_args(c)
            if len(args) < 2:
                continue
            dest = strip(args[0])
            if dest is not None and dest["k"] == "Ref" and dest["n"] == "stderr":
                continue
            fa = strip(args[1])
            if fa is None or fa["k"] != "Str":
                continue
            for ci, conv, incode in code_positions(fa["s"]):
                if conv != "s" or not incode or 2 + ci >= len(args):
                    continue
                a = args[2 + ci]
                if not is_name_expr(a):
                    continue
                n += 1
                txt = re.sub(r"\s+", "", expr_str(strip(a)))
                k = "R2|%s|%s|%s<-%s" % (g.relfile(), g.name, re.sub(r"\s+", " ", fa["s"]).strip()[:28], txt[:40])
                keys[k] = keys.get(k, 0) + 1
                if keys[k] > 1:
                    k += "#%d" % keys[k]
                if (g.relfile(), g.name) in NOT_PYTHON:
                    res.add("R2.names_escaped", k, g.where(c), True, "not Python output: " + NOT_PYTHON[(g.relfile(), g.name)])
                    continue
                guarded = False
                for (cn, pol) in known_facts(g, c):
                    for y in walk(cn):
                        if y["k"] == "Call" and (y.get("fn") or "") == "is_python_keyword" and \
                                re.sub(r"\s+", "", expr_str(strip(y["ch"][0]))) == txt:
                            guarded = True
                # companion argument: "%s%s", name, py_kw_suffix(name)
                if not guarded and 3 + ci < len(args):
                    nxt = strip(args[3 + ci])
                    if nxt is not None and nxt["k"] == "Call" and (nxt.get("fn") or "") == "py_kw_suffix" and \
                            re.sub(r"\s+", "", expr_str(strip(nxt["ch"][0]))) == txt:
                        guarded = True
                res.add("R2.names_escaped", k, g.where(c), guarded,
                        "the identifier is printed under the keyword test / with its escape suffix" if guarded else
                        "%s prints the schema identifier %s into Python code (format %r) without the keyword escape: a definition or "
                        "reference of a name like 'lambda' or 'global' does not compile, or does not match its escaped definition" %
                        (g.name, expr_str(strip(a)), re.sub(r"\s+", " ", fa["s"])[:40]))
    res.floor("R2", "schema identifiers printed in code position", n, 28)


def r3_imports(prog, res):
    base = "/repo/src/exp2python/python"
    n = 0
    for g in prog.all_functions():
        if g.component != "exp2python":
            continue
        for c in g.calls("fprintf"):
            args = call_args(c)
            fa = strip(args[1]) if len(args) > 1 else None
            if fa is None or fa["k"] != "Str":
                continue
            for m in re.finditer(r"^\s*from\s+([A-Za-z_][\w.]*)\s+import\s+(\w+|\*)", fa["s"], re.M):
                n += 1
                mod = m.group(1).split(".")
                pkgdir = os.path.join(base, mod[0])
                ok = os.path.isfile(os.path.join(pkgdir, "__init__.py"))
                if ok and len(mod) > 1:
                    ok = os.path.isfile(os.path.join(pkgdir, *mod[1:]) + ".py")
                elif ok and m.group(2) != "*":
                    ok = os.path.isfile(os.path.join(pkgdir, m.group(2) + ".py")) or m.group(2) in open(os.path.join(pkgdir, "__init__.py")).read()
                res.add("R3.import_exists", "R3|%s|%s|from %s import %s" % (g.relfile(), g.name, m.group(1), m.group(2)), g.where(c), ok,
                        "the generated header imports %s, which the bundled runtime provides" % m.group(1) if ok else
                        "the generated header says 'from %s import %s' but src/exp2python/python has no such package/module: every "
                        "generated module fails at import" % (m.group(1), m.group(2)))
    res.floor("R3", "import lines in the generated header", n, 6)


def r4_coverage(prog, res):
    te = prog.enums.get("type_enum") or {}
    scope = prog.one("SCOPEPrint", "classes_wrapper_python.cc")
    if scope is None:
        res.broke("anchor vanished: SCOPEPrint of exp2python")
        return
    from rules.c17 import grammar_kinds
    kinds = grammar_kinds(res)
    if not kinds:
        return
    tvars = set()
    for x in scope.walk():
        if x["k"] == "Assign" and x.get("op") == "=":
            r = strip(x["ch"][1])
            l = strip(x["ch"][0])
            if r is not None and r["k"] == "Call" and (r.get("fn") or "") == "DICTdo" and l is not None and l["k"] == "Ref":
                tvars.add(l.get("d"))
    res.floor("R4", "type loops in SCOPEPrint", len(tvars), 4)

    def is_target(fn, call, idx):
        return (call.get("fn") or "") == "TYPEprint_descriptions"
    for kname in sorted(kinds):
        for head in (False, True):
            ex = Explorer(prog, te[kname], head, is_target, prefer_file="exp2python")
            ex.walk_stmt(scope, scope.body, set(tvars))
            ok = bool(ex.hits)
            res.add("R4.type_reaches_printer", "R4|src/exp2python/src/classes_wrapper_python.cc|SCOPEPrint|kind=%s,renames=%d" % (kname, head),
                    scope.where(), ok,
                    "a %s type %s is handed to TYPEprint_descriptions" % (kname, "renaming another type" if head else "declared directly") if ok else
                    "no loop of SCOPEPrint hands a %s type %s to TYPEprint_descriptions: the module has no definition for it" %
                    (kname, "that renames another type" if head else "declared directly"))
    # entities
    n = 0
    for c in scope.calls("ENTITYPrint"):
        n += 1
        conds = [a for a in scope.ancestors(c) if a["k"] == "If"]
        conds = [a for a in conds if not all((x.get("m") or "").startswith("LISTdo") or (x.get("mo") or "").startswith("LISTdo") for x in walk(a["ch"][0]))]
        texts = [expr_str(a["ch"][0]) for a in conds]
        ok = all("search_id" in t and "&&" not in t and "||" not in t for t in texts)
        res.add("R4.entity_reaches_printer", "R4|src/exp2python/src/classes_wrapper_python.cc|SCOPEPrint|ENTITYPrint", scope.where(c), ok,
                "every entity not yet printed is printed (only the processing mark is tested)" if ok else
                "ENTITYPrint is reached only under %s" % texts)
    res.floor("R4", "ENTITYPrint call sites", n, 1)
    # supertypes in declaration order
    f = prog.one("LIBdescribe_entity")
    if f is None:
        res.broke("anchor vanished: LIBdescribe_entity")
        return
    sup_vars = set()
    for x in f.walk():
        if x["k"] == "Assign" or (x["k"] == "Var" and x.get("ch")):
            r = strip(x["ch"][-1])
            if r is not None and r["k"] == "Member" and r["n"] == "supertypes":
                l = strip(x["ch"][0]) if x["k"] == "Assign" else x
                if l is not None and l.get("d"):
                    sup_vars.add(l["d"])
    sorts = [c for c in f.calls() if (c.get("fn") or "") in ("LISTsort", "LISTreverse", "LISTswap") and c.get("ch") and
             (strip(c["ch"][0]) or {}).get("d") in sup_vars]
    res.add("R4.supertypes_in_declaration_order", "R4|src/exp2python/src/classes_python.c|LIBdescribe_entity|supertype-order",
            f.where(sorts[0]) if sorts else f.where(), not sorts,
            "the base classes are printed in the order of the SUBTYPE OF clause" if not sorts else
            "the entity's supertype list is sorted (%s) before the base classes and the inherited constructor arguments are printed: "
            "SUBTYPE OF (a, b) can come out as class c(b, a) with b's attributes first" % expr_str(sorts[0])[:50])


def r5_single_pass(prog, res):
    import singlepass
    singlepass.check(prog, res, "R5.one_module_per_schema", "exp2python/src/multpass_python.c", "exp2python")


def r6_same_template_same_filter(prog, res):
    """A numbered name that is written from two places - `inherited<i>__<name>` as a formal parameter of __init__ and as the
    argument passed on to the parent's __init__ - has to be written for the same attributes in both, otherwise the numbers
    and names of the two lists differ: the emission sites of one such format string (it carries a running index that is
    advanced right after) inside one generator function stand under the same schema predicates with the same polarity."""
    n = 0
    for f in prog.all_functions():
        if f.component != "exp2python":
            continue
        groups = {}
        for c in f.calls():
            if (c.get("fn") or "") != "fprintf":
                continue
            a = call_args(c)
            if len(a) >= 2 and strip(a[1]) is not None and strip(a[1])["k"] == "Str" and "%" in strip(a[1])["s"]:
                groups.setdefault(strip(a[1])["s"], []).append(c)
        for fmt, cs in sorted(groups.items()):
            if len(cs) < 2:
                continue
            # only positional names: the text carries a running index that is advanced right after it is written
            def numbered(c):
                par = f.parent.get(c["i"])
                for a_ in call_args(c)[2:]:
                    v = strip(a_)
                    if v is not None and v["k"] == "Ref" and v.get("dk") == "local" and par is not None:
                        if any(y["k"] == "Unary" and y.get("op") in ("post++", "pre++") and strip(y["ch"][0]) is not None and
                               strip(y["ch"][0]).get("d") == v["d"] for st in (par.get("ch") or []) if st is not None for y in walk(st)):
                            return True
                return False
            if not all(numbered(c) for c in cs):
                continue

            def sig(c):
                out = set()
                for cn, pol in known_facts(f, c):
                    cn0 = strip(cn)
                    if cn0 is None:
                        continue
                    if (cn.get("mo") or cn.get("m") or "").startswith(("LISTdo", "DICTdo", "SCOPEdo")) or \
                            (cn0.get("mo") or cn0.get("m") or "").startswith(("LISTdo", "DICTdo", "SCOPEdo", "_")):
                        continue          # plumbing of the iteration macros
                    if "val" in cn0 and cn0["k"] in ("Int", "Bool"):
                        continue
                    name = cn0.get("mo") or cn0.get("m")
                    out.add((name if name and re.match(r"(VAR|TYPE|ENTITY|SCOPE|EXP|LIST)", name) else expr_str(cn0)[:70], pol))
                return tuple(sorted(out, key=str))
            sigs = [sig(c) for c in cs]
            n += 1
            ok = len(set(sigs)) == 1
            res.add("R6.same_template_same_filter", "R6|%s|%s|%s" % (f.relfile(), f.name, fmt.strip()[:40]), f.where(cs[0]), ok,
                    "the %d places that write %r stand under the same schema predicates %s" % (len(cs), fmt, list(sigs[0])) if ok else
                    "%r is written at lines %s under different schema predicates (%s): the two pieces of generated code that must name the "
                    "same attributes (e.g. the parameters of __init__ and the arguments passed to the parent's __init__) get out of step"
                    % (fmt, [c["l"] for c in cs], " vs ".join(str([("%s%s" % ("" if p_ is True else "!" if p_ is False else "", n_)) for n_, p_ in sg]) for sg in sorted(set(sigs), key=str))))
    res.floor("R6.same_template_same_filter", "numbered name templates written from several places of one generator function", n, 1)


def r7_base_emitted_first(prog, res):
    """Python executes a module top-down: `class c(b):` needs `b` bound already.  The printer of a defined type takes the base class
    from an expression H(type) (the declared underlying type); the scheduler that orders the defined types prints a type only when
    the type G(t) it waits for is marked PROCESSED.  The order is a topological order of the emitted base relation only when G and H
    are the same expression: waiting for the root of the rename chain instead of the direct underlying type prints `class c(b)` before
    `class b(a)` for a chain of three."""
    import clones

    def subst(fn, e, d):
        # canonical form with the type variable written T (node level: a member that happens to be called like the variable is untouched)
        return clones._canon(fn, e, {d: "T"})

    def obj_of_name(a):
        # X->symbol.name  ->  X
        a = strip(a)
        while a is not None and a["k"] in ("Cast", "Paren") and a.get("ch"):
            a = strip(a["ch"][0])
        if a is not None and a["k"] == "Member" and a.get("n") == "name" and a.get("ch"):
            b = strip(a["ch"][0])
            if b is not None and b["k"] == "Member" and b.get("n") == "symbol" and b.get("ch"):
                return strip(b["ch"][0])
        return None
    # emitters: fprintf whose format closes a class header `...):` and whose first name argument is the name of H(param)
    emit = {}
    for f in prog.all_functions():
        if f.component != "exp2python" or not f.params:
            continue
        for c in f.calls("fprintf"):
            a = call_args(c)
            if len(a) < 3 or strip(a[1]) is None or strip(a[1])["k"] != "Str" or not re.match(r"^%s(%s)?\):\n$", strip(a[1]).get("s") or ""):
                continue
            prev = [x for x in f.calls("fprintf") if x["l"] < c["l"] and len(call_args(x)) > 1 and strip(call_args(x)[1]) is not None and
                    strip(call_args(x)[1])["k"] == "Str" and (strip(call_args(x)[1]).get("s") or "").startswith("class ")]
            if not prev:
                continue
            o = obj_of_name(a[2])
            if o is None:
                continue
            if o["k"] == "Ref" and o.get("dk") == "local":
                # a local that holds the type: every assignment before the call gives it the same expression
                defs = [a_["ch"][1] for a_ in f.walk() if a_["k"] == "Assign" and a_.get("op", "=") == "=" and a_["l"] < c["l"] and
                        strip(a_["ch"][0]) is not None and strip(a_["ch"][0])["k"] == "Ref" and strip(a_["ch"][0]).get("d") == o["d"]]
                defs += [v_["ch"][0] for v_ in f.walk() if v_["k"] == "Var" and v_.get("d") == o["d"] and v_.get("ch") and v_["ch"][0] is not None]
                if defs and len({clones._canon(f, strip(x), {}) for x in defs}) == 1:
                    o = strip(defs[0])
                    while o is not None and o["k"] in ("Cast", "Paren") and o.get("ch"):
                        o = strip(o["ch"][0])
            tp = [p_ for p_ in f.params if any(y["k"] == "Ref" and y.get("d") == p_["d"] for y in walk(o))]
            if len(tp) == 1:
                emit[f.key] = (f, c, subst(f, o, tp[0]["d"]), f.params.index(tp[0]))
    res.info["r7_class_header_emitters"] = sorted(v[0].name for v in emit.values())
    n = 0
    PROC = None
    for f in prog.all_functions():
        if f.component != "exp2python":
            continue
        for c in f.calls():
            if c.get("fk") not in emit:
                continue
            ef, ec, H, pi = emit[c["fk"]]
            targ = strip(call_args(c)[pi]) if len(call_args(c)) > pi else None
            if targ is None or targ["k"] != "Ref":
                continue
            # the guard: <X>->search_id == PROCESSED in an enclosing condition; X assigned from G(t) before
            from engines import enclosing_conditions
            waits = []
            for cond, br in enclosing_conditions(f, c):
                for y in walk(cond):
                    if y["k"] == "Binary" and y.get("op") == "==":
                        l, r = strip(y["ch"][0]), strip(y["ch"][1])
                        if l is not None and l["k"] == "Member" and l.get("n") == "search_id" and r is not None and r.get("m") == "PROCESSED":
                            x = strip(l["ch"][0])
                            if x is not None and x["k"] == "Ref" and x.get("d") != targ.get("d"):
                                waits.append(x)
            for x in waits:
                asg = [a_ for a_ in f.walk() if a_["k"] == "Assign" and strip(a_["ch"][0]) is not None and strip(a_["ch"][0]).get("d") == x["d"] and a_["l"] <= c["l"]]
                if not asg:
                    continue
                G = subst(f, asg[-1]["ch"][1], targ["d"])
                n += 1
                ok = G == H
                res.add("R7.base_emitted_first", "R7|%s|%s|%s" % (f.relfile(), f.name, ef.name), f.where(asg[-1]), ok,
                        "%s prints a type when `%s` is processed, and %s names `%s` as the base class: the same type" % (f.name, G, ef.name, H) if ok else
                        "%s prints a defined type as soon as `%s` has been printed, but %s (line %s) names `%s` as its base class: for "
                        "TYPE a = REAL; TYPE b = a; TYPE c = b; either `class c(b)` can be printed before `class b(a)` (the module fails to import "
                        "with NameError) or `c` is given a base other than the type it was declared from (`class c(a)`: b's WHERE rules and "
                        "the subclass relation are lost)" % (f.name, G, ef.name, ec["l"], H))
    res.floor("R7.base_emitted_first", "schedulers of class-header emitters", n, 1)


def run(prog, res, tier):
    r7_base_emitted_first(prog, res)
    r6_same_template_same_filter(prog, res)
    r1_decls(res, tier)
    r5_single_pass(prog, res)
    r2_keywords(prog, res)
    r3_imports(prog, res)
    r4_coverage(prog, res)
